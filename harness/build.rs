// Auto-discovers src/ops/*.rs (except mod.rs / util.rs) and generates the module list + dispatcher,
// so that adding a core's request handlers never needs an edit of a shared file.
// Each ops module exposes:  pub const CMDS: &[&str];  pub fn handle(toks: &[&str], st: &mut State) -> Option<String>;
use std::{env, fs, path::Path};

fn main() {
    let dir = Path::new(&env::var("CARGO_MANIFEST_DIR").unwrap()).join("src/ops");
    println!("cargo:rerun-if-changed={}", dir.display());
    let mut names = vec![];
    for e in fs::read_dir(&dir).unwrap() {
        let p = e.unwrap().path();
        let stem = p.file_stem().unwrap().to_str().unwrap().to_string();
        if p.extension().map(|x| x == "rs").unwrap_or(false) && stem != "mod" && stem != "util" {
            names.push((stem, p));
        }
    }
    names.sort();
    let mut s = String::new();
    for (n, p) in &names {
        s.push_str(&format!("#[path = {:?}]\npub mod {};\n", p.display().to_string(), n));
    }
    s.push_str("pub fn dispatch_gen(toks: &[&str], st: &mut crate::State) -> Option<String> {\n");
    for (n, _) in &names {
        s.push_str(&format!(
            "    if {n}::CMDS.contains(&toks[0]) {{ return {n}::handle(toks, st); }}\n",
            n = n
        ));
    }
    s.push_str("    None\n}\n");
    fs::write(Path::new(&env::var("OUT_DIR").unwrap()).join("ops_gen.rs"), s).unwrap();
}
