//! GSUB interpreter on an injected buffer, through verif::layout::gsub_apply.
//!   planinfo <fontid> <dir> <script> <lang> <feats>          -> ok <stage>:<idx>:<mask>:<zwnj>:<zwj>:<random>:<persyl>,…  (GSUB lookups)
//!   gsub <fontid> <dir> <script> <lang> <feats> <substart 0|1> FONT <tokens…> MAPS <maps> BUF <buffer state tokens>
//!        (FONT … MAPS … are for the Lean model; the crate uses the registered font and its own plan)
//!        -> ok <buffer state>   |  panic …
use super::buffer::{fmt_state, parse_state};
use super::shape::parse_req;
use crate::State;
use rustybuzz::verif::{buffer as vb, layout as vl};
use rustybuzz::{Face, ShapePlan};

pub const CMDS: &[&str] = &["planinfo", "gsub"];

fn plan_for<'a>(st: &State, toks: &[&'a str]) -> Option<(Face<'static>, ShapePlan)> {
    // reuse the `shape` request parser: fontid dir script lang flags level feats pre post text
    let req_toks = [toks[0], toks[1], toks[2], toks[3], "0", "0", toks[4], "-", "-", "-"];
    let r = parse_req(&req_toks)?;
    let data: &'static [u8] = st.fonts.get(r.font)?;
    let face = Face::from_slice(data, 0)?;
    let dir = r.dir.unwrap_or(rustybuzz::Direction::LeftToRight);
    let lang = r.lang.as_ref().and_then(|l| l.parse::<rustybuzz::Language>().ok());
    let plan = ShapePlan::new(&face, dir, r.script, lang.as_ref(), &r.feats);
    Some((face, plan))
}

pub fn handle(toks: &[&str], st: &mut State) -> Option<String> {
    match toks[0] {
        "planinfo" => {
            let (_face, plan) = plan_for(st, &toks[1..])?;
            let v = vl::plan_lookups(&plan, false);
            let s: Vec<String> = v
                .iter()
                .map(|l| {
                    format!(
                        "{}:{}:{}:{}:{}:{}:{}",
                        l.0, l.1, l.2, l.3 as u8, l.4 as u8, l.5 as u8, l.6 as u8
                    )
                })
                .collect();
            Some(format!("ok {}", if s.is_empty() { "-".into() } else { s.join(",") }))
        }
        "gsub" => {
            let (face, plan) = plan_for(st, &toks[1..])?;
            let substart = *toks.get(6)? == "1";
            let bpos = toks.iter().position(|t| *t == "BUF")?;
            let bst = parse_state(&toks[bpos + 1..])?;
            let mut b = vb::make(&bst);
            vl::gsub_apply(&face, &plan, &mut b, substart);
            Some(format!("ok {}", fmt_state(&vb::dump(&b))))
        }
        _ => None,
    }
}
