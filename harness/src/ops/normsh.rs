//! the normalizer under a shaper record of the crate (its normalization preference, decompose / compose and
//! `reorder_marks` callbacks) through `verif::normalize::normalize_shaper` — C01 / C09, stream `norm-run`
//!   normsh run <shaper> <gposmark 0|1> <level> <inv|-> <nfvs|-> <fonthex> <cmap> <uvs> <text>
//!        fields as in `norm runv` (ops/norm.rs); shaper = a name of `verif::normalize::shaper_by_name`
//!     -> ok <successful> <scratch_flags> cp:cluster:mask:gidx:cls:hi:ign:hidden:cont ...
//!   normsh info <shaper>   -> <mode 0..4> <has reorder_marks 0|1>
//!   normsh consts          -> 220 <CCC22> 230 <CCC26> <MAX_COMBINING_MARKS> <modifier combining marks, comma separated>
use super::util::hex_bytes;
use rustybuzz::verif::{arabic as ah, normalize as nh};

pub const CMDS: &[&str] = &["normsh"];

/// the face must implement the cmap the request claims
fn probe_cmap(face: &rustybuzz::Face, spec: &str) -> Result<(), String> {
    if spec == "-" {
        return Ok(());
    }
    for g in spec.split(',') {
        let bad = || "bad-cmap-spec".to_string();
        let (r, gid) = g.split_once(':').ok_or_else(bad)?;
        let (lo, hi) = r.split_once('-').ok_or_else(bad)?;
        let lo: u32 = lo.parse().map_err(|_| bad())?;
        let hi: u32 = hi.parse().map_err(|_| bad())?;
        let gid: u32 = gid.parse().map_err(|_| bad())?;
        let want = |c: u32| -> Option<u16> {
            if c < lo || c > hi {
                return None;
            }
            u16::try_from(gid + (c - lo)).ok()
        };
        for c in [lo, hi, (lo + hi) / 2] {
            let got = char::from_u32(c).and_then(|c| face.glyph_index(c)).map(|g| g.0);
            if char::from_u32(c).is_some() && got != want(c) {
                return Err(format!("font-spec-mismatch {} {:?} {:?}", c, got, want(c)));
            }
        }
    }
    Ok(())
}

/// the face must implement the variation sequences the request claims
fn probe_uvs(face: &rustybuzz::Face, spec: &str) -> Result<(), String> {
    if spec == "-" {
        return Ok(());
    }
    let bad = || "bad-uvs-spec".to_string();
    let mut ents: Vec<(u32, bool, u32, u32)> = vec![];
    for e in spec.split(',') {
        let f: Vec<&str> = e.split(':').collect();
        if f.len() != 4 {
            return Err(bad());
        }
        let vs: u32 = f[0].parse().map_err(|_| bad())?;
        let a: u32 = f[2].parse().map_err(|_| bad())?;
        let b: u32 = f[3].parse().map_err(|_| bad())?;
        match f[1] {
            "d" => ents.push((vs, true, a, b)),
            "n" => ents.push((vs, false, a, b)),
            _ => return Err(bad()),
        }
    }
    for &(vs, dflt, a, b) in &ents {
        let v = char::from_u32(vs).ok_or_else(bad)?;
        let cps: Vec<u32> = if dflt { vec![a, b] } else { vec![a] };
        for c in cps {
            let ch = match char::from_u32(c) {
                Some(ch) => ch,
                None => continue,
            };
            let in_default = ents.iter().any(|&(w, d, lo, hi)| w == vs && d && lo <= c && c <= hi);
            let want = if in_default {
                face.glyph_index(ch).map(|g| g.0)
            } else {
                u16::try_from(b).ok()
            };
            let got = nh::glyph_variation_index(&face, ch, v);
            if got != want {
                return Err(format!("uvs-spec-mismatch {} {} {:?} {:?}", c, vs, got, want));
            }
        }
    }
    Ok(())
}

fn parse_text(tok: &str) -> Option<Vec<(u32, u32, u32)>> {
    let mut text = vec![];
    for t in tok.split(',') {
        let mut it = t.split(':');
        let cp: u32 = it.next()?.parse().ok()?;
        char::from_u32(cp)?;
        let cl: u32 = it.next()?.parse().ok()?;
        let mask: u32 = it.next()?.parse().ok()?;
        text.push((cp, cl, mask));
    }
    Some(text)
}

fn show_outcome(o: &nh::Outcome) -> String {
    let mut s = format!("ok {} {}", o.successful as u8, o.scratch_flags);
    for r in &o.recs {
        let cls = if r.is_mark {
            1
        } else if r.is_space {
            2
        } else {
            0
        };
        s.push_str(&format!(
            " {}:{}:{}:{}:{}:{}:{}:{}:{}",
            r.cp,
            r.cluster,
            r.mask,
            r.gidx,
            cls,
            r.props >> 8,
            (r.props >> 5) & 1,
            (r.props >> 6) & 1,
            (r.props >> 7) & 1
        ));
    }
    s
}

pub fn handle(toks: &[&str], _st: &mut crate::State) -> Option<String> {
    let toks = &toks[1..];
    match *toks.first()? {
        "consts" => Some(format!(
            "{} {}",
            ah::reorder_marks_constants()
                .iter()
                .map(|x| x.to_string())
                .collect::<Vec<_>>()
                .join(" "),
            ah::modifier_combining_marks()
                .iter()
                .map(|x| x.to_string())
                .collect::<Vec<_>>()
                .join(",")
        )),
        "info" => {
            let (m, r) = nh::shaper_normalization(toks.get(1)?)?;
            Some(format!("{} {}", m, r as u8))
        }
        "run" => {
            if toks.len() != 10 {
                return None;
            }
            let name = toks[1];
            let gposmark = match toks[2] {
                "0" => false,
                "1" => true,
                _ => return None,
            };
            let level: u32 = toks[3].parse().ok()?;
            if level > 1 {
                return None;
            }
            let inv: Option<u16> = match toks[4] {
                "-" => None,
                s => Some(s.parse().ok()?),
            };
            let nfvs: Option<u32> = match toks[5] {
                "-" => None,
                s => Some(s.parse().ok()?),
            };
            let data = hex_bytes(toks[6])?;
            let face = rustybuzz::Face::from_slice(&data, 0)?;
            if let Err(e) = probe_cmap(&face, toks[7]) {
                return Some(e);
            }
            if let Err(e) = probe_uvs(&face, toks[8]) {
                return Some(e);
            }
            let text = parse_text(toks[9])?;
            let o = nh::normalize_shaper(&face, name, gposmark, level, inv, nfvs, &text)?;
            Some(show_outcome(&o))
        }
        _ => None,
    }
}
