//! Thai/Lao preprocessing through verif::thai::preprocess.
//!   thai <fontid> <level> <hexcp,hexcp,…>   -> ok gid:cluster,…   (code points after the pass, before cmap)
use crate::State;
use rustybuzz::verif::{buffer as vb, thai as vt};
use rustybuzz::{Direction, Face, ShapePlan};

pub const CMDS: &[&str] = &["thai"];

pub fn handle(toks: &[&str], st: &mut State) -> Option<String> {
    let data: &'static [u8] = st.fonts.get(*toks.get(1)?)?;
    let face = Face::from_slice(data, 0)?;
    let level: u32 = toks.get(2)?.parse().ok()?;
    let cps: Vec<u32> = if toks.get(3)? == &"-" {
        vec![]
    } else {
        toks[3].split(',').map(|x| u32::from_str_radix(x, 16).ok()).collect::<Option<Vec<_>>>()?
    };
    let script = rustybuzz::Script::from_iso15924_tag(rustybuzz::ttf_parser::Tag::from_bytes(b"Thai"));
    let plan = ShapePlan::new(&face, Direction::LeftToRight, script, None, &[]);
    let n = cps.len();
    let mut s = vb::State::default();
    s.info = cps.iter().enumerate().map(|(i, c)| [*c, 0, i as u32, 0, 0]).collect();
    s.out = vec![[0; 5]; n];
    s.len = n;
    s.successful = true;
    s.cluster_level = level;
    s.max_len = 16384.max(64 * n);
    s.max_ops = 16384;
    let mut b = vb::make(&s);
    vt::preprocess(&plan, &face, &mut b);
    let d = vb::dump(&b);
    let body: Vec<String> = d.info[..d.len].iter().map(|r| format!("{}:{}", r[0], r[2])).collect();
    Some(format!("ok {}", if body.is_empty() { "-".into() } else { body.join(",") }))
}
