//! Monitor of the glyph-set digest the GSUB / GPOS drivers keep for the buffer (C10, C03).
//!   digestmon      -> <n>   number of layout stages, since the previous `digestmon`, after which the context digest did
//!                           NOT report some glyph of the buffer (hook verif::layout::digest_monitor inside
//!                           apply_layout_table; 0 is the only sound answer).  Search-only: the model has no such command.
use crate::State;

pub const CMDS: &[&str] = &["digestmon"];

pub fn handle(_toks: &[&str], _st: &mut State) -> Option<String> {
    Some(rustybuzz::verif::layout::take_stale_digest_events().to_string())
}
