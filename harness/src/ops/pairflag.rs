//! C03 / C04 / C07 — pair kerning and pair positioning WITH their glyph flags (model: lean/RbModel/PairFlag.lean).
//! Positions are tokens `xa:ya:xo:yo:chain:type`; directions `l r t b i`;
//! infos = gid:mask:glyph_props:unicode_props:cluster,...
//!
//!   pf mk <dir> <len> <mask> <cross 0|1> <bufflags> <level> <pairs l:r:v,...|-> <infos> | <pos...>
//!         the private machine_kern (hook verif::kerning::machine_kern_flags) -> ok <has> <scratch> <mask,...|-> <pos...>
//!   pf kx <kerxhex> <n> <dir> <kern 0|1|-> <mask> <cross 0|1> <bufflags> <level> <pairs> <infos> | <pos...>
//!         the private apply_simple_kerning of aat_layout_kerx_table.rs on subtable n of this `kerx`
//!         (hook verif::kerx::simple_kerning_flags); <mask> must equal the plan's kern_mask; <cross> <pairs> are for
//!         the Lean side (the subtable's cross-stream bit and every non-zero glyphs_kerning value)
//!         -> ok <has> <scratch> <mask,...|-> <pos...> | notsimple | plan-mismatch <mask>
//!   pf pair <ppem_x> <ppem_y> <hex> <props> <dir> <bufflags> <level> <idx> <infos5> <model...> | <pos...>
//!         the real PairAdjustment::apply, exactly the request `gpf pair` (harness/src/ops/gposflag.rs); only the
//!         <model...> tokens differ: the Lean side gets the subtable's data and runs the skipping iterator itself
use super::util::hex_bytes;
use rustybuzz::ttf_parser;
use rustybuzz::verif::gpos as g;
use rustybuzz::verif::kerning as k;
use rustybuzz::verif::kerx as kx;
use rustybuzz::{Direction, Face, Feature, ShapePlan};

pub const CMDS: &[&str] = &["pf"];

fn dir(s: &str) -> Option<Direction> {
    Some(match s {
        "l" => Direction::LeftToRight,
        "r" => Direction::RightToLeft,
        "t" => Direction::TopToBottom,
        "b" => Direction::BottomToTop,
        "i" => Direction::Invalid,
        _ => return None,
    })
}

fn pos(toks: &[&str]) -> Option<Vec<g::P>> {
    toks.iter()
        .map(|t| {
            let v: Vec<&str> = t.split(':').collect();
            if v.len() != 6 {
                return None;
            }
            Some((
                v[0].parse().ok()?,
                v[1].parse().ok()?,
                v[2].parse().ok()?,
                v[3].parse().ok()?,
                v[4].parse().ok()?,
                v[5].parse().ok()?,
            ))
        })
        .collect()
}

fn fmt_pos(ps: &[g::P]) -> String {
    ps.iter()
        .map(|p| format!("{}:{}:{}:{}:{}:{}", p.0, p.1, p.2, p.3, p.4, p.5))
        .collect::<Vec<_>>()
        .join(" ")
}

fn infos(t: &str) -> Option<Vec<k::IF>> {
    if t == "-" {
        return Some(vec![]);
    }
    t.split(',')
        .map(|e| {
            let v: Vec<&str> = e.split(':').collect();
            if v.len() != 5 {
                return None;
            }
            Some((
                v[0].parse().ok()?,
                v[1].parse().ok()?,
                v[2].parse().ok()?,
                v[3].parse().ok()?,
                v[4].parse().ok()?,
            ))
        })
        .collect()
}

fn with_face<R>(kerx: Option<&[u8]>, f: impl FnOnce(&Face) -> R) -> Option<R> {
    let mut head = vec![0u8; 54];
    head[1] = 1;
    head[12] = 0x5F;
    head[13] = 0x0F;
    head[14] = 0x3C;
    head[15] = 0xF5;
    head[18] = 0x03;
    head[19] = 0xE8;
    let mut hhea = vec![0u8; 36];
    hhea[1] = 1;
    hhea[35] = 1;
    let maxp = [0u8, 0, 0x50, 0, 0xFF, 0xFF];
    let raw = ttf_parser::RawFaceTables {
        head: &head,
        hhea: &hhea,
        maxp: &maxp,
        kerx,
        ..Default::default()
    };
    let tf = ttf_parser::Face::from_raw_tables(raw).ok()?;
    let face = Face::from_face(tf);
    Some(f(&face))
}

fn kern_feats(s: &str) -> Vec<Feature> {
    match s {
        "0" => vec![Feature::new(ttf_parser::Tag::from_bytes(b"kern"), 0, ..)],
        "1" => vec![Feature::new(ttf_parser::Tag::from_bytes(b"kern"), 1, ..)],
        _ => vec![],
    }
}

fn reply(ps: &[g::P], has: bool, masks: &[u32], scratch: u32) -> String {
    let ms = masks.iter().map(|m| m.to_string()).collect::<Vec<_>>().join(",");
    format!(
        "ok {} {} {} {}",
        has as u8,
        scratch & 0x20, // HAS_GLYPH_FLAGS only (HAS_GPOS_ATTACHMENT is the <has> token)
        if ms.is_empty() { "-".to_string() } else { ms },
        fmt_pos(ps)
    )
}

pub fn handle(toks: &[&str], st: &mut crate::State) -> Option<String> {
    match *toks.get(1)? {
        "mk" => {
            let d = dir(toks.get(2)?)?;
            let len: usize = toks.get(3)?.parse().ok()?;
            let mask: u32 = toks.get(4)?.parse().ok()?;
            let cross = *toks.get(5)? == "1";
            let bflags: u32 = toks.get(6)?.parse().ok()?;
            let level: u8 = toks.get(7)?.parse().ok()?;
            let mut pairs = vec![];
            if *toks.get(8)? != "-" {
                for t in toks[8].split(',') {
                    let v: Vec<&str> = t.split(':').collect();
                    if v.len() != 3 {
                        return None;
                    }
                    pairs.push((v[0].parse().ok()?, v[1].parse().ok()?, v[2].parse().ok()?));
                }
            }
            let inf = infos(toks.get(9)?)?;
            let bar = toks.iter().position(|t| *t == "|")?;
            let p = pos(&toks[bar + 1..])?;
            with_face(None, |f| {
                let (ps, has, masks, scratch) =
                    k::machine_kern_flags(f, &inf, &p, len, mask, cross, d, bflags, level, &pairs);
                reply(&ps, has, &masks, scratch)
            })
        }
        "kx" => {
            let data = hex_bytes(toks.get(2)?)?;
            let n: usize = toks.get(3)?.parse().ok()?;
            let d = dir(toks.get(4)?)?;
            let feats = kern_feats(toks.get(5)?);
            let mask: u32 = toks.get(6)?.parse().ok()?;
            let bflags: u32 = toks.get(8)?.parse().ok()?;
            let level: u8 = toks.get(9)?.parse().ok()?;
            let inf = infos(toks.get(11)?)?;
            let bar = toks.iter().position(|t| *t == "|")?;
            let p = pos(&toks[bar + 1..])?;
            with_face(Some(&data), |f| {
                let plan = ShapePlan::new(f, d, None, None, &feats);
                let (m, _, _, _, _) = k::plan_kern(&plan);
                if m != mask {
                    return format!("plan-mismatch {}", m);
                }
                match kx::simple_kerning_flags(&plan, f, n, &inf, &p, inf.len(), d, bflags, level) {
                    Some((ps, has, masks, scratch)) => reply(&ps, has, &masks, scratch),
                    None => "notsimple".to_string(),
                }
            })
        }
        "pair" => {
            let mut v: Vec<&str> = toks.to_vec();
            v[0] = "gpf";
            super::gposflag::handle(&v, st)
        }
        _ => None,
    }
}
