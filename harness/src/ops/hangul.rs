//! Hangul shaper (`preprocess_text_hangul`) through the `verif::hangul` hook, on real `Face`s built
//! here from a *support spec* (a cmap-format-12-only sfnt: head, hhea, maxp, hmtx, cmap).
//!
//!   support spec : `-` | item[,item...]   item = <a>-<b>[%<m>=<r> | %<m>!<r>][z] | <a>[z]   (decimal code
//!                  points, sorted, disjoint; `%m=r` keeps only c with (c-a) mod m == r, `%m!r` only those
//!                  with (c-a) mod m != r; `z` = the glyphs of this item have advance 0, otherwise 1000).
//!                  Glyph ids are assigned 1,2,3… in spec order (0 = .notdef, advance 1000).
//!   text         : `-` | cp:cluster[,cp:cluster...]   (decimal)
//!
//!   hangul consts                               -> L_BASE V_BASE T_BASE L_COUNT V_COUNT T_COUNT N_COUNT S_COUNT S_BASE LJMO VJMO TJMO
//!   hangul pred <u>                             -> bit mask (see hook `predicates`)
//!   hangul ranges                               -> 8 items `a-b,c-d` (or `-`): maximal ranges of each predicate over 0..=0x10FFFF
//!   hangul support <spec> <u>                   -> <has_glyph 0|1> <is_zero_width_char 0|1>
//!   hangul pre <level> <nodc 0|1> <spec> <text> -> ok cp:cluster:feature ...   (feature 0 none 1 ljmo 2 vjmo 3 tjmo)
//!   hangul prem <level> <nodc> <spec> <text>    -> ok cp:cluster:feature:mask ...  (masks = glyph flags; model: HangulBuf.lean, stream hangul-pre-flags of C03)
//!   hangul masks <spec>                         -> the plan's mask_array (4 numbers)
//!   hangul font <id> <spec>                     -> ok        (registers the built font for `shape <id> …`)
//!   hangul fonthex <spec>                       -> hex of the built sfnt
//!   hangul fontx <newid> <baseid> <extras>      -> ok | reject   (registers a copy of the registered font <baseid> with
//!                  extra sfnt tables added / replaced verbatim; extras = `-` | TAG:hex[,TAG:hex...], TAG = 4 ascii chars)
//!   hangul plan <env> <dir l|r|t|b> <script|-> <cat>  -> <shaper> <apply_morx 0|1>
//!                  the shaper and the morx decision of `ShapePlan::new` on a minimal font that has, besides cmap/head/
//!                  hhea/hmtx/maxp, the (empty) tables named by the letters of <env> ⊆ "SMKPD" (S = GSUB, M = morx,
//!                  K = kern, P = GPOS, D = GDEF; `-` = none).  <cat> (name of the shaper `hb_ot_shape_complex_categorize`
//!                  gives for the script, asked beforehand through `shaper`) is for the model only and ignored here.
use rustybuzz::verif::hangul as h;
use super::util::hex_bytes;
use rustybuzz::{BufferFlags, Direction, Face, Script, ShapePlan};
use std::cell::RefCell;
use std::collections::HashMap;

pub const CMDS: &[&str] = &["hangul"];

thread_local! {
    static FONTS: RefCell<HashMap<String, &'static [u8]>> = RefCell::new(HashMap::new());
}

fn be16(v: &mut Vec<u8>, x: u16) {
    v.extend_from_slice(&x.to_be_bytes());
}
fn be32(v: &mut Vec<u8>, x: u32) {
    v.extend_from_slice(&x.to_be_bytes());
}

/// (start, end, zero_width) runs of a spec, `%` filters expanded; None if malformed / unsorted / overlapping.
pub fn parse_spec(spec: &str) -> Option<Vec<(u32, u32, bool)>> {
    let mut items = vec![];
    if spec == "-" {
        return Some(items);
    }
    let mut last: i64 = -1;
    for it in spec.split(',') {
        let (body, z) = match it.strip_suffix('z') {
            Some(b) => (b, true),
            None => (it, false),
        };
        let (body, filt) = match body.split_once('%') {
            Some((b, f)) => {
                let (m, r, neg) = if let Some((m, r)) = f.split_once('=') {
                    (m, r, false)
                } else {
                    let (m, r) = f.split_once('!')?;
                    (m, r, true)
                };
                let m = m.parse::<u32>().ok()?;
                if m == 0 {
                    return None;
                }
                (b, Some((m, r.parse::<u32>().ok()?, neg)))
            }
            None => (body, None),
        };
        let (a, b) = match body.split_once('-') {
            Some((a, b)) => (a.parse::<u32>().ok()?, b.parse::<u32>().ok()?),
            None => {
                let a = body.parse::<u32>().ok()?;
                (a, a)
            }
        };
        if (a as i64) <= last || b < a || b > 0x10FFFF {
            return None;
        }
        last = b as i64;
        match filt {
            None => items.push((a, b, z)),
            Some((m, r, neg)) => {
                let mut run: Option<(u32, u32)> = None;
                for c in a..=b {
                    let keep = (((c - a) % m) == r) != neg;
                    match (keep, run) {
                        (true, None) => run = Some((c, c)),
                        (true, Some((s, _))) => run = Some((s, c)),
                        (false, Some((s, e))) => {
                            items.push((s, e, z));
                            run = None;
                        }
                        _ => {}
                    }
                }
                if let Some((s, e)) = run {
                    items.push((s, e, z));
                }
            }
        }
    }
    Some(items)
}

/// Minimal sfnt: cmap (3,10) format 12 + head + hhea + hmtx + maxp.
pub fn build_font(items: &[(u32, u32, bool)]) -> Option<Vec<u8>> {
    let mut num_glyphs: u32 = 1;
    let mut groups = vec![];
    let mut adv: Vec<u16> = vec![1000];
    for &(a, b, z) in items {
        groups.push((a, b, num_glyphs));
        for _ in a..=b {
            adv.push(if z { 0 } else { 1000 });
        }
        num_glyphs += b - a + 1;
    }
    if num_glyphs > 0xFFFF {
        return None;
    }
    let mut cmap = vec![];
    be16(&mut cmap, 0);
    be16(&mut cmap, 1);
    be16(&mut cmap, 3);
    be16(&mut cmap, 10);
    be32(&mut cmap, 12);
    be16(&mut cmap, 12);
    be16(&mut cmap, 0);
    be32(&mut cmap, 16 + 12 * groups.len() as u32);
    be32(&mut cmap, 0);
    be32(&mut cmap, groups.len() as u32);
    for (a, b, g) in &groups {
        be32(&mut cmap, *a);
        be32(&mut cmap, *b);
        be32(&mut cmap, *g);
    }
    let mut head = vec![];
    be32(&mut head, 0x0001_0000);
    be32(&mut head, 0x0001_0000);
    be32(&mut head, 0);
    be32(&mut head, 0x5F0F_3CF5);
    be16(&mut head, 0);
    be16(&mut head, 1000);
    head.extend_from_slice(&[0u8; 16]);
    for x in [0u16, 0, 1000, 1000] {
        be16(&mut head, x);
    }
    be16(&mut head, 0);
    be16(&mut head, 8);
    be16(&mut head, 2);
    be16(&mut head, 0);
    be16(&mut head, 0);
    let mut hhea = vec![];
    be32(&mut hhea, 0x0001_0000);
    be16(&mut hhea, 800);
    be16(&mut hhea, (-200i16) as u16);
    be16(&mut hhea, 0);
    be16(&mut hhea, 1000);
    for _ in 0..3 {
        be16(&mut hhea, 0);
    }
    be16(&mut hhea, 1);
    be16(&mut hhea, 0);
    be16(&mut hhea, 0);
    for _ in 0..4 {
        be16(&mut hhea, 0);
    }
    be16(&mut hhea, 0);
    be16(&mut hhea, num_glyphs as u16);
    let mut maxp = vec![];
    be32(&mut maxp, 0x0000_5000);
    be16(&mut maxp, num_glyphs as u16);
    let mut hmtx = vec![];
    for a in &adv {
        be16(&mut hmtx, *a);
        be16(&mut hmtx, 0);
    }
    let mut tables: Vec<(&[u8; 4], Vec<u8>)> = vec![
        (b"cmap", cmap),
        (b"head", head),
        (b"hhea", hhea),
        (b"hmtx", hmtx),
        (b"maxp", maxp),
    ];
    let n = tables.len() as u16;
    let mut out = vec![];
    be32(&mut out, 0x0001_0000);
    be16(&mut out, n);
    be16(&mut out, 64);
    be16(&mut out, 2);
    be16(&mut out, n * 16 - 64);
    let mut off = 12 + 16 * n as u32;
    let mut body = vec![];
    for (tag, data) in tables.iter_mut() {
        out.extend_from_slice(*tag);
        be32(&mut out, 0);
        be32(&mut out, off);
        be32(&mut out, data.len() as u32);
        while data.len() % 4 != 0 {
            data.push(0);
        }
        off += data.len() as u32;
        body.extend_from_slice(data);
    }
    out.extend_from_slice(&body);
    Some(out)
}

/// A copy of the sfnt `base` with the tables of `extras` added (or replacing a table of the same tag); the table
/// directory is written sorted by tag.  None when `base` is not a plain sfnt.
pub fn add_tables(base: &[u8], extras: &[([u8; 4], Vec<u8>)]) -> Option<Vec<u8>> {
    let rd16 = |o: usize| -> Option<usize> {
        Some(u16::from_be_bytes([*base.get(o)?, *base.get(o + 1)?]) as usize)
    };
    let rd32 = |o: usize| -> Option<usize> {
        Some(u32::from_be_bytes([*base.get(o)?, *base.get(o + 1)?, *base.get(o + 2)?, *base.get(o + 3)?]) as usize)
    };
    let n = rd16(4)?;
    let mut tables: Vec<([u8; 4], Vec<u8>)> = vec![];
    for i in 0..n {
        let r = 12 + 16 * i;
        let tag = [*base.get(r)?, *base.get(r + 1)?, *base.get(r + 2)?, *base.get(r + 3)?];
        let (off, len) = (rd32(r + 8)?, rd32(r + 12)?);
        if extras.iter().any(|e| e.0 == tag) {
            continue;
        }
        tables.push((tag, base.get(off..off.checked_add(len)?)?.to_vec()));
    }
    for e in extras {
        tables.push((e.0, e.1.clone()));
    }
    tables.sort_by(|a, b| a.0.cmp(&b.0));
    let n = tables.len() as u16;
    let mut out = vec![];
    out.extend_from_slice(base.get(0..4)?);
    be16(&mut out, n);
    let es = 15 - (n.max(1)).leading_zeros() as u16;
    be16(&mut out, 16 << es);
    be16(&mut out, es);
    be16(&mut out, n * 16 - (16 << es));
    let mut off = 12 + 16 * n as u32;
    let mut body = vec![];
    for (tag, data) in tables.iter_mut() {
        out.extend_from_slice(tag);
        be32(&mut out, 0);
        be32(&mut out, off);
        be32(&mut out, data.len() as u32);
        while data.len() % 4 != 0 {
            data.push(0);
        }
        off += data.len() as u32;
        body.extend_from_slice(data);
    }
    out.extend_from_slice(&body);
    Some(out)
}

fn parse_extras(s: &str) -> Option<Vec<([u8; 4], Vec<u8>)>> {
    let mut v = vec![];
    if s == "-" {
        return Some(v);
    }
    for it in s.split(',') {
        let (t, h) = it.split_once(':')?;
        let t = t.as_bytes();
        if t.len() != 4 {
            return None;
        }
        v.push(([t[0], t[1], t[2], t[3]], hex_bytes(h)?));
    }
    Some(v)
}

/// the smallest well-formed table of each kind (`hangul plan`)
fn empty_table(letter: char) -> Option<([u8; 4], Vec<u8>)> {
    // GSUB / GPOS 1.0: three list offsets, each list = a zero count
    let layout: Vec<u8> = vec![0, 1, 0, 0, 0, 10, 0, 12, 0, 14, 0, 0, 0, 0, 0, 0];
    Some(match letter {
        'S' => (*b"GSUB", layout),
        'P' => (*b"GPOS", layout),
        // version 2, one chain (default flags 0, length 16) without features and subtables
        'M' => (*b"morx", vec![0, 2, 0, 0, 0, 0, 0, 1, 0, 0, 0, 0, 0, 0, 0, 16, 0, 0, 0, 0, 0, 0, 0, 0]),
        // version 0, no subtables
        'K' => (*b"kern", vec![0, 0, 0, 0]),
        // version 1.0, four null offsets
        'D' => (*b"GDEF", vec![0, 1, 0, 0, 0, 0, 0, 0, 0, 0, 0, 0]),
        _ => return None,
    })
}

fn font_for(spec: &str) -> Option<&'static [u8]> {
    if let Some(d) = FONTS.with(|f| f.borrow().get(spec).copied()) {
        return Some(d);
    }
    let data = build_font(&parse_spec(spec)?)?;
    let data: &'static [u8] = Box::leak(data.into_boxed_slice());
    FONTS.with(|f| f.borrow_mut().insert(spec.to_string(), data));
    Some(data)
}

fn with_face<R>(spec: &str, f: impl FnOnce(&Face) -> R) -> Option<R> {
    // big fonts are cached (and leaked) per process; small ones are rebuilt per request
    if spec.len() > 48 {
        let data = font_for(spec)?;
        let face = Face::from_slice(data, 0)?;
        Some(f(&face))
    } else {
        let data = build_font(&parse_spec(spec)?)?;
        let face = Face::from_slice(&data, 0)?;
        Some(f(&face))
    }
}

fn parse_text(s: &str) -> Option<Vec<(char, u32)>> {
    let mut v = vec![];
    if s == "-" {
        return Some(v);
    }
    for t in s.split(',') {
        let (c, cl) = t.split_once(':')?;
        v.push((char::from_u32(c.parse().ok()?)?, cl.parse().ok()?));
    }
    Some(v)
}

fn ranges_of(bit: u32) -> String {
    let mut rs: Vec<String> = vec![];
    let mut start: Option<u32> = None;
    for u in 0..=0x11_0000u32 {
        let on = u <= 0x10_FFFF && (h::predicates(u) >> bit) & 1 == 1;
        match (on, start) {
            (true, None) => start = Some(u),
            (false, Some(s)) => {
                rs.push(format!("{}-{}", s, u - 1));
                start = None;
            }
            _ => {}
        }
    }
    if rs.is_empty() {
        "-".into()
    } else {
        rs.join(",")
    }
}

pub fn handle(toks: &[&str], st: &mut crate::State) -> Option<String> {
    let toks = &toks[1..];
    match *toks.first()? {
        "consts" => {
            let c = h::constants();
            let f = h::feature_ids();
            let mut s: Vec<String> = c.iter().map(|x| x.to_string()).collect();
            s.extend(f.iter().map(|x| x.to_string()));
            Some(s.join(" "))
        }
        "pred" => {
            let u: u32 = toks.get(1)?.parse().ok()?;
            Some(format!("{}", h::predicates(u)))
        }
        "ranges" => Some((0..8).map(ranges_of).collect::<Vec<_>>().join(" ")),
        "support" => {
            let u: u32 = toks.get(2)?.parse().ok()?;
            with_face(toks.get(1)?, |face| {
                let (a, b) = h::font_support(face, u);
                format!("{} {}", a as u8, b as u8)
            })
        }
        k @ ("pre" | "prem") => {
            let level: u32 = toks.get(1)?.parse().ok()?;
            let nodc = *toks.get(2)? == "1";
            let text = parse_text(toks.get(4)?)?;
            let flags = if nodc {
                BufferFlags::DO_NOT_INSERT_DOTTED_CIRCLE
            } else {
                BufferFlags::empty()
            };
            with_face(toks.get(3)?, |face| {
                let r = h::preprocess(face, level, flags, &text);
                let mut s = String::from("ok");
                for (cp, cl, f, m) in r {
                    if k == "prem" {
                        s.push_str(&format!(" {}:{}:{}:{}", cp, cl, f, m));
                    } else {
                        s.push_str(&format!(" {}:{}:{}", cp, cl, f));
                    }
                }
                s
            })
        }
        "masks" => with_face(toks.get(1)?, |face| {
            let m = h::mask_array(face);
            format!("{} {} {} {}", m[0], m[1], m[2], m[3])
        }),
        "font" => {
            let data = font_for(toks.get(2)?)?;
            let ok = Face::from_slice(data, 0).is_some();
            st.fonts.insert(toks.get(1)?.to_string(), data);
            st.font_index.insert(toks.get(1)?.to_string(), 0);
            Some(if ok { "ok".into() } else { "reject".into() })
        }
        "fontx" => {
            let base = *st.fonts.get(*toks.get(2)?)?;
            let extras = parse_extras(toks.get(3)?)?;
            let data = add_tables(base, &extras)?;
            let data: &'static [u8] = Box::leak(data.into_boxed_slice());
            let ok = Face::from_slice(data, 0).is_some();
            st.fonts.insert(toks.get(1)?.to_string(), data);
            st.font_index.insert(toks.get(1)?.to_string(), 0);
            Some(if ok { "ok".into() } else { "reject".into() })
        }
        "plan" => {
            let env = *toks.get(1)?;
            let mut extras = vec![];
            if env != "-" {
                for c in env.chars() {
                    extras.push(empty_table(c)?);
                }
            }
            let dir = match *toks.get(2)? {
                "l" => Direction::LeftToRight,
                "r" => Direction::RightToLeft,
                "t" => Direction::TopToBottom,
                "b" => Direction::BottomToTop,
                _ => return None,
            };
            let script = match *toks.get(3)? {
                "-" => None,
                s => {
                    let b = s.as_bytes();
                    if b.len() != 4 {
                        return None;
                    }
                    Some(Script::from_iso15924_tag(rustybuzz::ttf_parser::Tag::from_bytes(&[
                        b[0], b[1], b[2], b[3],
                    ]))?)
                }
            };
            let base = build_font(&[(0x41, 0x5A, false)])?;
            let data = add_tables(&base, &extras)?;
            let face = Face::from_slice(&data, 0)?;
            // every requested table must have been accepted by the parser, otherwise the case means something else
            let t = face.tables();
            for c in env.chars() {
                let present = match c {
                    'S' => t.gsub.is_some(),
                    'P' => t.gpos.is_some(),
                    'M' => t.morx.is_some(),
                    'K' => t.kern.is_some(),
                    'D' => t.gdef.is_some(),
                    _ => true,
                };
                if !present {
                    return Some(format!("table-rejected {}", c));
                }
            }
            let plan = ShapePlan::new(&face, dir, script, None, &[]);
            let (name, _, _) = rustybuzz::verif::plan::plan_scripts(&plan);
            let applies = rustybuzz::verif::plan::plan_applies(&plan);
            Some(format!("{} {}", name, applies[4] as u8))
        }
        "fonthex" => {
            let data = build_font(&parse_spec(toks.get(1)?)?)?;
            Some(data.iter().map(|b| format!("{:02x}", b)).collect())
        }
        _ => None,
    }
}
