//! digest primitives through the `verif::digest` hook.
//!   digest add <shift> <mask> <g>            -> <mask'>
//!   digest range <shift> <mask> <a> <b>      -> <mask'> <0|1>
//!   digest has <shift> <mask> <g>            -> <0|1>
//!   digest full <m0> <m1> <m2> <op...>       ops on the 3-pattern digest:
//!        a<g> | r<a>-<b> | A<g,g,...> ; reply: m0 m1 m2
//!   digest mayhave <m0> <m1> <m2> <n0> <n1> <n2> -> 0|1
//!   digest hasglyph <m0> <m1> <m2> <g> -> 0|1
use super::util::u64s;
use rustybuzz::verif::digest as d;

pub const CMDS: &[&str] = &["digest"];

pub fn handle(toks: &[&str], _st: &mut crate::State) -> Option<String> {
    let toks = &toks[1..];
    match *toks.first()? {
        "add" => {
            let v = u64s(&toks[1..])?;
            Some(format!("{}", d::pattern_add(v[0] as u8, v[1], v[2] as u16)))
        }
        "range" => {
            let v = u64s(&toks[1..])?;
            let (m, r) = d::pattern_add_range(v[0] as u8, v[1], v[2] as u16, v[3] as u16);
            Some(format!("{} {}", m, r as u8))
        }
        "has" => {
            let v = u64s(&toks[1..])?;
            Some(format!(
                "{}",
                d::pattern_may_have_glyph(v[0] as u8, v[1], v[2] as u16) as u8
            ))
        }
        "full" => {
            let v = u64s(&toks[1..4])?;
            let mut dg = d::Digest::from_masks([v[0], v[1], v[2]]);
            let mut rets = String::new();
            for op in &toks[4..] {
                let (k, rest) = op.split_at(1);
                match k {
                    "a" => dg.add(rest.parse().ok()?),
                    "r" => {
                        let (a, b) = rest.split_once('-')?;
                        let r = dg.add_range(a.parse().ok()?, b.parse().ok()?);
                        rets.push(if r { '1' } else { '0' });
                    }
                    "A" => {
                        let gs: Option<Vec<u16>> = if rest.is_empty() {
                            Some(vec![])
                        } else {
                            rest.split(',').map(|x| x.parse().ok()).collect()
                        };
                        dg.add_array(&gs?);
                    }
                    _ => return None,
                }
            }
            let m = dg.masks();
            Some(format!("{} {} {} r{}", m[0], m[1], m[2], rets))
        }
        "mayhave" => {
            let v = u64s(&toks[1..])?;
            let a = d::Digest::from_masks([v[0], v[1], v[2]]);
            let b = d::Digest::from_masks([v[3], v[4], v[5]]);
            Some(format!("{}", a.may_have(&b) as u8))
        }
        "hasglyph" => {
            let v = u64s(&toks[1..])?;
            let a = d::Digest::from_masks([v[0], v[1], v[2]]);
            Some(format!("{}", a.may_have_glyph(v[3] as u16) as u8))
        }
        "shifts" => Some(format!("{} {} {}", d::SHIFTS[0], d::SHIFTS[1], d::SHIFTS[2])),
        _ => None,
    }
}
