//! digest primitives through the `verif::digest` hook.
//!   digest add <shift> <mask> <g>            -> <mask'>
//!   digest range <shift> <mask> <a> <b>      -> <mask'> <0|1>
//!   digest has <shift> <mask> <g>            -> <0|1>
//!   digest full <m0> <m1> <m2> <op...>       ops on the 3-pattern digest:
//!        a<g> | r<a>-<b> | A<g,g,...> ; reply: m0 m1 m2
//!   digest mayhave <m0> <m1> <m2> <n0> <n1> <n2> -> 0|1
//!   digest hasglyph <m0> <m1> <m2> <g> -> 0|1
//!   digest collect <m0> <m1> <m2> <fmt> <items>  the real `CoverageExt::collect` on a coverage table written exactly as
//!        given (NOT sorted, NOT validated).  fmt 1: items = g,g,… | -    fmt 2: items = a-b,a-b,… | -
//!        (startCoverageIndex of record i is i).  reply: m0 m1 m2
//!   digest covget <fmt> <items> <g>          `Coverage::get` on the same table -> coverage index | -
//!   digest lookups <fontid> gsub|gpos <num_glyphs>   for every lookup of the table, as parsed by the crate:
//!        ok <n> m0:m1:m2:<g,g,…|-> …   (lookup digest; glyphs below num_glyphs that some subtable's coverage reports)
//!   digest lookupdigest <fontid> gsub|gpos <lookup index> COVS <fmt> <items> <fmt> <items> …
//!        the digest `SubstLookup::parse` / `PositioningLookup::parse` built for that lookup -> m0 m1 m2
//!        (COVS …, the coverage table of every subtable as written in the font, is for the Lean model)
use super::util::u64s;
use rustybuzz::verif::digest as d;
use rustybuzz::verif::layout_common as lc;

/// payload bytes of a coverage table written as given
fn cov_payload(fmt: u16, items: &str) -> Option<Vec<u8>> {
    let mut v = Vec::new();
    if items == "-" {
        return Some(v);
    }
    for (i, it) in items.split(',').enumerate() {
        if fmt == 1 {
            v.extend_from_slice(&it.parse::<u16>().ok()?.to_be_bytes());
        } else {
            let (a, b) = it.split_once('-')?;
            v.extend_from_slice(&a.parse::<u16>().ok()?.to_be_bytes());
            v.extend_from_slice(&b.parse::<u16>().ok()?.to_be_bytes());
            v.extend_from_slice(&(i as u16).to_be_bytes());
        }
    }
    Some(v)
}

pub const CMDS: &[&str] = &["digest"];

pub fn handle(toks: &[&str], _st: &mut crate::State) -> Option<String> {
    let toks = &toks[1..];
    match *toks.first()? {
        "collect" => {
            let v = u64s(&toks[1..4])?;
            let fmt: u16 = toks.get(4)?.parse().ok()?;
            let payload = cov_payload(fmt, toks.get(5)?)?;
            let m = lc::coverage_collect(fmt, &payload, [v[0], v[1], v[2]])?;
            Some(format!("{} {} {}", m[0], m[1], m[2]))
        }
        "covget" => {
            let fmt: u16 = toks.get(1)?.parse().ok()?;
            let payload = cov_payload(fmt, toks.get(2)?)?;
            let g: u16 = toks.get(3)?.parse().ok()?;
            Some(match lc::coverage_get(fmt, &payload, g)? {
                Some(i) => format!("{}", i),
                None => "-".into(),
            })
        }
        "lookupdigest" => {
            let data: &'static [u8] = _st.fonts.get(*toks.get(1)?)?;
            let face = rustybuzz::Face::from_slice(data, 0)?;
            let gpos = match *toks.get(2)? {
                "gsub" => false,
                "gpos" => true,
                _ => return None,
            };
            let li: usize = toks.get(3)?.parse().ok()?;
            let ds = lc::lookup_digests(&face, gpos);
            let m = ds.get(li)?;
            Some(format!("{} {} {}", m[0], m[1], m[2]))
        }
        "lookups" => {
            let data: &'static [u8] = _st.fonts.get(*toks.get(1)?)?;
            let face = rustybuzz::Face::from_slice(data, 0)?;
            let gpos = match *toks.get(2)? {
                "gsub" => false,
                "gpos" => true,
                _ => return None,
            };
            let ng: u16 = toks.get(3)?.parse().ok()?;
            let ds = lc::lookup_digests(&face, gpos);
            let cs = lc::lookup_covered(&face, gpos, ng);
            let mut out = format!("ok {}", ds.len());
            for (m, c) in ds.iter().zip(cs.iter()) {
                let gl: Vec<String> = c.iter().map(|g| g.to_string()).collect();
                out.push_str(&format!(
                    " {}:{}:{}:{}",
                    m[0],
                    m[1],
                    m[2],
                    if gl.is_empty() { "-".into() } else { gl.join(",") }
                ));
            }
            Some(out)
        }
        "add" => {
            let v = u64s(&toks[1..])?;
            Some(format!("{}", d::pattern_add(v[0] as u8, v[1], v[2] as u16)))
        }
        "range" => {
            let v = u64s(&toks[1..])?;
            let (m, r) = d::pattern_add_range(v[0] as u8, v[1], v[2] as u16, v[3] as u16);
            Some(format!("{} {}", m, r as u8))
        }
        "has" => {
            let v = u64s(&toks[1..])?;
            Some(format!(
                "{}",
                d::pattern_may_have_glyph(v[0] as u8, v[1], v[2] as u16) as u8
            ))
        }
        "full" => {
            let v = u64s(&toks[1..4])?;
            let mut dg = d::Digest::from_masks([v[0], v[1], v[2]]);
            let mut rets = String::new();
            for op in &toks[4..] {
                let (k, rest) = op.split_at(1);
                match k {
                    "a" => dg.add(rest.parse().ok()?),
                    "r" => {
                        let (a, b) = rest.split_once('-')?;
                        let r = dg.add_range(a.parse().ok()?, b.parse().ok()?);
                        rets.push(if r { '1' } else { '0' });
                    }
                    "A" => {
                        let gs: Option<Vec<u16>> = if rest.is_empty() {
                            Some(vec![])
                        } else {
                            rest.split(',').map(|x| x.parse().ok()).collect()
                        };
                        dg.add_array(&gs?);
                    }
                    _ => return None,
                }
            }
            let m = dg.masks();
            Some(format!("{} {} {} r{}", m[0], m[1], m[2], rets))
        }
        "mayhave" => {
            let v = u64s(&toks[1..])?;
            let a = d::Digest::from_masks([v[0], v[1], v[2]]);
            let b = d::Digest::from_masks([v[3], v[4], v[5]]);
            Some(format!("{}", a.may_have(&b) as u8))
        }
        "hasglyph" => {
            let v = u64s(&toks[1..])?;
            let a = d::Digest::from_masks([v[0], v[1], v[2]]);
            Some(format!("{}", a.may_have_glyph(v[3] as u16) as u8))
        }
        "shifts" => Some(format!("{} {} {}", d::SHIFTS[0], d::SHIFTS[1], d::SHIFTS[2])),
        _ => None,
    }
}
