//! Buffer primitives through `verif::buffer` (state injection + named primitive + full dump).
//!   buf L=<level> F=<flags> M=<max_len> O=<max_ops> h=<have_output> s=<sep_out> p=<have_pos> ok=<successful>
//!       i=<idx> n=<len> o=<out_len> sc=<scratch> se=<serial> I=<infos> U=<infos> ; <op> <args…> ; <op> …
//!   infos: `-` or g:m:c:v1:v2,…      op `outi g:m:c:v1:v2`; all other ops take decimal integers
//!   buft …  same request, reply lists the state after every primitive, separated by ` | `
//!   reply: ok r=<ret,ret,…> <state in the same key=value form>     |  panic …
use rustybuzz::verif::buffer as vb;

pub const CMDS: &[&str] = &["buf", "buft", "bufconst"];

fn parse_infos(s: &str) -> Option<Vec<vb::RawInfo>> {
    if s == "-" {
        return Some(vec![]);
    }
    s.split(',')
        .map(|x| {
            let p: Vec<u32> = x.split(':').map(|y| y.parse().ok()).collect::<Option<Vec<u32>>>()?;
            if p.len() != 5 {
                return None;
            }
            Some([p[0], p[1], p[2], p[3], p[4]])
        })
        .collect()
}

fn fmt_infos(v: &[vb::RawInfo]) -> String {
    if v.is_empty() {
        return "-".into();
    }
    v.iter()
        .map(|r| format!("{}:{}:{}:{}:{}", r[0], r[1], r[2], r[3], r[4]))
        .collect::<Vec<_>>()
        .join(",")
}

pub fn parse_state(toks: &[&str]) -> Option<vb::State> {
    let mut st = vb::State::default();
    for t in toks {
        let (k, v) = t.split_once('=')?;
        match k {
            "L" => st.cluster_level = v.parse().ok()?,
            "F" => st.flags = v.parse().ok()?,
            "M" => st.max_len = v.parse().ok()?,
            "O" => st.max_ops = v.parse().ok()?,
            "h" => st.have_output = v == "1",
            "s" => st.have_separate_output = v == "1",
            "p" => st.have_positions = v == "1",
            "ok" => st.successful = v == "1",
            "i" => st.idx = v.parse().ok()?,
            "n" => st.len = v.parse().ok()?,
            "o" => st.out_len = v.parse().ok()?,
            "sc" => st.scratch_flags = v.parse().ok()?,
            "se" => st.serial = v.parse().ok()?,
            "I" => st.info = parse_infos(v)?,
            "U" => st.out = parse_infos(v)?,
            _ => return None,
        }
    }
    Some(st)
}

pub fn fmt_state(st: &vb::State) -> String {
    format!(
        "L={} F={} M={} O={} h={} s={} p={} ok={} i={} n={} o={} sc={} se={} I={} U={}",
        st.cluster_level,
        st.flags,
        st.max_len,
        st.max_ops,
        st.have_output as u8,
        st.have_separate_output as u8,
        st.have_positions as u8,
        st.successful as u8,
        st.idx,
        st.len,
        st.out_len,
        st.scratch_flags,
        st.serial,
        fmt_infos(&st.info),
        fmt_infos(&st.out)
    )
}

pub fn handle(toks: &[&str], _st: &mut crate::State) -> Option<String> {
    if toks[0] == "bufconst" {
        let (c, t) = vb::produce_flags();
        return Some(format!("{} {}", c, t));
    }
    let mut parts = toks[1..].split(|t| *t == ";");
    let st = parse_state(parts.next()?)?;
    let trace = toks[0] == "buft";
    let mut b = vb::make(&st);
    let mut rets = vec![];
    let mut states = vec![];
    for op in parts {
        if op.is_empty() {
            continue;
        }
        let name = op[0];
        let (args, infos): (Vec<u64>, Vec<vb::RawInfo>) = if name == "outi" {
            (vec![], parse_infos(op.get(1)?)?)
        } else {
            (
                op[1..].iter().map(|x| x.parse::<u64>().ok()).collect::<Option<Vec<u64>>>()?,
                vec![],
            )
        };
        rets.push(vb::op(&mut b, name, &args, &infos)?.to_string());
        if trace {
            states.push(fmt_state(&vb::dump(&b)));
        }
    }
    if trace {
        // state after every primitive
        return Some(format!("ok r={} {}", rets.join(","), states.join(" | ")));
    }
    Some(format!("ok r={} {}", rets.join(","), fmt_state(&vb::dump(&b))))
}
