//! Buffer life cycle through the PUBLIC api (C05) and the totality driver (C01).
//!
//!   lcprop c <hexcp>            -> <script tag (decimal), 0 when the char has no strong script> <dir 1..4>
//!   lcprop s <4 ascii chars>    -> <canonical script tag (decimal)> <dir guessed for that script on an empty buffer>
//!       (both through UnicodeBuffer::new/add/set_script/guess_segment_properties/script/direction)
//!
//!   lc <fontpath[@index]|#<registered font id>|-> [T=<hexcp>:<tag>,…] [D=<tag>:<dir>,…] ; <op> ; <op> …
//!       one public-API history on one buffer; reply `ok <state> | <state> | …` (state after every op,
//!       read through the rb_verif hook verif::buffer::life_*).  T/D are ignored here (they are the
//!       Unicode-script data the Lean model takes as parameters).
//!       ops:  new | add <hexcp> <cluster> | push <hexcp,…> | pushn <hexcp> <count> | dir <1..4> |
//!             script <4 chars> | lang x<hex utf8> | flags <n> | level <0..2> | pre <hexcp,…|-> |
//!             post <hexcp,…|-> | nfvs <n> | guess | resetcl | clear |
//!             shape <feats> | plan <feats> | mkplan <feats> | useplan | dump
//!       feats: - | tag8hex:value:start:end[,…]
//!       state (unicode buffer, or glyph buffer after shaping an EMPTY buffer):
//!          k=U|G e=<empty path> L F M O h s p ok i n o sc se il pl D S G pre post sf nf inv I=<gid:cluster,…|#hash>
//!       state (glyph buffer after shaping a non-empty buffer; what the shaping body computes is left out):
//!          k=G e=0 L F M O se D S G pre post nf inv out=<n>#<hash of gid,cluster,flags,advances,offsets>
//!
//!   lcclear L=.. F=.. M=.. O=.. h=.. s=.. p=.. ok=.. i=.. n=.. o=.. sc=.. se=.. il=.. pl=.. D=.. S=.. G=.. pre=.. post=.. sf=.. nf=.. inv=.. I=..
//!       (the fields of a unicode-buffer state line, in any order)  a bare hb_buffer_t with EVERY field set as given
//!       (hook verif::buffer::clear_probe: il / pl = lengths of the info / pos Vecs, zero-padded beyond the n records
//!       of I), then `hb_buffer_t::clear()`; reply = the state line of the cleared buffer (every field read back)
//!       followed by ` cx=<5 raw pre-context slots>/<5 raw post-context slots>` (hex)
//!
//!   lcrand <fontpath[@index]> <n> -> <initial random_state> <first n values of random_number()>
//!   lcrand <fontpath[@index]> <n> <text> [<text> …] -> the same for an apply context created on a public buffer that
//!       shaped the texts before (recycled with clear() after each; text = hexcp[*count],… , prefix `p:` = with a plan)
//!
//!   shapemt <fontid> <threads> <iters> <mode shape|plan> <dir> <script> <lang> <flags> <level> <feats> <text> <text> …
//!       (dir and script explicit; text = hexcp[*count],… )  sequential run first, then `threads` threads
//!       sharing &Face (and &ShapePlan in plan mode) started by a barrier, each with one recycled buffer;
//!       reply `ok threads=<t> shapes=<k> mismatches=<m> nonempty=<n> hash=<h> [first=<thread>:<text index>]`
//!
//!   mfont <id> <path> <index> [t<len>] [w<off>:<hex>] …   register a byte-mutated copy of a font file
//!       -> ok | reject     (Face::from_slice answer)
//!   c01 <fontid | @path@index[@t<len>|@w<off>:<hex>]…> <dir> <script> <lang> <flags> <level> <feats> <pre> <post> <text> [k=v …]
//!       same fields as `shape` (ops/shape.rs) but text = hexcp[*count],… (clusters = running index) and
//!       k=v additionally: ser=<0|1> (serialize with glyph names / extents / flags / no-advances too),
//!       cl=<u32>[*count],… (explicit input clusters of the first characters, decimal; the rest keep the running index)
//!       -> ok in=<n> out=<m> ms=<wall> cpu=<cpu time of the request, ms> h=<hash> | reject
use super::shape as sh;
use super::util::hex_bytes;
use crate::State;
use rustybuzz::ttf_parser::Tag;
use rustybuzz::verif::buffer as vb;
use rustybuzz::{
    BufferClusterLevel, BufferFlags, Direction, Face, Feature, GlyphBuffer, Language, Script,
    SerializeFlags, ShapePlan, UnicodeBuffer,
};
use std::str::FromStr;

pub const CMDS: &[&str] = &["lc", "lcclear", "lcprop", "lcrand", "shapemt", "mfont", "c01"];

const FNV_OFF: u64 = 0xcbf29ce484222325;
const FNV_PRIME: u64 = 0x100000001b3;

fn fnv(h: u64, v: u64) -> u64 {
    (h ^ v).wrapping_mul(FNV_PRIME)
}

fn dir_code(d: Direction) -> u8 {
    match d {
        Direction::Invalid => 0,
        Direction::LeftToRight => 1,
        Direction::RightToLeft => 2,
        Direction::TopToBottom => 3,
        Direction::BottomToTop => 4,
    }
}

fn dir_of(c: &str) -> Option<Direction> {
    Some(match c {
        "1" | "l" => Direction::LeftToRight,
        "2" | "r" => Direction::RightToLeft,
        "3" | "t" => Direction::TopToBottom,
        "4" | "b" => Direction::BottomToTop,
        _ => return None,
    })
}

fn script_of(s: &str) -> Option<Script> {
    let b = s.as_bytes();
    if b.len() != 4 {
        return None;
    }
    Script::from_iso15924_tag(Tag::from_bytes(&[b[0], b[1], b[2], b[3]]))
}

fn cps(s: &str) -> Option<String> {
    if s == "-" {
        return Some(String::new());
    }
    s.split(',')
        .map(|x| u32::from_str_radix(x, 16).ok().and_then(char::from_u32))
        .collect()
}

/// text = hexcp[*count],…
fn rle_text(s: &str) -> Option<Vec<char>> {
    let mut v = vec![];
    if s == "-" {
        return Some(v);
    }
    for item in s.split(',') {
        let (c, n) = match item.split_once('*') {
            Some((c, n)) => (c, n.parse::<usize>().ok()?),
            None => (item, 1),
        };
        let ch = char::from_u32(u32::from_str_radix(c, 16).ok()?)?;
        for _ in 0..n {
            v.push(ch);
        }
    }
    Some(v)
}

/// clusters = u32[*count],… (decimal)
fn rle_clusters(s: &str) -> Option<Vec<u32>> {
    let mut v = vec![];
    if s == "-" {
        return Some(v);
    }
    for item in s.split(',') {
        let (c, n) = match item.split_once('*') {
            Some((c, n)) => (c, n.parse::<usize>().ok()?),
            None => (item, 1),
        };
        let c: u32 = c.parse().ok()?;
        for _ in 0..n {
            v.push(c);
        }
    }
    Some(v)
}

fn feats_of(s: &str) -> Option<Vec<Feature>> {
    let mut feats = vec![];
    if s != "-" {
        for f in s.split(',') {
            let p: Vec<&str> = f.split(':').collect();
            if p.len() != 4 {
                return None;
            }
            feats.push(Feature {
                tag: Tag(u32::from_str_radix(p[0], 16).ok()?),
                value: p[1].parse().ok()?,
                start: p[2].parse().ok()?,
                end: p[3].parse().ok()?,
            });
        }
    }
    Some(feats)
}

fn load_font(st: &mut State, spec: &str) -> Option<Face<'static>> {
    // `#<id>`: a font registered in this process with `font <id> <hex>` / `fontfile <id> <path>`
    if let Some(id) = spec.strip_prefix('#') {
        let data: &'static [u8] = st.fonts.get(id)?;
        let idx = *st.font_index.get(id).unwrap_or(&0);
        return Face::from_slice(data, idx);
    }
    let (path, idx) = match spec.rsplit_once('@') {
        Some((p, i)) => (p, i.parse::<u32>().ok()?),
        None => (spec, 0),
    };
    let key = format!("lc:{}", path);
    if !st.fonts.contains_key(&key) {
        let data = std::fs::read(path).ok()?;
        let data: &'static [u8] = Box::leak(data.into_boxed_slice());
        st.fonts.insert(key.clone(), data);
    }
    let data: &'static [u8] = st.fonts.get(&key)?;
    Face::from_slice(data, idx)
}

fn opt_u32(v: Option<u32>) -> String {
    match v {
        Some(x) => x.to_string(),
        None => "-".into(),
    }
}

fn fmt_cps(v: &[u32]) -> String {
    if v.is_empty() {
        return "-".into();
    }
    v.iter().map(|c| format!("{:x}", c)).collect::<Vec<_>>().join(",")
}

fn fmt_life(l: &vb::Life, kind: char, empty_path: bool) -> String {
    let st = &l.st;
    let lang = match &l.language {
        Some(s) => format!("x{}", s.bytes().map(|b| format!("{:02x}", b)).collect::<String>()),
        None => "-".into(),
    };
    if kind == 'G' && !empty_path {
        return format!(
            "k=G e=0 L={} F={} M={} O={} se={} D={} S={} G={} pre={} post={} nf={} inv={}",
            st.cluster_level,
            st.flags,
            st.max_len,
            st.max_ops,
            st.serial,
            l.direction,
            opt_u32(l.script),
            lang,
            fmt_cps(&l.context[0]),
            fmt_cps(&l.context[1]),
            opt_u32(l.not_found_variation_selector),
            opt_u32(l.invisible)
        );
    }
    let content = if st.len > st.info.len() {
        "!len>vec".to_string()
    } else if st.len <= 32 {
        if st.len == 0 {
            "-".into()
        } else {
            st.info[..st.len].iter().map(|r| format!("{}:{}", r[0], r[2])).collect::<Vec<_>>().join(",")
        }
    } else {
        let mut h = FNV_OFF;
        for r in &st.info[..st.len] {
            h = fnv(h, r[0] as u64);
            h = fnv(h, r[2] as u64);
        }
        format!("#{}", h)
    };
    format!(
        "k={} e={} L={} F={} M={} O={} h={} s={} p={} ok={} i={} n={} o={} sc={} se={} il={} pl={} D={} S={} G={} pre={} post={} sf={} nf={} inv={} I={}",
        kind,
        empty_path as u8,
        st.cluster_level,
        st.flags,
        st.max_len,
        st.max_ops,
        st.have_output as u8,
        st.have_separate_output as u8,
        st.have_positions as u8,
        st.successful as u8,
        st.idx,
        st.len,
        st.out_len,
        st.scratch_flags,
        st.serial,
        st.info.len(),
        st.out.len(),
        l.direction,
        opt_u32(l.script),
        lang,
        fmt_cps(&l.context[0]),
        fmt_cps(&l.context[1]),
        l.shaping_failed as u8,
        opt_u32(l.not_found_variation_selector),
        opt_u32(l.invisible),
        content
    )
}

fn out_hash(gb: &GlyphBuffer, face: &Face) -> u64 {
    let fl = sh::public_flags(gb, face);
    let mut h = FNV_OFF;
    for (i, (info, pos)) in gb.glyph_infos().iter().zip(gb.glyph_positions()).enumerate() {
        h = fnv(h, info.glyph_id as u64);
        h = fnv(h, info.cluster as u64);
        h = fnv(h, fl.get(i).copied().unwrap_or(0xFFFF_FFFF) as u64);
        h = fnv(h, pos.x_advance as u32 as u64);
        h = fnv(h, pos.y_advance as u32 as u64);
        h = fnv(h, pos.x_offset as u32 as u64);
        h = fnv(h, pos.y_offset as u32 as u64);
    }
    h
}

enum B {
    U(UnicodeBuffer),
    G(GlyphBuffer, bool),
}

fn lc(toks: &[&str], st: &mut State) -> Option<String> {
    let mut parts = toks[1..].split(|t| *t == ";");
    let head = parts.next()?;
    let face = match *head.first()? {
        "-" => None,
        spec => Some(load_font(st, spec)?),
    };
    let mut b = B::U(UnicodeBuffer::new());
    let mut plan: Option<ShapePlan> = None;
    let mut states: Vec<String> = vec![];
    for op in parts {
        if op.is_empty() {
            continue;
        }
        let arg = |i: usize| op.get(i).copied();
        let mut extra = String::new();
        match op[0] {
            "new" => b = B::U(UnicodeBuffer::new()),
            "clear" => {
                b = match b {
                    B::U(mut u) => {
                        u.clear();
                        B::U(u)
                    }
                    B::G(g, _) => B::U(g.clear()),
                }
            }
            "dump" => {
                if let (B::G(g, _), Some(face)) = (&b, &face) {
                    extra = format!(" dump={}", sh::dump(g, face).replace(' ', "_"));
                } else {
                    return None;
                }
            }
            "shape" | "plan" | "useplan" => {
                let face = face.as_ref()?;
                let u = match b {
                    B::U(u) => u,
                    B::G(..) => return None,
                };
                let empty = u.len() == 0;
                let g = match op[0] {
                    "shape" => rustybuzz::shape(face, &feats_of(arg(1)?)?, u),
                    "plan" => {
                        let mut u = u;
                        u.guess_segment_properties();
                        let p = ShapePlan::new(
                            face,
                            u.direction(),
                            Some(u.script()),
                            u.language().as_ref(),
                            &feats_of(arg(1)?)?,
                        );
                        rustybuzz::shape_with_plan(face, &p, u)
                    }
                    _ => rustybuzz::shape_with_plan(face, plan.as_ref()?, u),
                };
                extra = format!(" out={}#{}", g.len(), out_hash(&g, face));
                b = B::G(g, empty);
            }
            name => {
                let u = match &mut b {
                    B::U(u) => u,
                    B::G(..) => return None,
                };
                match name {
                    "add" => u.add(
                        char::from_u32(u32::from_str_radix(arg(1)?, 16).ok()?)?,
                        arg(2)?.parse().ok()?,
                    ),
                    "push" => u.push_str(&cps(arg(1)?)?),
                    "pushn" => {
                        let c = char::from_u32(u32::from_str_radix(arg(1)?, 16).ok()?)?;
                        let n: usize = arg(2)?.parse().ok()?;
                        let s: String = std::iter::repeat(c).take(n).collect();
                        u.push_str(&s)
                    }
                    "dir" => u.set_direction(dir_of(arg(1)?)?),
                    "script" => u.set_script(script_of(arg(1)?)?),
                    "lang" => {
                        let s = String::from_utf8(hex_bytes(arg(1)?.strip_prefix('x')?)?).ok()?;
                        u.set_language(Language::from_str(&s).ok()?)
                    }
                    "flags" => u.set_flags(BufferFlags::from_bits_retain(arg(1)?.parse().ok()?)),
                    "level" => u.set_cluster_level(match arg(1)? {
                        "0" => BufferClusterLevel::MonotoneGraphemes,
                        "1" => BufferClusterLevel::MonotoneCharacters,
                        "2" => BufferClusterLevel::Characters,
                        _ => return None,
                    }),
                    "pre" => u.set_pre_context(&cps(arg(1)?)?),
                    "post" => u.set_post_context(&cps(arg(1)?)?),
                    "nfvs" => u.set_not_found_variation_selector_glyph(arg(1)?.parse().ok()?),
                    "guess" => u.guess_segment_properties(),
                    "resetcl" => u.reset_clusters(),
                    "mkplan" => {
                        let face = face.as_ref()?;
                        u.guess_segment_properties();
                        plan = Some(ShapePlan::new(
                            face,
                            u.direction(),
                            Some(u.script()),
                            u.language().as_ref(),
                            &feats_of(arg(1)?)?,
                        ));
                    }
                    _ => return None,
                }
            }
        }
        let s = match &b {
            B::U(u) => fmt_life(&vb::life_unicode(u), 'U', false),
            B::G(g, e) => fmt_life(&vb::life_glyph(g), 'G', *e),
        };
        states.push(s + &extra);
    }
    Some(format!("ok {}", states.join(" | ")))
}

fn lcclear(toks: &[&str]) -> Option<String> {
    let get = |k: &str| -> Option<&str> {
        toks[1..].iter().find_map(|t| t.split_once('=').filter(|(a, _)| *a == k).map(|(_, v)| v))
    };
    let num = |k: &str| -> Option<u64> { get(k)?.parse().ok() };
    let opt = |k: &str| -> Option<Option<u32>> {
        match get(k)? {
            "-" => Some(None),
            v => Some(Some(v.parse().ok()?)),
        }
    };
    let hexs = |k: &str| -> Option<Vec<u32>> {
        match get(k)? {
            "-" => Some(vec![]),
            v => v.split(',').map(|x| u32::from_str_radix(x, 16).ok()).collect(),
        }
    };
    let n = num("n")? as usize;
    let mut info: Vec<vb::RawInfo> = vec![];
    if get("I")? != "-" {
        for e in get("I")?.split(',') {
            let (g, c) = e.split_once(':')?;
            info.push([g.parse().ok()?, 0, c.parse().ok()?, 0, 0]);
        }
    }
    if info.len() != n {
        return None;
    }
    let il = num("il")? as usize;
    let pl = num("pl")? as usize;
    if il < n || il > 100_000 || pl > 100_000 {
        return None;
    }
    info.resize(il, [0; 5]);
    let st = vb::State {
        info,
        out: vec![[0; 5]; pl],
        idx: num("i")? as usize,
        len: n,
        out_len: num("o")? as usize,
        have_output: num("h")? != 0,
        have_separate_output: num("s")? != 0,
        have_positions: num("p")? != 0,
        successful: num("ok")? != 0,
        cluster_level: num("L")? as u32,
        flags: num("F")? as u32,
        scratch_flags: num("sc")? as u32,
        max_len: num("M")? as usize,
        max_ops: get("O")?.parse().ok()?,
        serial: num("se")? as u8,
    };
    let language = match get("G")? {
        "-" => None,
        v => Some(String::from_utf8(hex_bytes(v.strip_prefix('x')?)?).ok()?),
    };
    let l = vb::Life {
        st,
        direction: num("D")? as u8,
        script: opt("S")?,
        language,
        context: [hexs("pre")?, hexs("post")?],
        shaping_failed: num("sf")? != 0,
        invisible: opt("inv")?,
        not_found_variation_selector: opt("nf")?,
    };
    let (after, raw) = vb::clear_probe(&l);
    let cx = |side: usize| raw[side].iter().map(|c| format!("{:x}", c)).collect::<Vec<_>>().join(",");
    Some(format!("{} cx={}/{}", fmt_life(&after, 'U', false), cx(0), cx(1)))
}

fn lcprop(toks: &[&str]) -> Option<String> {
    let mut u = UnicodeBuffer::new();
    match *toks.get(1)? {
        "c" => {
            let c = char::from_u32(u32::from_str_radix(toks.get(2)?, 16).ok()?)?;
            u.add(c, 0);
            u.guess_segment_properties();
            let tag = u.script().tag().0;
            let unknown = Tag::from_bytes(b"Zzzz").0;
            Some(format!("{} {}", if tag == unknown { 0 } else { tag }, dir_code(u.direction())))
        }
        "s" => {
            u.set_script(script_of(toks.get(2)?)?);
            u.guess_segment_properties();
            Some(format!("{} {}", u.script().tag().0, dir_code(u.direction())))
        }
        _ => None,
    }
}

fn level_of(n: u8) -> BufferClusterLevel {
    match n {
        0 => BufferClusterLevel::MonotoneGraphemes,
        1 => BufferClusterLevel::MonotoneCharacters,
        _ => BufferClusterLevel::Characters,
    }
}

struct MtCfg {
    dir: Direction,
    script: Script,
    lang: Option<Language>,
    flags: u32,
    level: u8,
    feats: Vec<Feature>,
}

fn mt_fill(u: &mut UnicodeBuffer, c: &MtCfg, text: &[char]) {
    for (i, ch) in text.iter().enumerate() {
        u.add(*ch, i as u32);
    }
    u.set_direction(c.dir);
    u.set_script(c.script);
    if let Some(l) = &c.lang {
        u.set_language(l.clone());
    }
    u.set_flags(BufferFlags::from_bits_retain(c.flags));
    u.set_cluster_level(level_of(c.level));
}

fn mt_shape(face: &Face, plan: Option<&ShapePlan>, c: &MtCfg, u: UnicodeBuffer) -> GlyphBuffer {
    match plan {
        Some(p) => rustybuzz::shape_with_plan(face, p, u),
        None => rustybuzz::shape(face, &c.feats, u),
    }
}

fn shapemt(toks: &[&str], st: &mut State) -> Option<String> {
    if toks.len() < 12 {
        return None;
    }
    let data: &'static [u8] = st.fonts.get(toks[1])?;
    let idx = *st.font_index.get(toks[1]).unwrap_or(&0);
    let face = match Face::from_slice(data, idx) {
        Some(f) => f,
        None => return Some("reject".into()),
    };
    let threads: usize = toks[2].parse().ok()?;
    let iters: usize = toks[3].parse().ok()?;
    let use_plan = toks[4] == "plan";
    let cfg = MtCfg {
        dir: dir_of(toks[5])?,
        script: script_of(toks[6])?,
        lang: match toks[7] {
            "-" => None,
            s => Some(Language::from_str(&String::from_utf8(hex_bytes(s.strip_prefix('x')?)?).ok()?).ok()?),
        },
        flags: toks[8].parse().ok()?,
        level: toks[9].parse().ok()?,
        feats: feats_of(toks[10])?,
    };
    let texts: Vec<Vec<char>> = toks[11..].iter().map(|t| rle_text(t)).collect::<Option<Vec<_>>>()?;
    let plan = if use_plan {
        Some(ShapePlan::new(&face, cfg.dir, Some(cfg.script), cfg.lang.as_ref(), &cfg.feats))
    } else {
        None
    };
    // sequential reference, every text on a fresh buffer
    let mut reference: Vec<String> = vec![];
    let mut h = FNV_OFF;
    let mut nonempty = 0;
    for t in &texts {
        let mut u = UnicodeBuffer::new();
        mt_fill(&mut u, &cfg, t);
        let g = mt_shape(&face, plan.as_ref(), &cfg, u);
        if g.len() > 0 {
            nonempty += 1;
        }
        h = fnv(h, out_hash(&g, &face));
        reference.push(sh::dump(&g, &face));
    }
    let barrier = std::sync::Barrier::new(threads);
    let face_ref = &face;
    let plan_ref = plan.as_ref();
    let cfg_ref = &cfg;
    let texts_ref = &texts;
    let reference_ref = &reference;
    let barrier_ref = &barrier;
    let results: Vec<Result<(usize, Option<(usize, usize)>), ()>> = std::thread::scope(|s| {
        let hs: Vec<_> = (0..threads)
            .map(|t| {
                s.spawn(move || {
                    let mut buf = UnicodeBuffer::new();
                    let mut bad = 0usize;
                    let mut first = None;
                    barrier_ref.wait();
                    for it in 0..iters {
                        for k in 0..texts_ref.len() {
                            let i = (k + t + it) % texts_ref.len();
                            mt_fill(&mut buf, cfg_ref, &texts_ref[i]);
                            let g = mt_shape(face_ref, plan_ref, cfg_ref, buf);
                            if sh::dump(&g, face_ref) != reference_ref[i] {
                                bad += 1;
                                if first.is_none() {
                                    first = Some((t, i));
                                }
                            }
                            buf = g.clear();
                        }
                    }
                    (bad, first)
                })
            })
            .collect();
        hs.into_iter().map(|h| h.join().map_err(|_| ())).collect()
    });
    let mut mism = 0;
    let mut first = None;
    let mut panicked = 0;
    for r in results {
        match r {
            Ok((b, f)) => {
                mism += b;
                if first.is_none() {
                    first = f;
                }
            }
            Err(()) => panicked += 1,
        }
    }
    let mut s = format!(
        "ok threads={} shapes={} mismatches={} panicked={} nonempty={} hash={}",
        threads,
        threads * iters * texts.len(),
        mism,
        panicked,
        nonempty,
        h
    );
    if let Some((t, i)) = first {
        s.push_str(&format!(" first={}:{}", t, i));
    }
    Some(s)
}

fn mfont(toks: &[&str], st: &mut State) -> Option<String> {
    let id = *toks.get(1)?;
    let mut data = std::fs::read(toks.get(2)?).ok()?;
    let idx: u32 = toks.get(3)?.parse().ok()?;
    for m in &toks[4..] {
        if *m == "!flush" {
            continue;
        }
        let (k, rest) = m.split_at(1);
        match k {
            "t" => {
                let n: usize = rest.parse().ok()?;
                data.truncate(n);
            }
            "w" => {
                let (off, hex) = rest.split_once(':')?;
                let off: usize = off.parse().ok()?;
                let bytes = hex_bytes(hex)?;
                for (i, b) in bytes.iter().enumerate() {
                    if off + i < data.len() {
                        data[off + i] = *b;
                    }
                }
            }
            _ => return None,
        }
    }
    // replacing an id leaks the old bytes on purpose (faces borrow 'static data)
    let data: &'static [u8] = Box::leak(data.into_boxed_slice());
    let ok = Face::from_slice(data, idx).is_some();
    st.fonts.insert(id.to_string(), data);
    st.font_index.insert(id.to_string(), idx);
    Some(if ok { "ok".into() } else { "reject".into() })
}

/// `@<path>@<index>[@t<len>|@w<off>:<hex>]…` — a self-contained (possibly byte-mutated) font of one request
fn spec_font(st: &mut State, spec: &str) -> Option<(Vec<u8>, u32)> {
    let mut it = spec.split('@');
    it.next()?;
    let path = it.next()?;
    let idx: u32 = it.next()?.parse().ok()?;
    let key = format!("lc:{}", path);
    if !st.fonts.contains_key(&key) {
        let data = std::fs::read(path).ok()?;
        let data: &'static [u8] = Box::leak(data.into_boxed_slice());
        st.fonts.insert(key.clone(), data);
    }
    let mut data: Vec<u8> = st.fonts.get(&key)?.to_vec();
    for m in it {
        let (k, rest) = m.split_at(1);
        match k {
            "t" => data.truncate(rest.parse().ok()?),
            "w" => {
                let (off, hex) = rest.split_once(':')?;
                let off: usize = off.parse().ok()?;
                for (i, b) in hex_bytes(hex)?.iter().enumerate() {
                    if off + i < data.len() {
                        data[off + i] = *b;
                    }
                }
            }
            _ => return None,
        }
    }
    Some((data, idx))
}

/// CPU time of this process in ms (utime + stime of /proc/self/stat, 100 Hz ticks): the time monitor must not
/// depend on how loaded the machine is.
fn cpu_ms() -> u64 {
    let s = std::fs::read_to_string("/proc/self/stat").unwrap_or_default();
    let rest = match s.rfind(')') {
        Some(i) => &s[i + 1..],
        None => return 0,
    };
    let f: Vec<&str> = rest.split_whitespace().collect();
    // after the command name: state is field 0, utime is field 11, stime field 12
    let u: u64 = f.get(11).and_then(|x| x.parse().ok()).unwrap_or(0);
    let k: u64 = f.get(12).and_then(|x| x.parse().ok()).unwrap_or(0);
    (u + k) * 10
}

fn c01_run(face: &Face, r: &sh::Req, ser: bool, t0: std::time::Instant) -> String {
    let c0 = cpu_ms();
    let n_in = r.text.len();
    let mut buf = UnicodeBuffer::new();
    let mut h = FNV_OFF;
    let mut n_out = 0;
    for _ in 0..=r.rep {
        sh::fill(&mut buf, r);
        let gb = if r.mode_plan {
            buf.guess_segment_properties();
            let plan = ShapePlan::new(face, buf.direction(), Some(buf.script()), buf.language().as_ref(), &r.feats);
            rustybuzz::shape_with_plan(face, &plan, buf)
        } else {
            rustybuzz::shape(face, &r.feats, buf)
        };
        n_out = gb.len();
        h = fnv(h, out_hash(&gb, face));
        if ser {
            for fl in [
                SerializeFlags::empty(),
                SerializeFlags::GLYPH_EXTENTS | SerializeFlags::GLYPH_FLAGS,
                SerializeFlags::NO_ADVANCES | SerializeFlags::NO_GLYPH_NAMES,
                SerializeFlags::NO_CLUSTERS | SerializeFlags::NO_POSITIONS,
            ] {
                let s = gb.serialize(face, fl);
                h = fnv(h, s.len() as u64);
            }
        }
        buf = gb.clear();
    }
    format!(
        "ok in={} out={} ms={} cpu={} h={}",
        n_in,
        n_out,
        t0.elapsed().as_millis(),
        cpu_ms().saturating_sub(c0),
        h
    )
}

fn c01(toks: &[&str], st: &mut State) -> Option<String> {
    if toks.len() < 11 {
        return None;
    }
    // reuse the parser of `shape` for everything but the text and our own keys
    let mut t2: Vec<&str> = toks[1..].to_vec();
    let text = rle_text(t2[9])?;
    t2[9] = "-";
    let mut ser = false;
    let mut cl: Option<&str> = None;
    t2.retain(|t| {
        if *t == "ser=1" {
            ser = true;
            false
        } else if let Some(v) = t.strip_prefix("cl=") {
            cl = Some(v);
            false
        } else {
            *t != "ser=0"
        }
    });
    let cl = match cl {
        Some(v) => rle_clusters(v)?,
        None => vec![],
    };
    let mut r = sh::parse_req(&t2)?;
    r.text = text
        .iter()
        .enumerate()
        .map(|(i, c)| (*c, cl.get(i).copied().unwrap_or(i as u32)))
        .collect();
    let t0 = std::time::Instant::now();
    if r.font.starts_with('@') {
        let (data, idx) = spec_font(st, r.font)?;
        let mut face = match Face::from_slice(&data, idx) {
            Some(f) => f,
            None => return Some("reject".into()),
        };
        if let Some(p) = r.ppem {
            face.set_pixels_per_em(Some((p, p)));
        }
        if let Some(p) = r.ptem {
            face.set_points_per_em(Some(p));
        }
        if !r.vars.is_empty() {
            face.set_variations(&r.vars);
        }
        return Some(c01_run(&face, &r, ser, t0));
    }
    let face = match sh::make_face(st, &r) {
        Some(f) => f,
        None => return Some("reject".into()),
    };
    Some(c01_run(&face, &r, ser, t0))
}

pub fn handle(toks: &[&str], st: &mut State) -> Option<String> {
    match toks[0] {
        "lc" => lc(toks, st),
        "lcclear" => lcclear(toks),
        "lcprop" => lcprop(toks),
        "lcrand" => {
            // lcrand <fontpath[@index]> <n> -> initial random_state and the first n random numbers of a fresh
            // GSUB apply context (hook verif::gsubgpos::random_sequence)
            // lcrand <font> <n> <text> [<text> …]  (text = hexcp[*count],… ; prefix `p:` = shape_with_plan) -> the same for
            // an apply context created on ONE public buffer that has shaped the texts before, recycled with
            // GlyphBuffer::clear() after each (hook verif::gsubgpos::random_sequence_on)
            let face = load_font(st, toks.get(1)?)?;
            let n: usize = toks.get(2)?.parse().ok()?;
            let v = if toks.len() > 3 {
                let mut u = UnicodeBuffer::new();
                for t in &toks[3..] {
                    let (with_plan, text) = match t.strip_prefix("p:") {
                        Some(x) => (true, x),
                        None => (false, *t),
                    };
                    for (i, ch) in rle_text(text)?.iter().enumerate() {
                        u.add(*ch, i as u32);
                    }
                    let g = if with_plan {
                        u.guess_segment_properties();
                        let plan = ShapePlan::new(&face, u.direction(), Some(u.script()), u.language().as_ref(), &[]);
                        rustybuzz::shape_with_plan(&face, &plan, u)
                    } else {
                        rustybuzz::shape(&face, &[], u)
                    };
                    u = g.clear();
                }
                rustybuzz::verif::gsubgpos::random_sequence_on(&face, &mut u, n)
            } else {
                rustybuzz::verif::gsubgpos::random_sequence(&face, n)
            };
            Some(v.iter().map(|x| x.to_string()).collect::<Vec<_>>().join(" "))
        }
        "shapemt" => shapemt(toks, st),
        "mfont" => mfont(toks, st),
        "c01" => c01(toks, st),
        _ => None,
    }
}
