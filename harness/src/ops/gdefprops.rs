//! GDEF glyph class -> glyph_props, through verif::face::glyph_props (what `_hb_ot_layout_set_glyph_props` writes
//! into every glyph before GSUB runs).
//!   gdefprops <font hex> <gid:class:attach,…>   -> ok <props,…>
//!       class / attach are what the recipe of the font assigned to the glyph (`-` = not in the ClassDef / no such
//!       table); they are for the Lean model only — the crate reads the font.
use super::util::hex_bytes;
use crate::State;
use rustybuzz::Face;

pub const CMDS: &[&str] = &["gdefprops"];

pub fn handle(toks: &[&str], _st: &mut State) -> Option<String> {
    let data = hex_bytes(toks.get(1)?)?;
    let face = match Face::from_slice(&data, 0) {
        Some(f) => f,
        None => return Some("reject".into()),
    };
    let mut out = vec![];
    for item in toks.get(2)?.split(',') {
        let gid: u16 = item.split(':').next()?.parse().ok()?;
        out.push(rustybuzz::verif::face::glyph_props(&face, gid).to_string());
    }
    Some(format!("ok {}", out.join(",")))
}
