//! Cluster pipeline pieces of ot_shape.rs / ot_layout.rs on a bare buffer, mixed with the buffer primitives.
//!   clu  <state as in `buf`> ; <op> <args…> ; …      reply: ok r=<ret,…> <final state>
//!   clut <state> ; <op> … ; …                         reply: ok r=<ret,…> <state after every op, ` | `-separated>
//! ops of this module (every other op name is forwarded to `verif::buffer::op`, see ops/buffer.rs):
//!   formcl                      form_clusters (ot_shape.rs)
//!   revgr                       _hb_ot_layout_reverse_graphemes (ot_layout.rs)
//!   native <dir> <script> <hor> ensure_native_direction with buffer.direction = dir (0 invalid 1 ltr 2 rtl 3 ttb 4 btt)
//!                               and buffer.script = the 4-letter tag (`-` = none); `hor` is what the *model* is told
//!                               Direction::from_script gives — the crate computes it itself and reports it;
//!                               ret = 10*from_script + direction afterwards
//!   finalrev <dir>              the last step of position(): reverse when the direction is backward
use super::buffer::{fmt_state, parse_state};
use rustybuzz::verif::buffer as vb;
use rustybuzz::verif::layout as vl;
use rustybuzz::verif::ot_shape as vs;

pub const CMDS: &[&str] = &["clu", "clut"];

fn script_of(s: &str) -> Option<Option<[u8; 4]>> {
    if s == "-" {
        return Some(None);
    }
    let b = s.as_bytes();
    if b.len() != 4 {
        return None;
    }
    Some(Some([b[0], b[1], b[2], b[3]]))
}

pub fn handle(toks: &[&str], _st: &mut crate::State) -> Option<String> {
    let mut parts = toks[1..].split(|t| *t == ";");
    let st = parse_state(parts.next()?)?;
    let trace = toks[0] == "clut";
    let mut b = vb::make(&st);
    let mut rets = vec![];
    let mut states = vec![];
    for op in parts {
        if op.is_empty() {
            continue;
        }
        let name = op[0];
        let ret: u64 = match name {
            "formcl" => {
                vs::form_clusters(&mut b);
                1
            }
            "revgr" => {
                vl::reverse_graphemes(&mut b);
                1
            }
            "native" => {
                let dir: u32 = op.get(1)?.parse().ok()?;
                let sc = script_of(op.get(2)?)?;
                let hor = vs::script_horizontal_direction_tag(sc);
                let d = vs::ensure_native_direction(&mut b, dir, sc);
                (10 * hor + d) as u64
            }
            "finalrev" => {
                let dir: u32 = op.get(1)?.parse().ok()?;
                vs::final_reverse(&mut b, dir);
                1
            }
            "outi" => {
                let x: Vec<u32> = op.get(1)?.split(':').map(|y| y.parse().ok()).collect::<Option<Vec<u32>>>()?;
                if x.len() != 5 {
                    return None;
                }
                vb::op(&mut b, name, &[], &[[x[0], x[1], x[2], x[3], x[4]]])?
            }
            _ => {
                let args = op[1..].iter().map(|x| x.parse::<u64>().ok()).collect::<Option<Vec<u64>>>()?;
                vb::op(&mut b, name, &args, &[])?
            }
        };
        rets.push(ret.to_string());
        if trace {
            states.push(fmt_state(&vb::dump(&b)));
        }
    }
    if trace {
        return Some(format!("ok r={} {}", rets.join(","), states.join(" | ")));
    }
    Some(format!("ok r={} {}", rets.join(","), fmt_state(&vb::dump(&b))))
}
