//! C11 — Arabic joining through the hooks `rustybuzz::verif::arabic` (real `arabic_joining`,
//! `get_joining_type`, `setup_masks_inner`, `mongolian_variation_selectors`, `STATE_TABLE`).
//!   arabic table                      -> <rows> <cols> then rows*cols triples  prev:this:next
//!   arabic consts                     -> actions a0..a7 | jtypes j0..j7 | feats isol fina ...
//!   arabic ranges                     -> s-e:raw ...   (maximal runs of equal raw table entry != X, all chars)
//!   arabic fvs                        -> code points whose action is overwritten by the Mongolian FVS copy
//!   arabic tgcs                       -> general categories (0..=29) that resolve an X table entry to T
//!   arabic jt <cp>...                 -> raw:resolved:gc per code point
//!   arabic script <cp>...             -> iso:own per code point (decimal big-endian ISO 15924 tags): the Unicode Script
//!                                        property by name from the unicode-script crate, and the crate's own char -> Script
//!                                        mapping (what guess_segment_properties uses; Zzzz = unknown)
//!   arabic resolve <cp> <gc>          -> get_joining_type(cp, gc)
//!   arabic ctx <cp>* / <cp>*          -> stored pre context / stored post context (array order)
//!   arabic join <cp:gc>* / <cp:gc>* / <cp:gc>*       (pre / text / post, logical order)
//!                                     -> actions of the text items  | bad-gc when a gc is not the crate's
//!   arabic joinraw <prelen> <postlen> <cp:gc>* / <cp:gc>* / <cp:gc>*
//!                                     raw pre-context SLOTS (array order, nearest first; missing slots NUL) / text / raw
//!                                     post-context slots, with the context LENGTHS given separately: what is behind
//!                                     the length is what earlier context calls left there   -> actions of the text items
//!   arabic ctxseq <call>*             call = p:<cp,..> set_pre_context | q:<cp,..> set_post_context | a:<cp,..> add()
//!                                     of each character (text may be empty), all on ONE UnicodeBuffer without clear()
//!                                     -> <prelen> <postlen> / <raw pre slots> / <raw post slots>   (all slots)
//!   arabic masks <mong 0|1> m0..m7 / <cp:gc>* / <cp:gc:mask>* / <cp:gc>*   -> action:mask per item
//!   arabic mong <cp:action>*          -> actions after the Mongolian FVS copy
//!   arabic cls <8 cps, comma separated: representatives of U,L,R,D,C,T,A(laph),S(=Dalath/Rish)> <pre> <text> <post>
//!                                     pre/text/post are words over ULRDCTAS ("-" = empty): the joining pass on
//!                                     the representatives (the model answers with the *spec* on the classes)
//! All numbers decimal.
use crate::State;
use rustybuzz::verif::arabic as hk;

pub const CMDS: &[&str] = &["arabic"];

fn split3<'a>(toks: &'a [&'a str]) -> Option<(&'a [&'a str], &'a [&'a str], &'a [&'a str])> {
    let p: Vec<usize> = toks
        .iter()
        .enumerate()
        .filter(|(_, t)| **t == "/")
        .map(|(i, _)| i)
        .collect();
    if p.len() != 2 {
        return None;
    }
    Some((&toks[..p[0]], &toks[p[0] + 1..p[1]], &toks[p[1] + 1..]))
}

/// cp:gc tokens -> chars; None on syntax error; Some(Err) when a gc differs from the crate's.
fn chars_gc(toks: &[&str]) -> Option<Result<Vec<char>, ()>> {
    let mut v = vec![];
    let mut ok = true;
    for t in toks {
        let mut it = t.split(':');
        let cp: u32 = it.next()?.parse().ok()?;
        let gc: u8 = it.next()?.parse().ok()?;
        let c = char::from_u32(cp)?;
        if hk::joining_type_of(c).2 != gc {
            ok = false;
        }
        v.push(c);
    }
    Some(if ok { Ok(v) } else { Err(()) })
}

fn join_u8(v: &[u8]) -> String {
    v.iter().map(|x| x.to_string()).collect::<Vec<_>>().join(" ")
}

pub fn handle(toks: &[&str], _st: &mut State) -> Option<String> {
    match *toks.get(1)? {
        "table" => {
            let t = hk::state_table();
            let cols = t.first().map(|r| r.len()).unwrap_or(0);
            let mut s = format!("{} {}", t.len(), cols);
            for r in &t {
                for e in r {
                    s.push_str(&format!(" {}:{}:{}", e.0, e.1, e.2));
                }
            }
            Some(s)
        }
        "consts" => {
            let f: Vec<String> = hk::arabic_features()
                .iter()
                .map(|t| String::from_utf8_lossy(t).into_owned())
                .collect();
            Some(format!(
                "actions {} | jtypes {} | feats {}",
                join_u8(&hk::action_values()),
                join_u8(&hk::joining_type_values()),
                f.join(" ")
            ))
        }
        "ranges" => {
            let x = hk::joining_type_values()[7];
            let mut out: Vec<String> = vec![];
            let mut cur: Option<(u32, u32, u8)> = None;
            for cp in 0u32..=0x10FFFF {
                let raw = match char::from_u32(cp) {
                    Some(c) => hk::joining_type_of(c).0,
                    None => x,
                };
                match cur {
                    Some((s, _, r)) if r == raw => cur = Some((s, cp, r)),
                    _ => {
                        if let Some((s, e, r)) = cur {
                            if r != x {
                                out.push(format!("{}-{}:{}", s, e, r));
                            }
                        }
                        cur = Some((cp, cp, raw));
                    }
                }
            }
            if let Some((s, e, r)) = cur {
                if r != x {
                    out.push(format!("{}-{}:{}", s, e, r));
                }
            }
            Some(out.join(" "))
        }
        "fvs" => {
            let mut out = vec![];
            for cp in 0u32..=0x10FFFF {
                if hk::mongolian_copy(&[(65, 1), (cp, 7)])[1] == 1 {
                    out.push(cp.to_string());
                }
            }
            Some(out.join(" "))
        }
        "tgcs" => {
            let x = hk::joining_type_values()[7];
            let t = hk::joining_type_values()[6];
            // any character whose table entry is X
            let c = (0u32..0x80).filter_map(char::from_u32).find(|c| hk::joining_type_of(*c).0 == x)?;
            let v: Vec<String> = (0u8..30)
                .filter(|gc| hk::resolve_joining_type(c, *gc) == t)
                .map(|g| g.to_string())
                .collect();
            Some(v.join(" "))
        }
        "jt" => {
            let mut out = vec![];
            for t in &toks[2..] {
                let c = char::from_u32(t.parse().ok()?)?;
                let (raw, res, gc) = hk::joining_type_of(c);
                out.push(format!("{}:{}:{}", raw, res, gc));
            }
            Some(out.join(" "))
        }
        "script" => {
            let mut out = vec![];
            for t in &toks[2..] {
                let c = char::from_u32(t.parse().ok()?)?;
                let (iso, own) = rustybuzz::verif::unicode::script_tags(c);
                out.push(format!("{}:{}", iso, own));
            }
            Some(out.join(" "))
        }
        "resolve" => {
            let c = char::from_u32(toks.get(2)?.parse().ok()?)?;
            let gc: u8 = toks.get(3)?.parse().ok()?;
            if gc > 29 {
                return None;
            }
            Some(hk::resolve_joining_type(c, gc).to_string())
        }
        "ctx" => {
            let rest = &toks[2..];
            let p = rest.iter().position(|t| *t == "/")?;
            let f = |ts: &[&str]| -> Option<String> {
                ts.iter()
                    .map(|t| t.parse::<u32>().ok().and_then(char::from_u32))
                    .collect()
            };
            let (a, b) = hk::stored_context(&f(&rest[..p])?, &f(&rest[p + 1..])?);
            let g = |v: Vec<char>| {
                v.iter()
                    .map(|c| (*c as u32).to_string())
                    .collect::<Vec<_>>()
                    .join(" ")
            };
            Some(format!("{} / {}", g(a), g(b)))
        }
        "join" => {
            let (pre, text, post) = split3(&toks[2..])?;
            let (pre, text, post) = (chars_gc(pre)?, chars_gc(text)?, chars_gc(post)?);
            match (pre, text, post) {
                (Ok(pre), Ok(text), Ok(post)) => {
                    let pre: String = pre.into_iter().collect();
                    let post: String = post.into_iter().collect();
                    Some(format!("ok {}", join_u8(&hk::joining(&pre, &text, &post))).trim_end().to_string())
                }
                _ => Some("bad-gc".into()),
            }
        }
        "joinraw" => {
            let prelen: usize = toks.get(2)?.parse().ok()?;
            let postlen: usize = toks.get(3)?.parse().ok()?;
            let (pre, text, post) = split3(&toks[4..])?;
            let (pre, text, post) = (chars_gc(pre)?, chars_gc(text)?, chars_gc(post)?);
            match (pre, text, post) {
                (Ok(pre), Ok(text), Ok(post)) => Some(
                    format!("ok {}", join_u8(&hk::joining_raw(&pre, prelen, &text, &post, postlen)))
                        .trim_end()
                        .to_string(),
                ),
                _ => Some("bad-gc".into()),
            }
        }
        "ctxseq" => {
            let mut calls = vec![];
            for t in &toks[2..] {
                let (k, cps) = t.split_once(':')?;
                let side = match k {
                    "p" => 0u8,
                    "q" => 1,
                    "a" => 2,
                    _ => return None,
                };
                let text: Option<String> = if cps.is_empty() {
                    Some(String::new())
                } else {
                    cps.split(',')
                        .map(|x| x.parse::<u32>().ok().and_then(char::from_u32))
                        .collect()
                };
                calls.push((side, text?));
            }
            let (arr, len) = hk::context_after(&calls);
            let g = |v: &Vec<char>| {
                v.iter()
                    .map(|c| (*c as u32).to_string())
                    .collect::<Vec<_>>()
                    .join(" ")
            };
            Some(format!("{} {} / {} / {}", len[0], len[1], g(&arr[0]), g(&arr[1])))
        }
        "masks" => {
            let mong = *toks.get(2)? == "1";
            let rest = &toks[3..];
            let p = rest.iter().position(|t| *t == "/")?;
            if p != 8 {
                return None;
            }
            let mut ma = [0u32; 8];
            for i in 0..8 {
                ma[i] = rest[i].parse().ok()?;
            }
            let (pre, text, post) = split3(&rest[9..])?;
            let mut masks = vec![];
            let mut text2 = vec![];
            for t in text {
                let (a, m) = t.rsplit_once(':')?;
                masks.push(m.parse::<u32>().ok()?);
                text2.push(a);
            }
            let (pre, text, post) = (chars_gc(pre)?, chars_gc(&text2)?, chars_gc(post)?);
            match (pre, text, post) {
                (Ok(pre), Ok(text), Ok(post)) => {
                    let pre: String = pre.into_iter().collect();
                    let post: String = post.into_iter().collect();
                    let script = if mong {
                        rustybuzz::script::MONGOLIAN
                    } else {
                        rustybuzz::script::ARABIC
                    };
                    let r = hk::setup_masks(ma, Some(script), &pre, &text, &masks, &post);
                    let s: Vec<String> = r.iter().map(|(a, m)| format!("{}:{}", a, m)).collect();
                    Some(format!("ok {}", s.join(" ")).trim_end().to_string())
                }
                _ => Some("bad-gc".into()),
            }
        }
        "cls" => {
            let reps: Option<Vec<char>> = toks
                .get(2)?
                .split(',')
                .map(|x| x.parse::<u32>().ok().and_then(char::from_u32))
                .collect();
            let reps = reps?;
            if reps.len() != 8 || toks.len() != 6 {
                return None;
            }
            let word = |w: &str| -> Option<Vec<char>> {
                if w == "-" {
                    return Some(vec![]);
                }
                w.chars()
                    .map(|c| "ULRDCTAS".find(c).map(|i| reps[i]))
                    .collect()
            };
            let pre: String = word(toks[3])?.into_iter().collect();
            let text = word(toks[4])?;
            let post: String = word(toks[5])?.into_iter().collect();
            Some(format!("ok {}", join_u8(&hk::joining(&pre, &text, &post))).trim_end().to_string())
        }
        "mong" => {
            let mut items = vec![];
            for t in &toks[2..] {
                let (c, a) = t.split_once(':')?;
                items.push((c.parse::<u32>().ok()?, a.parse::<u8>().ok()?));
            }
            Some(format!("ok {}", join_u8(&hk::mongolian_copy(&items))).trim_end().to_string())
        }
        _ => None,
    }
}
