//! Whole-pipeline requests through the PUBLIC api.
//!   font <id> <hex>                      -> ok | reject
//!   fontfile <id> <path> [index]         -> ok | reject
//!   fontdrop <id>                        -> ok
//!   prefilter on|off                     -> ok     (verif hook: digest prefilter answers "maybe" when off)
//!   shape <fontid> <dir> <script> <lang> <flags> <level> <feats> <pre> <post> <text> [k=v ...]
//!       dir    : l r t b | -            (- = guess)
//!       script : 4 ascii chars | -
//!       lang   : x<hex utf8> | -
//!       flags  : decimal BufferFlags bits
//!       level  : 0 1 2
//!       feats  : - | tag8hex:value:start:end[,...]   (fields are stored as given: Feature{..} by field)
//!       pre/post : - | hexcp[,hexcp...]
//!       text   : - | hexcp:cluster[,...]
//!       k=v    : fstr=<hex of comma separated feature strings, parsed by Feature::from_str>  ppem=<n>  ptem=<n>  var=tag8hex:<float>[,..]  nfvs=<gid>  mode=plan|shape  rep=<n> (repeat via recycled buffer)
//!   reply: ok <n> gid:cluster:flags:xa:ya:xo:yo ...      (flags from serialize(GLYPH_FLAGS), i.e. public)
use super::util::hex_bytes;
use crate::State;
use rustybuzz::ttf_parser::Tag;
use rustybuzz::{
    BufferClusterLevel, BufferFlags, Direction, Face, Feature, Language, Script, SerializeFlags,
    ShapePlan, UnicodeBuffer, Variation,
};
use std::str::FromStr;

pub struct Req<'a> {
    pub font: &'a str,
    pub dir: Option<Direction>,
    pub script: Option<Script>,
    pub lang: Option<String>,
    pub flags: u32,
    pub level: u8,
    pub feats: Vec<Feature>,
    pub pre: String,
    pub post: String,
    pub text: Vec<(char, u32)>,
    pub ppem: Option<u16>,
    pub ptem: Option<f32>,
    pub vars: Vec<Variation>,
    pub nfvs: Option<u32>,
    pub mode_plan: bool,
    pub rep: u32,
}

fn cps(s: &str) -> Option<String> {
    if s == "-" {
        return Some(String::new());
    }
    s.split(',')
        .map(|x| u32::from_str_radix(x, 16).ok().and_then(char::from_u32))
        .collect()
}

pub fn parse_req<'a>(toks: &[&'a str]) -> Option<Req<'a>> {
    if toks.len() < 10 {
        return None;
    }
    let dir = match toks[1] {
        "-" => None,
        "l" => Some(Direction::LeftToRight),
        "r" => Some(Direction::RightToLeft),
        "t" => Some(Direction::TopToBottom),
        "b" => Some(Direction::BottomToTop),
        _ => return None,
    };
    let script = match toks[2] {
        "-" => None,
        s => {
            let b = s.as_bytes();
            if b.len() != 4 {
                return None;
            }
            Script::from_iso15924_tag(Tag::from_bytes(&[b[0], b[1], b[2], b[3]]))
        }
    };
    let lang = match toks[3] {
        "-" => None,
        s => Some(String::from_utf8(hex_bytes(s.strip_prefix('x')?)?).ok()?),
    };
    let flags: u32 = toks[4].parse().ok()?;
    let level: u8 = toks[5].parse().ok()?;
    let mut feats = vec![];
    if toks[6] != "-" {
        for f in toks[6].split(',') {
            let p: Vec<&str> = f.split(':').collect();
            if p.len() != 4 {
                return None;
            }
            feats.push(Feature {
                tag: Tag(u32::from_str_radix(p[0], 16).ok()?),
                value: p[1].parse().ok()?,
                start: p[2].parse().ok()?,
                end: p[3].parse().ok()?,
            });
        }
    }
    let pre = cps(toks[7])?;
    let post = cps(toks[8])?;
    let mut text = vec![];
    if toks[9] != "-" {
        for t in toks[9].split(',') {
            let (c, cl) = t.split_once(':')?;
            text.push((
                char::from_u32(u32::from_str_radix(c, 16).ok()?)?,
                cl.parse().ok()?,
            ));
        }
    }
    let mut r = Req {
        font: toks[0],
        dir,
        script,
        lang,
        flags,
        level,
        feats,
        pre,
        post,
        text,
        ppem: None,
        ptem: None,
        vars: vec![],
        nfvs: None,
        mode_plan: false,
        rep: 0,
    };
    for kv in &toks[10..] {
        if *kv == "!flush" {
            continue;
        }
        let (k, v) = kv.split_once('=')?;
        match k {
            "ppem" => r.ppem = Some(v.parse().ok()?),
            "ptem" => r.ptem = Some(v.parse().ok()?),
            "nfvs" => r.nfvs = Some(v.parse().ok()?),
            "mode" => r.mode_plan = v == "plan",
            "rep" => r.rep = v.parse().ok()?,
            "fstr" => {
                let fs = String::from_utf8(hex_bytes(v)?).ok()?;
                for f in fs.split(',') {
                    r.feats.push(Feature::from_str(f).ok()?);
                }
            }
            "var" => {
                for x in v.split(',') {
                    let (t, val) = x.split_once(':')?;
                    r.vars.push(Variation {
                        tag: Tag(u32::from_str_radix(t, 16).ok()?),
                        value: val.parse().ok()?,
                    });
                }
            }
            _ => return None,
        }
    }
    Some(r)
}

pub fn fill(buf: &mut UnicodeBuffer, r: &Req) {
    for (c, cl) in &r.text {
        buf.add(*c, *cl);
    }
    if !r.pre.is_empty() {
        buf.set_pre_context(&r.pre);
    }
    if !r.post.is_empty() {
        buf.set_post_context(&r.post);
    }
    if let Some(d) = r.dir {
        buf.set_direction(d);
    }
    if let Some(s) = r.script {
        buf.set_script(s);
    }
    if let Some(l) = &r.lang {
        if let Ok(l) = Language::from_str(l) {
            buf.set_language(l);
        }
    }
    buf.set_flags(BufferFlags::from_bits_retain(r.flags));
    buf.set_cluster_level(match r.level {
        0 => BufferClusterLevel::MonotoneGraphemes,
        1 => BufferClusterLevel::MonotoneCharacters,
        _ => BufferClusterLevel::Characters,
    });
    if let Some(g) = r.nfvs {
        buf.set_not_found_variation_selector_glyph(g);
    }
}

pub fn make_face<'a>(st: &State, r: &Req) -> Option<Face<'a>> {
    let data: &'static [u8] = st.fonts.get(r.font)?;
    let idx = *st.font_index.get(r.font).unwrap_or(&0);
    let mut face = Face::from_slice(data, idx)?;
    if let Some(p) = r.ppem {
        face.set_pixels_per_em(Some((p, p)));
    }
    if let Some(p) = r.ptem {
        face.set_points_per_em(Some(p));
    }
    if !r.vars.is_empty() {
        face.set_variations(&r.vars);
    }
    Some(face)
}

/// Parses the flag suffixes out of `serialize(NO_GLYPH_NAMES | GLYPH_FLAGS | NO_POSITIONS | NO_CLUSTERS)`.
pub fn public_flags(gb: &rustybuzz::GlyphBuffer, face: &Face) -> Vec<u32> {
    let s = gb.serialize(
        face,
        SerializeFlags::NO_GLYPH_NAMES
            | SerializeFlags::GLYPH_FLAGS
            | SerializeFlags::NO_POSITIONS
            | SerializeFlags::NO_CLUSTERS,
    );
    if gb.len() == 0 {
        return vec![];
    }
    s.split('|')
        .map(|item| match item.split_once('#') {
            Some((_, f)) => u32::from_str_radix(f, 16).unwrap_or(0xFFFF_FFFF),
            None => 0,
        })
        .collect()
}

pub fn dump(gb: &rustybuzz::GlyphBuffer, face: &Face) -> String {
    let fl = public_flags(gb, face);
    let mut s = format!("ok {}", gb.len());
    for (i, (info, pos)) in gb
        .glyph_infos()
        .iter()
        .zip(gb.glyph_positions())
        .enumerate()
    {
        s.push_str(&format!(
            " {}:{}:{}:{}:{}:{}:{}",
            info.glyph_id,
            info.cluster,
            fl.get(i).copied().unwrap_or(0xFFFF_FFFF),
            pos.x_advance,
            pos.y_advance,
            pos.x_offset,
            pos.y_offset
        ));
    }
    s
}

pub fn shape_req(st: &State, r: &Req) -> Option<String> {
    let face = make_face(st, r)?;
    let mut buf = UnicodeBuffer::new();
    let mut last = String::new();
    for _ in 0..=r.rep {
        fill(&mut buf, r);
        let gb = if r.mode_plan {
            buf.guess_segment_properties();
            let plan = ShapePlan::new(
                &face,
                buf.direction(),
                Some(buf.script()),
                buf.language().as_ref(),
                &r.feats,
            );
            rustybuzz::shape_with_plan(&face, &plan, buf)
        } else {
            rustybuzz::shape(&face, &r.feats, buf)
        };
        last = dump(&gb, &face);
        buf = gb.clear();
    }
    Some(last)
}

pub const CMDS: &[&str] = &["font", "fontfile", "fontdrop", "prefilter", "shape"];

pub fn handle(toks: &[&str], st: &mut State) -> Option<String> {
    match toks[0] {
        "font" => {
            let data = hex_bytes(toks.get(2)?)?;
            let data: &'static [u8] = Box::leak(data.into_boxed_slice());
            let ok = Face::from_slice(data, 0).is_some();
            st.fonts.insert(toks[1].to_string(), data);
            st.font_index.insert(toks[1].to_string(), 0);
            Some(if ok { "ok".into() } else { "reject".into() })
        }
        "fontfile" => {
            let data = std::fs::read(toks.get(2)?).ok()?;
            let idx: u32 = toks.get(3).and_then(|x| x.parse().ok()).unwrap_or(0);
            let data: &'static [u8] = Box::leak(data.into_boxed_slice());
            let ok = Face::from_slice(data, idx).is_some();
            st.fonts.insert(toks[1].to_string(), data);
            st.font_index.insert(toks[1].to_string(), idx);
            Some(if ok { "ok".into() } else { "reject".into() })
        }
        "fontdrop" => {
            st.fonts.remove(*toks.get(1)?);
            Some("ok".into())
        }
        "prefilter" => {
            rustybuzz::verif::set_prefilter_off(*toks.get(1)? == "off");
            Some("ok".into())
        }
        "shape" => {
            let r = parse_req(&toks[1..])?;
            match shape_req(st, &r) {
                Some(s) => Some(s),
                None => Some("reject".into()),
            }
        }
        _ => None,
    }
}
