//! AAT `morx` through the `verif::morx` / `verif::aat_map` hooks.
//!   morx consts                                   -> NAME=value ...
//!   morx featmap                                  -> tag:type:on:off ...        (feature_mappings of aat_layout.rs)
//!   morx rearr <flags> <start> <end> <idx> <level> <glyphs>
//!        one RearrangementCtx::transition; glyphs = g:c,g:c,... | -
//!        reply: ok <start'> <end'> <glyphs>
//!   morx run <fonthex> R <recipe tokens ...> I <dir> <level> <maxops|-> <maxlen|-> <feats|-> <glyphs>
//!        hb_aat_layout_substitute on a hand-made buffer with the font's own morx (+feat) table.
//!        The recipe tokens are for the Lean model only (the same table, already parsed); rbshim skips them.
//!        dir: l r t b ; feats: tag8hex:value:start:end[,...]
//!        reply: ok <successful> <max_ops> <glyphs> F <chain flags: flags/first/last,...;...>
//!   morx compile <fonthex> R <recipe...> I <feats|->
//!        reply: ok A <kind:setting:excl:start:end,...|-> F <chain flags>
//!   morx shape <fonthex> R <recipe...> I <dir> <level> <feats|-> <text: hexcp:cluster,...>
//!        public shape(); reply: ok <g:c,...>
//!   morx purge <level> <glyphs>
//!        hb_aat_layout_remove_deleted_glyphs on a hand-made buffer; reply: ok <glyphs>
//!   morx shapeenv <fonthex> R <recipe...> I <env> <dir> <level> <feats|-> <text: hexcp:cluster,...>
//!        public shape() on a font that carries the morx table of the recipe next to other layout tables.
//!        env (for the model only, rbshim reads the font): gsub,gpos,gposkern,kerx,kern,gdef as 0/1 digits + the
//!        GSUB single substitution as gid>gid pairs.
//!        reply: ok <g:c,...> P <apply_morx><apply_gpos><apply_kerx><apply_kern> A <x_advance,...|->
//!        (P from the plan hook; A is for the search oracle only, the model has no positions: the check cuts it off)
use super::util::hex_bytes;
use rustybuzz::ttf_parser::Tag;
use rustybuzz::verif::{aat_map as am, morx as mx};
use rustybuzz::{Direction, Face, Feature};

pub const CMDS: &[&str] = &["morx"];

fn glyphs(s: &str) -> Option<Vec<(u32, u32)>> {
    if s == "-" {
        return Some(vec![]);
    }
    s.split(',')
        .map(|t| {
            let (g, c) = t.split_once(':')?;
            Some((g.parse().ok()?, c.parse().ok()?))
        })
        .collect()
}

fn fmt_glyphs(v: &[(u32, u32)]) -> String {
    if v.is_empty() {
        return "-".into();
    }
    v.iter()
        .map(|(g, c)| format!("{}:{}", g, c))
        .collect::<Vec<_>>()
        .join(",")
}

fn feats(s: &str) -> Option<Vec<Feature>> {
    let mut v = vec![];
    if s == "-" {
        return Some(v);
    }
    for f in s.split(',') {
        let p: Vec<&str> = f.split(':').collect();
        if p.len() != 4 {
            return None;
        }
        v.push(Feature {
            tag: Tag(u32::from_str_radix(p[0], 16).ok()?),
            value: p[1].parse().ok()?,
            start: p[2].parse().ok()?,
            end: p[3].parse().ok()?,
        });
    }
    Some(v)
}

fn dir(s: &str) -> Option<Direction> {
    Some(match s {
        "l" => Direction::LeftToRight,
        "r" => Direction::RightToLeft,
        "t" => Direction::TopToBottom,
        "b" => Direction::BottomToTop,
        _ => return None,
    })
}

fn fmt_flags(cf: &[Vec<(u32, u32, u32)>]) -> String {
    if cf.is_empty() {
        return "-".into();
    }
    cf.iter()
        .map(|c| {
            if c.is_empty() {
                "-".to_string()
            } else {
                c.iter()
                    .map(|(f, a, b)| format!("{}/{}/{}", f, a, b))
                    .collect::<Vec<_>>()
                    .join(",")
            }
        })
        .collect::<Vec<_>>()
        .join(";")
}

/// position of the `I` token that ends the recipe
fn input_at(toks: &[&str]) -> Option<usize> {
    toks.iter().position(|t| *t == "I")
}

pub fn handle(toks: &[&str], _st: &mut crate::State) -> Option<String> {
    let toks = &toks[1..];
    match *toks.first()? {
        "consts" => Some(
            mx::constants()
                .iter()
                .map(|(k, v)| format!("{}={}", k, v))
                .collect::<Vec<_>>()
                .join(" "),
        ),
        "featmap" => Some(
            mx::feature_mapping_rows()
                .iter()
                .map(|(t, k, a, b)| format!("{}:{}:{}:{}", t, k, a, b))
                .collect::<Vec<_>>()
                .join(" "),
        ),
        "rearr" => {
            let flags: u16 = toks.get(1)?.parse().ok()?;
            let start: usize = toks.get(2)?.parse().ok()?;
            let end: usize = toks.get(3)?.parse().ok()?;
            let idx: usize = toks.get(4)?.parse().ok()?;
            let level: u32 = toks.get(5)?.parse().ok()?;
            let gs = glyphs(toks.get(6)?)?;
            let (out, s, e) = mx::rearrange(flags, start, end, idx, level, &gs);
            Some(format!("ok {} {} {}", s, e, fmt_glyphs(&out)))
        }
        "run" => {
            let data = hex_bytes(toks.get(1)?)?;
            let i = input_at(toks)?;
            let t = &toks[i + 1..];
            let d = dir(t.first()?)?;
            let level: u32 = t.get(1)?.parse().ok()?;
            let max_ops: Option<i32> = match *t.get(2)? {
                "-" => None,
                s => Some(s.parse().ok()?),
            };
            let max_len: Option<usize> = match *t.get(3)? {
                "-" => None,
                s => Some(s.parse().ok()?),
            };
            let fs = feats(t.get(4)?)?;
            let gs = glyphs(t.get(5)?)?;
            let face = match Face::from_slice(&data, 0) {
                Some(f) => f,
                None => return Some("reject".into()),
            };
            let r = mx::substitute(&face, d, &fs, level, max_ops, max_len, &gs);
            Some(format!(
                "ok {} {} {} F {}",
                r.successful as u8,
                r.max_ops,
                fmt_glyphs(&r.glyphs),
                fmt_flags(&r.chain_flags)
            ))
        }
        "compile" => {
            let data = hex_bytes(toks.get(1)?)?;
            let i = input_at(toks)?;
            let fs = feats(toks.get(i + 1)?)?;
            let face = match Face::from_slice(&data, 0) {
                Some(f) => f,
                None => return Some("reject".into()),
            };
            let added = am::added_features(&face, &fs);
            let a = if added.is_empty() {
                "-".to_string()
            } else {
                added
                    .iter()
                    .map(|(k, s, x, a, b)| format!("{}:{}:{}:{}:{}", k, s, *x as u8, a, b))
                    .collect::<Vec<_>>()
                    .join(",")
            };
            Some(format!("ok A {} F {}", a, fmt_flags(&am::compile(&face, &fs))))
        }
        "purge" => {
            let level: u32 = toks.get(1)?.parse().ok()?;
            let gs = glyphs(toks.get(2)?)?;
            Some(format!("ok {}", fmt_glyphs(&mx::purge(level, &gs))))
        }
        "shapeenv" => {
            let data = hex_bytes(toks.get(1)?)?;
            let i = input_at(toks)?;
            let t = &toks[i + 2..];
            let d = dir(t.first()?)?;
            let level: u8 = t.get(1)?.parse().ok()?;
            let fs = feats(t.get(2)?)?;
            let face = match Face::from_slice(&data, 0) {
                Some(f) => f,
                None => return Some("reject".into()),
            };
            let mut buf = rustybuzz::UnicodeBuffer::new();
            if *t.get(3)? != "-" {
                for x in t.get(3)?.split(',') {
                    let (c, cl) = x.split_once(':')?;
                    buf.add(
                        char::from_u32(u32::from_str_radix(c, 16).ok()?)?,
                        cl.parse().ok()?,
                    );
                }
            }
            buf.set_direction(d);
            buf.set_cluster_level(match level {
                0 => rustybuzz::BufferClusterLevel::MonotoneGraphemes,
                1 => rustybuzz::BufferClusterLevel::MonotoneCharacters,
                _ => rustybuzz::BufferClusterLevel::Characters,
            });
            let p = mx::plan_appliers(&face, d, &fs);
            let gb = rustybuzz::shape(&face, &fs, buf);
            let v: Vec<(u32, u32)> = gb
                .glyph_infos()
                .iter()
                .map(|i| (i.glyph_id, i.cluster))
                .collect();
            let adv: Vec<String> = gb
                .glyph_positions()
                .iter()
                .map(|p| p.x_advance.to_string())
                .collect();
            Some(format!(
                "ok {} P {}{}{}{} A {}",
                fmt_glyphs(&v),
                p[0] as u8,
                p[1] as u8,
                p[2] as u8,
                p[3] as u8,
                if adv.is_empty() {
                    "-".to_string()
                } else {
                    adv.join(",")
                }
            ))
        }
        "shape" => {
            let data = hex_bytes(toks.get(1)?)?;
            let i = input_at(toks)?;
            let t = &toks[i + 1..];
            let d = dir(t.first()?)?;
            let level: u8 = t.get(1)?.parse().ok()?;
            let fs = feats(t.get(2)?)?;
            let face = match Face::from_slice(&data, 0) {
                Some(f) => f,
                None => return Some("reject".into()),
            };
            let mut buf = rustybuzz::UnicodeBuffer::new();
            if *t.get(3)? != "-" {
                for x in t.get(3)?.split(',') {
                    let (c, cl) = x.split_once(':')?;
                    buf.add(
                        char::from_u32(u32::from_str_radix(c, 16).ok()?)?,
                        cl.parse().ok()?,
                    );
                }
            }
            buf.set_direction(d);
            buf.set_cluster_level(match level {
                0 => rustybuzz::BufferClusterLevel::MonotoneGraphemes,
                1 => rustybuzz::BufferClusterLevel::MonotoneCharacters,
                _ => rustybuzz::BufferClusterLevel::Characters,
            });
            let gb = rustybuzz::shape(&face, &fs, buf);
            let v: Vec<(u32, u32)> = gb
                .glyph_infos()
                .iter()
                .map(|i| (i.glyph_id, i.cluster))
                .collect();
            Some(format!("ok {}", fmt_glyphs(&v)))
        }
        _ => None,
    }
}
