//! C03 — which glyph flags a PairPos subtable leaves behind, and the `worked` value `ValueRecord::apply_to_pos` returns
//! (hooks `verif::gpos::{pair_records_apply_to_pos, apply_subtable_flags}`), on a face whose pixels-per-em are set so that
//! the Device tables of the value records are live.
//! Positions are tokens `xa:ya:xo:yo:chain:type`; directions `l r t b i`.
//!
//!   gpf val <ppem_x> <ppem_y> <hex> <first> <second> <dir> <model...> | <pos1> <pos2>
//!         the records of the glyph pair (first, second) in the PairPos subtable <hex>; `apply_to_pos` of record 1 on
//!         pos1 and of record 2 on pos2, unconditionally            -> ok <pos1'> <worked1> <pos2'> <worked2> | norecord
//!   gpf pair <ppem_x> <ppem_y> <hex> <props> <dir> <bufflags> <level> <idx> <infos> <model...> | <pos...>
//!         the real `PairAdjustment::apply` at idx on a buffer with the given clusters / masks / cluster level /
//!         buffer flags; infos = gid:glyph_props:lig_props:cluster:mask,... (lookup mask 0x100: a glyph takes part only
//!         when its mask has that bit)
//!         -> ok <applied 0|1> <idx'> <scratch_flags> <mask,...> <pos...>
//!   the <model...> tokens are for the Lean side only
use super::util::hex_bytes;
use rustybuzz::ttf_parser;
use rustybuzz::verif::gpos as g;
use rustybuzz::{Direction, Face};

pub const CMDS: &[&str] = &["gpf"];

/// the lookup mask of `gpf pair`: a feature bit well above the glyph-flag bits; glyphs without it are passed over
const LOOKUP_MASK: u32 = 0x100;

fn dir(s: &str) -> Option<Direction> {
    Some(match s {
        "l" => Direction::LeftToRight,
        "r" => Direction::RightToLeft,
        "t" => Direction::TopToBottom,
        "b" => Direction::BottomToTop,
        "i" => Direction::Invalid,
        _ => return None,
    })
}

fn one_pos(t: &str) -> Option<g::P> {
    let v: Vec<&str> = t.split(':').collect();
    if v.len() != 6 {
        return None;
    }
    Some((
        v[0].parse().ok()?,
        v[1].parse().ok()?,
        v[2].parse().ok()?,
        v[3].parse().ok()?,
        v[4].parse().ok()?,
        v[5].parse().ok()?,
    ))
}

fn fmt_one(p: &g::P) -> String {
    format!("{}:{}:{}:{}:{}:{}", p.0, p.1, p.2, p.3, p.4, p.5)
}

fn with_ppem_face<R>(ppx: u16, ppy: u16, f: impl FnOnce(&Face) -> R) -> Option<R> {
    let mut head = vec![0u8; 54];
    head[1] = 1;
    head[12] = 0x5F;
    head[13] = 0x0F;
    head[14] = 0x3C;
    head[15] = 0xF5;
    head[18] = 0x03;
    head[19] = 0xE8; // unitsPerEm = 1000
    let mut hhea = vec![0u8; 36];
    hhea[1] = 1;
    hhea[35] = 1;
    let maxp = [0u8, 0, 0x50, 0, 0xFF, 0xFF];
    let raw = ttf_parser::RawFaceTables {
        head: &head,
        hhea: &hhea,
        maxp: &maxp,
        ..Default::default()
    };
    let tf = ttf_parser::Face::from_raw_tables(raw).ok()?;
    let mut face = Face::from_face(tf);
    face.set_pixels_per_em(Some((ppx, ppy)));
    Some(f(&face))
}

pub fn handle(toks: &[&str], _st: &mut crate::State) -> Option<String> {
    let bar = toks.iter().position(|t| *t == "|")?;
    let ptoks = &toks[bar + 1..];
    match *toks.get(1)? {
        "val" => {
            let ppx: u16 = toks.get(2)?.parse().ok()?;
            let ppy: u16 = toks.get(3)?.parse().ok()?;
            let data = hex_bytes(toks.get(4)?)?;
            let first: u16 = toks.get(5)?.parse().ok()?;
            let second: u16 = toks.get(6)?.parse().ok()?;
            let d = dir(toks.get(7)?)?;
            if ptoks.len() != 2 {
                return None;
            }
            let p1 = one_pos(ptoks[0])?;
            let p2 = one_pos(ptoks[1])?;
            with_ppem_face(ppx, ppy, |f| {
                match g::pair_records_apply_to_pos(f, &data, first, second, d, p1, p2) {
                    Some(((q1, w1), (q2, w2))) => format!(
                        "ok {} {} {} {}",
                        fmt_one(&q1),
                        w1 as u8,
                        fmt_one(&q2),
                        w2 as u8
                    ),
                    None => "norecord".to_string(),
                }
            })
        }
        "pair" => {
            let ppx: u16 = toks.get(2)?.parse().ok()?;
            let ppy: u16 = toks.get(3)?.parse().ok()?;
            let data = hex_bytes(toks.get(4)?)?;
            let props: u32 = toks.get(5)?.parse().ok()?;
            let d = dir(toks.get(6)?)?;
            let bflags: u32 = toks.get(7)?.parse().ok()?;
            let level: u8 = toks.get(8)?.parse().ok()?;
            let idx: usize = toks.get(9)?.parse().ok()?;
            let infos: Option<Vec<(u32, u16, u8, u32, u32)>> = toks
                .get(10)?
                .split(',')
                .map(|t| {
                    let v: Vec<&str> = t.split(':').collect();
                    if v.len() != 5 {
                        return None;
                    }
                    Some((
                        v[0].parse().ok()?,
                        v[1].parse().ok()?,
                        v[2].parse().ok()?,
                        v[3].parse().ok()?,
                        v[4].parse().ok()?,
                    ))
                })
                .collect();
            let infos = infos?;
            let p: Option<Vec<g::P>> = ptoks.iter().map(|t| one_pos(t)).collect();
            let p = p?;
            with_ppem_face(ppx, ppy, |f| {
                match g::apply_subtable_flags(f, 2, &data, props, d, bflags, level, LOOKUP_MASK, &infos, &p, idx) {
                    Some((applied, idx2, ps, masks, scratch)) => format!(
                        "ok {} {} {} {} {}",
                        applied as u8,
                        idx2,
                        scratch,
                        masks
                            .iter()
                            .map(|m| m.to_string())
                            .collect::<Vec<_>>()
                            .join(","),
                        ps.iter().map(fmt_one).collect::<Vec<_>>().join(" ")
                    ),
                    None => "unparsed".to_string(),
                }
            })
        }
        _ => None,
    }
}
