//! The Arabic shaper's `stch` post-processing on an injected buffer (C03/C04).
//!   stch <fontid> <rtl 0|1> <level> <item> ...
//!        item = gid:cluster:mask:act:kind:adv:width
//!        act  : 0 none, 1 STRETCHING_FIXED, 2 STRETCHING_REPEATING
//!        kind : 0 not word category, 1 word category, 2 default ignorable
//!        adv  : pos.x_advance ; width : the font's advance of gid (read by the model only; the crate asks the face)
//!   reply: ok gid:cluster:mask:xadv:xoff ...        (hook verif::arabic::apply_stch_on = the real apply_stch)
use rustybuzz::verif::arabic as va;
use rustybuzz::Face;

pub const CMDS: &[&str] = &["stch"];

pub fn handle(toks: &[&str], st: &mut crate::State) -> Option<String> {
    let data: &'static [u8] = st.fonts.get(*toks.get(1)?)?;
    let face = Face::from_slice(data, 0)?;
    let rtl = *toks.get(2)? == "1";
    let level: u32 = toks.get(3)?.parse().ok()?;
    let mut items = vec![];
    for t in &toks[4..] {
        let f: Vec<i64> = t
            .split(':')
            .map(|x| x.parse::<i64>().ok())
            .collect::<Option<Vec<i64>>>()?;
        if f.len() != 7 {
            return None;
        }
        items.push((
            f[0] as u32,
            f[1] as u32,
            f[2] as u32,
            f[3] as u8,
            f[4] as u8,
            f[5] as i32,
        ));
    }
    let out = va::apply_stch_on(&face, &items, rtl, level);
    let mut s = String::from("ok");
    for (g, c, m, a, x) in out {
        s.push_str(&format!(" {}:{}:{}:{}:{}", g, c, m, a, x));
    }
    Some(s)
}
