//! `Feature` construction through the PUBLIC api (C14).
//!   feature new <tag> <value> <startbound> <endbound>   bound: i<n> (Included) | x<n> (Excluded) | u (Unbounded), n: usize
//!        -> <tag> <value> <start> <end> <is_global>
//!        (the native range syntax a..b, a..=b, a.., ..b, ..=b, .. is used whenever the bounds have that shape)
//!   feature parse <hex utf8>                           -> ok <tag> <value> <start> <end> <is_global> | err | bad-utf8
//!   feature global <tag> <value> <start> <end>        -> 0|1   (hook: Feature::is_global)
use super::util::hex_bytes;
use rustybuzz::ttf_parser::Tag;
use rustybuzz::Feature;
use std::ops::Bound;
use std::str::FromStr;

pub const CMDS: &[&str] = &["feature"];

fn bound(s: &str) -> Option<Bound<usize>> {
    if s == "u" {
        return Some(Bound::Unbounded);
    }
    let (k, n) = s.split_at(1);
    let n: usize = n.parse().ok()?;
    match k {
        "i" => Some(Bound::Included(n)),
        "x" => Some(Bound::Excluded(n)),
        _ => None,
    }
}

fn show(f: &Feature) -> String {
    format!(
        "{} {} {} {} {}",
        f.tag.0,
        f.value,
        f.start,
        f.end,
        rustybuzz::verif::common::feature_is_global(f) as u8
    )
}

pub fn handle(toks: &[&str], _st: &mut crate::State) -> Option<String> {
    let toks = &toks[1..];
    match *toks.first()? {
        "new" => {
            let tag = Tag(toks.get(1)?.parse().ok()?);
            let value: u32 = toks.get(2)?.parse().ok()?;
            let s = bound(toks.get(3)?)?;
            let e = bound(toks.get(4)?)?;
            let f = match (s, e) {
                (Bound::Included(a), Bound::Excluded(b)) => Feature::new(tag, value, a..b),
                (Bound::Included(a), Bound::Included(b)) => Feature::new(tag, value, a..=b),
                (Bound::Included(a), Bound::Unbounded) => Feature::new(tag, value, a..),
                (Bound::Unbounded, Bound::Excluded(b)) => Feature::new(tag, value, ..b),
                (Bound::Unbounded, Bound::Included(b)) => Feature::new(tag, value, ..=b),
                (Bound::Unbounded, Bound::Unbounded) => Feature::new(tag, value, ..),
                (s, e) => Feature::new(tag, value, (s, e)),
            };
            Some(show(&f))
        }
        "parse" => {
            let bytes = hex_bytes(toks.get(1).copied().unwrap_or(""))?;
            let Ok(s) = String::from_utf8(bytes) else {
                return Some("bad-utf8".into());
            };
            match Feature::from_str(&s) {
                Ok(f) => Some(format!("ok {}", show(&f))),
                Err(_) => Some("err".into()),
            }
        }
        "global" => {
            let f = Feature {
                tag: Tag(toks.get(1)?.parse().ok()?),
                value: toks.get(2)?.parse().ok()?,
                start: toks.get(3)?.parse().ok()?,
                end: toks.get(4)?.parse().ok()?,
            };
            Some(format!(
                "{}",
                rustybuzz::verif::common::feature_is_global(&f) as u8
            ))
        }
        _ => None,
    }
}
