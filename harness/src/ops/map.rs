//! Feature -> mask compiler (ot_map.rs), plan masks, set_masks and feature-driven shaping (C14; C04/C06 reuse).
//! Segments of a request are separated by a lone `;` token. `<facts>` is the reply of `map facts` pasted in
//! (ignored by rbshim, which reads the real font; used by the Lean model, for which a font is data).
//!   map consts                                   -> MAX_BITS MAX_VALUE GLOBAL_BIT_SHIFT GLOBAL_BIT_MASK DEFINED BREAK CONCAT TATWEEL F_GLOBAL F_HAS_FALLBACK F_MANUAL_ZWNJ F_MANUAL_ZWJ F_GLOBAL_SEARCH F_RANDOM F_PER_SYLLABLE
//!   map font <id> <path> | map fonthex <id> <hex> -> ok | reject
//!   map facts <font> <script|-> <lang|-> <tag,tag,..>   -> P .. R .. N .. T .. X ..     (verif::map::font_facts)
//!   map compile <font> <script|-> <lang|-> <simple> ; <facts> ; <op>*     op: a:tag:flags:value | e:tag:flags:value | d:tag | pg | pp
//!        -> dump of the compiled map + deduplicated infos           (verif::map::run_builder)
//!   map plan <font> <dir> <script|-> <lang|-> ; <facts> ; <tag:value:start:end>*
//!        -> dump of ShapePlan::new(..).ot_map + user features with get_mask     (verif::plan::plan_info)
//!   map setmasks <len> <value> <mask> <start> <end> <mask:cluster>*      -> masks   (verif::buffer::set_masks_on)
//!   map shape <font> ; <facts> ; <lookup>* ; <tag:value:start:end>* ; <cp:gid:cluster>*
//!        lookup: s:<index>:<from>.<to>,..  (single)  |  t:<index>:<from>.<alt>/<alt>..,..  (alternate)   (model only)
//!        -> ok <n> gid:cluster ...        public `shape()`, direction LTR, features by FIELD
use super::util::hex_bytes;
use crate::State;
use rustybuzz::ttf_parser::Tag;
use rustybuzz::verif::map as m;
use rustybuzz::{Direction, Face, Feature, Language, Script, ShapePlan, UnicodeBuffer};
use std::str::FromStr;

pub const CMDS: &[&str] = &["map"];

fn script(s: &str) -> Option<Option<Script>> {
    if s == "-" {
        return Some(None);
    }
    let b = s.as_bytes();
    if b.len() != 4 {
        return None;
    }
    Some(Script::from_iso15924_tag(Tag::from_bytes(&[
        b[0], b[1], b[2], b[3],
    ])))
}

fn lang(s: &str) -> Option<Language> {
    if s == "-" {
        None
    } else {
        Language::from_str(s).ok()
    }
}

fn face<'a>(st: &State, id: &str) -> Option<Face<'a>> {
    let data: &'static [u8] = st.fonts.get(id)?;
    Face::from_slice(data, *st.font_index.get(id).unwrap_or(&0))
}

fn segments<'a, 'b>(toks: &'b [&'a str]) -> Vec<&'b [&'a str]> {
    toks.split(|t| *t == ";").collect()
}

fn feats(toks: &[&str]) -> Option<Vec<Feature>> {
    toks.iter()
        .map(|f| {
            let p: Vec<&str> = f.split(':').collect();
            if p.len() != 4 {
                return None;
            }
            Some(Feature {
                tag: Tag(p[0].parse().ok()?),
                value: p[1].parse().ok()?,
                start: p[2].parse().ok()?,
                end: p[3].parse().ok()?,
            })
        })
        .collect()
}

pub fn handle(toks: &[&str], st: &mut State) -> Option<String> {
    let toks = &toks[1..];
    match *toks.first()? {
        "consts" => {
            let c = m::constants();
            let f = m::feature_flags();
            Some(
                c.iter()
                    .chain(f.iter())
                    .map(|x| x.to_string())
                    .collect::<Vec<_>>()
                    .join(" "),
            )
        }
        "font" | "fonthex" => {
            let data = if toks[0] == "font" {
                std::fs::read(toks.get(2)?).ok()?
            } else {
                hex_bytes(toks.get(2)?)?
            };
            let data: &'static [u8] = Box::leak(data.into_boxed_slice());
            let ok = Face::from_slice(data, 0).is_some();
            st.fonts.insert(toks[1].to_string(), data);
            st.font_index.insert(toks[1].to_string(), 0);
            Some(if ok { "ok".into() } else { "reject".into() })
        }
        "facts" => {
            let f = face(st, toks.get(1)?)?;
            let sc = script(toks.get(2)?)?;
            let la = lang(toks.get(3)?);
            let tags: Option<Vec<u32>> = match *toks.get(4)? {
                "-" => Some(vec![]),
                s => s.split(',').map(|x| x.parse().ok()).collect(),
            };
            Some(m::font_facts(&f, sc, la.as_ref(), &tags?))
        }
        "compile" => {
            let seg = segments(toks);
            if seg.len() != 3 || seg[0].len() != 5 {
                return None;
            }
            let f = face(st, seg[0][1])?;
            let sc = script(seg[0][2])?;
            let la = lang(seg[0][3]);
            let simple = seg[0][4] == "1";
            let mut ops = vec![];
            for o in seg[2] {
                let p: Vec<&str> = o.split(':').collect();
                ops.push(match p[0] {
                    "a" => m::Op::Add(
                        p.get(1)?.parse().ok()?,
                        p.get(2)?.parse().ok()?,
                        p.get(3)?.parse().ok()?,
                    ),
                    "e" => m::Op::Enable(
                        p.get(1)?.parse().ok()?,
                        p.get(2)?.parse().ok()?,
                        p.get(3)?.parse().ok()?,
                    ),
                    "d" => m::Op::Disable(p.get(1)?.parse().ok()?),
                    "pg" => m::Op::PauseGsub,
                    "pp" => m::Op::PauseGpos,
                    _ => return None,
                });
            }
            Some(m::run_builder(&f, sc, la.as_ref(), simple, &ops))
        }
        "plan" => {
            let seg = segments(toks);
            if seg.len() != 3 || seg[0].len() != 5 {
                return None;
            }
            let f = face(st, seg[0][1])?;
            let dir = match seg[0][2] {
                "l" => Direction::LeftToRight,
                "r" => Direction::RightToLeft,
                "t" => Direction::TopToBottom,
                "b" => Direction::BottomToTop,
                _ => return None,
            };
            let sc = script(seg[0][3])?;
            let la = lang(seg[0][4]);
            let fs = feats(seg[2])?;
            let plan = ShapePlan::new(&f, dir, sc, la.as_ref(), &fs);
            Some(rustybuzz::verif::plan::plan_info(&plan))
        }
        "setmasks" => {
            let len: usize = toks.get(1)?.parse().ok()?;
            let v: Vec<u32> = toks[2..6]
                .iter()
                .map(|x| x.parse().ok())
                .collect::<Option<_>>()?;
            let infos: Option<Vec<(u32, u32)>> = toks[6..]
                .iter()
                .map(|t| {
                    let (a, b) = t.split_once(':')?;
                    Some((a.parse().ok()?, b.parse().ok()?))
                })
                .collect();
            let infos = infos?;
            if len > infos.len() {
                return None;
            }
            let out = rustybuzz::verif::buffer::set_masks_on(&infos, len, v[0], v[1], v[2], v[3]);
            Some(
                out.iter()
                    .map(|x| x.to_string())
                    .collect::<Vec<_>>()
                    .join(" "),
            )
        }
        "shape" => {
            let seg = segments(toks);
            if seg.len() != 5 || seg[0].len() != 2 {
                return None;
            }
            let f = face(st, seg[0][1])?;
            let fs = feats(seg[3])?;
            let mut buf = UnicodeBuffer::new();
            for t in seg[4] {
                let p: Vec<&str> = t.split(':').collect();
                if p.len() != 3 {
                    return None;
                }
                buf.add(
                    char::from_u32(p[0].parse().ok()?)?,
                    p[2].parse().ok()?,
                );
            }
            buf.set_direction(Direction::LeftToRight);
            let gb = rustybuzz::shape(&f, &fs, buf);
            let mut s = format!("ok {}", gb.len());
            for i in gb.glyph_infos() {
                s.push_str(&format!(" {}:{}", i.glyph_id, i.cluster));
            }
            Some(s)
        }
        _ => None,
    }
}
