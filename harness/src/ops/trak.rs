//! AAT `trak` (tracking) through the `verif::ot_shape` hooks.
//!   trak prep <level> <hexcp:cluster,...>
//!        set_unicode_props + form_clusters; reply: ok <cluster.cont,...>      (cont = grapheme continuation bit)
//!   trak apply <fonthex> <ptem> <dir> <level> <t> <cluster.cont.on,...>
//!        hb_aat_layout_track on a bare buffer whose positions start as advance 1000 / offset 0 on both axes;
//!        `t` (the tracking amount at that size, which the crate interpolates in floats) is for the model only.
//!        reply: ok <xa:ya:xo:yo,...>
//!   trak poscx <fonthex> <ptem|-> <dir> <flags> <level> <scratch> <t> <cluster.props.gprops.on,...>
//!        the whole of position_complex (tracking inside position_by_plan, late mark zeroing, default-ignorable zeroing,
//!        finish_offsets, fallback mark positioning) on a bare buffer (advance 1000 / offset 0 on both axes), plan compiled for
//!        the font (default shaper); props = packed unicode_props, gprops = glyph_props; `t` is for the model only.
//!        reply: ok <xa:ya:xo:yo,...>
use super::util::hex_bytes;
use rustybuzz::verif::ot_shape as vs;
use rustybuzz::{Direction, Face};

pub const CMDS: &[&str] = &["trak"];

pub fn handle(toks: &[&str], _st: &mut crate::State) -> Option<String> {
    match *toks.get(1)? {
        "prep" => {
            let level: u32 = toks.get(2)?.parse().ok()?;
            let mut text = vec![];
            for x in toks.get(3)?.split(',') {
                let (c, k) = x.split_once(':')?;
                text.push((u32::from_str_radix(c, 16).ok()?, k.parse().ok()?));
            }
            let r = vs::grapheme_prep(&text, level)?;
            Some(format!(
                "ok {}",
                r.iter()
                    .map(|(k, c)| format!("{}.{}", k, *c as u8))
                    .collect::<Vec<_>>()
                    .join(",")
            ))
        }
        "apply" => {
            let data = hex_bytes(toks.get(2)?)?;
            let ptem: f32 = toks.get(3)?.parse().ok()?;
            let dir = match *toks.get(4)? {
                "l" => Direction::LeftToRight,
                "r" => Direction::RightToLeft,
                "t" => Direction::TopToBottom,
                "b" => Direction::BottomToTop,
                _ => return None,
            };
            let level: u32 = toks.get(5)?.parse().ok()?;
            let mut items = vec![];
            for x in toks.get(7)?.split(',') {
                let p: Vec<&str> = x.split('.').collect();
                if p.len() != 3 {
                    return None;
                }
                items.push((p[0].parse().ok()?, p[1] == "1", p[2] == "1"));
            }
            let mut face = match Face::from_slice(&data, 0) {
                Some(f) => f,
                None => return Some("reject".into()),
            };
            face.set_points_per_em(Some(ptem));
            let r = vs::track_of(&face, dir, level, &items);
            Some(format!(
                "ok {}",
                r.iter()
                    .map(|(a, b, c, d)| format!("{}:{}:{}:{}", a, b, c, d))
                    .collect::<Vec<_>>()
                    .join(",")
            ))
        }
        "poscx" => {
            let data = hex_bytes(toks.get(2)?)?;
            let ptem: Option<f32> = match *toks.get(3)? {
                "-" => None,
                x => Some(x.parse().ok()?),
            };
            let dir = match *toks.get(4)? {
                "l" => Direction::LeftToRight,
                "r" => Direction::RightToLeft,
                "t" => Direction::TopToBottom,
                "b" => Direction::BottomToTop,
                _ => return None,
            };
            let flags: u32 = toks.get(5)?.parse().ok()?;
            let level: u32 = toks.get(6)?.parse().ok()?;
            let scratch: u32 = toks.get(7)?.parse().ok()?;
            let mut items = vec![];
            for x in toks.get(9)?.split(',') {
                let p: Vec<&str> = x.split('.').collect();
                if p.len() != 4 {
                    return None;
                }
                items.push((
                    p[0].parse().ok()?,
                    p[1].parse().ok()?,
                    p[2].parse().ok()?,
                    p[3] == "1",
                ));
            }
            let mut face = match Face::from_slice(&data, 0) {
                Some(f) => f,
                None => return Some("reject".into()),
            };
            face.set_points_per_em(ptem);
            let r = vs::position_complex_of(&face, dir, flags, level, scratch, &items);
            Some(format!(
                "ok {}",
                r.iter()
                    .map(|(a, b, c, d)| format!("{}:{}:{}:{}", a, b, c, d))
                    .collect::<Vec<_>>()
                    .join(",")
            ))
        }
        _ => None,
    }
}
