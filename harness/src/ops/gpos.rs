//! C07 — GPOS / kern positioning primitives through the `verif::gpos` and `verif::kerning` hooks.
//! Positions are tokens `xa:ya:xo:yo:chain:type`; directions `l r t b i` (i = Direction::Invalid).
//! Replies: `ok ...` or (from main.rs) `panic <file>:<line> <msg>`.
//!
//!   gp consts                                             -> ok MARK CURSIVE RIGHT_TO_LEFT IGNORE_MARKS IGNORE_FLAGS
//!                                                              gp:BASE_GLYPH gp:MARK HAS_GPOS_ATTACHMENT up:IGNORABLE MAX_NESTING_LEVEL
//!   gp prop <dir> <len> <i> <pos...>                      one propagate_attachment_offsets call (budget MAX_NESTING_LEVEL) -> ok <pos...>
//!   gp propn <dir> <len> <i> <nesting_level> <pos...>     the same with an explicit nesting budget -> ok <pos...>
//!   gp finish <dir> <len> <has 0|1> <pos...>              GPOS::position_finish_offsets          -> ok <pos...>
//!   gp start <len> <pos...>                               GPOS::position_start                   -> ok <pos...>
//!   gp sub <kind> <hex> <props> <dir> <idx> <infos> <model...> | <pos...>
//!         parses the subtable bytes and applies it at idx through the real Apply impl;
//!         infos = gid:glyph_props:lig_props,...; the <model...> tokens are for the Lean side only
//!         -> ok <applied 0|1> <idx'> <has 0|1> <pos...>
//!   gp subd <ppem_x> <ppem_y> <kind> <hex> <props> <dir> <idx> <infos> <model...> | <pos...>
//!         the same on a face whose pixels-per-em are set (Device tables of value records become active)
//!   gp plan <fontid> <dir>                                 GPOS lookups of the plan (DFLT script, no user features)
//!         -> ok <idx:mask:auto_zwnj:auto_zwj:per_syllable,...|->
//!   gp pos <fontid> <dir> <finish 0|1> <infos> FONT <ints…> MAPS <ints…> | <pos...>
//!         position_start + every GPOS lookup of the plan through the real apply_layout_table driver (one apply
//!         context: the last-base cache lives as long as in shape()) + (finish) position_finish_offsets, on an
//!         injected buffer; infos = gid:mask:glyph_props:lig_props:unicode_props,...; FONT/MAPS are for the Lean side
//!         -> ok <has 0|1> <pos...>
//!   kern mk <dir> <len> <mask> <cross 0|1> <pairs l:r:v,...|-> <infos gid:mask:mark:di,...> | <pos...>
//!         the private machine_kern -> ok <has> <pos...>
//!   kern plan <kernhex> <dir> <kern 0|1|->                -> ok <kern_mask> <requested> <apply_kern>
//!   kern drv <kernhex> <dir> <kern 0|1|-> <mask> <requested> <subs> <infos> | <pos...>
//!         hb_ot_layout_kern on a face whose only layout table is this `kern`; <mask> <requested> must equal
//!         what the plan says (else `plan-mismatch`); <subs> is for the Lean side
//!         -> ok <has> <gids,...> <pos...>
//!   kern f0 <kernhex> <n> <left> <right> <pairs>          glyphs_kerning of subtable n -> ok <value>
//!   kerx plan <kerxhex> <dir> <kern 0|1|->                -> ok <kern_mask> <requested> <apply_kerx>
//!   kerx drv <kerxhex> <dir> <kern 0|1|-> <mask> <requested> <subs> <infos> | <pos...>
//!         aat_layout_kerx_table::apply on a face whose only layout table is this `kerx`; as `kern drv`, but
//!         infos = gid:mask:class:di with class 0 none / 1 base / 2 ligature / 3 mark (glyph_props)
//!         -> ok <has> <gids,...> <pos...>
//!   kerx kv <kerxhex> <n> <left> <right>                  format and glyphs_kerning of subtable n -> ok <format> <value>
use super::util::hex_bytes;
use rustybuzz::ttf_parser;
use rustybuzz::verif::gpos as g;
use rustybuzz::verif::kerning as k;
use rustybuzz::verif::kerx as kx;
use rustybuzz::verif::layout as vl;
use rustybuzz::{Direction, Face, Feature, ShapePlan};

pub const CMDS: &[&str] = &["gp", "kern", "kerx"];

fn dir(s: &str) -> Option<Direction> {
    Some(match s {
        "l" => Direction::LeftToRight,
        "r" => Direction::RightToLeft,
        "t" => Direction::TopToBottom,
        "b" => Direction::BottomToTop,
        "i" => Direction::Invalid,
        _ => return None,
    })
}

fn pos(toks: &[&str]) -> Option<Vec<g::P>> {
    toks.iter()
        .map(|t| {
            let v: Vec<&str> = t.split(':').collect();
            if v.len() != 6 {
                return None;
            }
            Some((
                v[0].parse().ok()?,
                v[1].parse().ok()?,
                v[2].parse().ok()?,
                v[3].parse().ok()?,
                v[4].parse().ok()?,
                v[5].parse().ok()?,
            ))
        })
        .collect()
}

fn fmt_pos(ps: &[g::P]) -> String {
    ps.iter()
        .map(|p| format!("{}:{}:{}:{}:{}:{}", p.0, p.1, p.2, p.3, p.4, p.5))
        .collect::<Vec<_>>()
        .join(" ")
}

fn head() -> Vec<u8> {
    let mut h = vec![0u8; 54];
    h[0] = 0;
    h[1] = 1; // version 1.0
    h[12] = 0x5F;
    h[13] = 0x0F;
    h[14] = 0x3C;
    h[15] = 0xF5; // magic
    h[18] = 0x03;
    h[19] = 0xE8; // unitsPerEm = 1000
    h
}

fn with_face<R>(kern: Option<&[u8]>, f: impl FnOnce(&Face) -> R) -> Option<R> {
    with_face2(kern, None, f)
}

fn with_face2<R>(kern: Option<&[u8]>, kerx: Option<&[u8]>, f: impl FnOnce(&Face) -> R) -> Option<R> {
    let head = head();
    let mut hhea = vec![0u8; 36];
    hhea[1] = 1;
    hhea[35] = 1;
    let maxp = [0u8, 0, 0x50, 0, 0xFF, 0xFF]; // version 0.5, 65535 glyphs
    let raw = ttf_parser::RawFaceTables {
        head: &head,
        hhea: &hhea,
        maxp: &maxp,
        kern,
        kerx,
        ..Default::default()
    };
    let tf = ttf_parser::Face::from_raw_tables(raw).ok()?;
    let face = Face::from_face(tf);
    Some(f(&face))
}

fn split_bar<'a, 'b>(toks: &'b [&'a str]) -> Option<(&'b [&'a str], &'b [&'a str])> {
    let i = toks.iter().position(|t| *t == "|")?;
    Some((&toks[..i], &toks[i + 1..]))
}

fn kern_feats(s: &str) -> Vec<Feature> {
    match s {
        "0" => vec![Feature::new(ttf_parser::Tag::from_bytes(b"kern"), 0, ..)],
        "1" => vec![Feature::new(ttf_parser::Tag::from_bytes(b"kern"), 1, ..)],
        _ => vec![],
    }
}

fn kinfos(s: &str) -> Option<Vec<k::I>> {
    if s == "-" {
        return Some(vec![]);
    }
    s.split(',')
        .map(|t| {
            let v: Vec<&str> = t.split(':').collect();
            if v.len() != 4 {
                return None;
            }
            let mark: u8 = v[2].parse().ok()?;
            let di: u8 = v[3].parse().ok()?;
            // glyph_props: MARK / BASE_GLYPH; unicode_props: IGNORABLE with general category
            // OtherLetter (low 5 bits = 7) so that it is not a format (ZWJ/ZWNJ) character
            let c = g::consts();
            Some((
                v[0].parse().ok()?,
                v[1].parse().ok()?,
                if mark != 0 { c[6] as u16 } else { c[5] as u16 },
                if di != 0 { c[8] as u16 | 7 } else { 7 },
            ))
        })
        .collect()
}

/// gid:mask:class:di with class 0 none / 1 base glyph / 2 ligature / 3 mark
fn kxinfos(s: &str) -> Option<Vec<kx::I>> {
    if s == "-" {
        return Some(vec![]);
    }
    s.split(',')
        .map(|t| {
            let v: Vec<&str> = t.split(':').collect();
            if v.len() != 4 {
                return None;
            }
            let class: u8 = v[2].parse().ok()?;
            let di: u8 = v[3].parse().ok()?;
            let c = g::consts();
            let props: u16 = match class {
                0 => 0,
                1 => c[5] as u16,
                2 => 4, // GlyphPropsFlags::LIGATURE
                _ => c[6] as u16,
            };
            Some((
                v[0].parse().ok()?,
                v[1].parse().ok()?,
                props,
                if di != 0 { c[8] as u16 | 7 } else { 7 },
            ))
        })
        .collect()
}

fn font_plan(st: &crate::State, id: &str, d: Direction) -> Option<(Face<'static>, ShapePlan)> {
    let data: &'static [u8] = st.fonts.get(id)?;
    let face = Face::from_slice(data, 0)?;
    let plan = ShapePlan::new(&face, d, None, None, &[]);
    Some((face, plan))
}

pub fn handle(toks: &[&str], st: &mut crate::State) -> Option<String> {
    match (toks[0], *toks.get(1)?) {
        ("gp", "plan") => {
            let d = dir(toks.get(3)?)?;
            let (_face, plan) = font_plan(st, toks.get(2)?, d)?;
            let v: Vec<String> = vl::plan_lookups(&plan, true)
                .iter()
                .map(|l| format!("{}:{}:{}:{}:{}", l.1, l.2, l.3 as u8, l.4 as u8, l.6 as u8))
                .collect();
            Some(format!("ok {}", if v.is_empty() { "-".to_string() } else { v.join(",") }))
        }
        ("gp", "pos") => {
            let d = dir(toks.get(3)?)?;
            let (face, plan) = font_plan(st, toks.get(2)?, d)?;
            let finish = *toks.get(4)? == "1";
            let infos: Option<Vec<(u32, u32, u16, u8, u16)>> = toks
                .get(5)?
                .split(',')
                .map(|t| {
                    let v: Vec<&str> = t.split(':').collect();
                    if v.len() != 5 {
                        return None;
                    }
                    Some((
                        v[0].parse().ok()?,
                        v[1].parse().ok()?,
                        v[2].parse().ok()?,
                        v[3].parse().ok()?,
                        v[4].parse().ok()?,
                    ))
                })
                .collect();
            let infos = infos?;
            let (_, ptoks) = split_bar(&toks[6..])?;
            let p = pos(ptoks)?;
            if p.len() != infos.len() {
                return None;
            }
            let (ps, has) = g::position_buffer(&face, &plan, d, &infos, &p, finish);
            Some(format!("ok {} {}", has as u8, fmt_pos(&ps)))
        }
        ("gp", "consts") => Some(format!(
            "ok {} {}",
            g::consts().iter().map(|x| x.to_string()).collect::<Vec<_>>().join(" "),
            g::max_nesting_level()
        )),
        ("gp", "propn") => {
            let d = dir(toks.get(2)?)?;
            let len: usize = toks.get(3)?.parse().ok()?;
            let i: usize = toks.get(4)?.parse().ok()?;
            let nl: usize = toks.get(5)?.parse().ok()?;
            let p = pos(&toks[6..])?;
            Some(format!("ok {}", fmt_pos(&g::propagate_level(&p, len, i, d, nl))))
        }
        ("gp", "prop") => {
            let d = dir(toks.get(2)?)?;
            let len: usize = toks.get(3)?.parse().ok()?;
            let i: usize = toks.get(4)?.parse().ok()?;
            let p = pos(&toks[5..])?;
            Some(format!("ok {}", fmt_pos(&g::propagate(&p, len, i, d))))
        }
        ("gp", "finish") => {
            let d = dir(toks.get(2)?)?;
            let len: usize = toks.get(3)?.parse().ok()?;
            let has = *toks.get(4)? == "1";
            let p = pos(&toks[5..])?;
            with_face(None, |f| format!("ok {}", fmt_pos(&g::finish_offsets(f, &p, len, d, has))))
        }
        ("gp", "start") => {
            let len: usize = toks.get(2)?.parse().ok()?;
            let p = pos(&toks[3..])?;
            with_face(None, |f| format!("ok {}", fmt_pos(&g::position_start(f, &p, len))))
        }
        ("gp", "sub") => {
            let kind: u16 = toks.get(2)?.parse().ok()?;
            let data = hex_bytes(toks.get(3)?)?;
            let props: u32 = toks.get(4)?.parse().ok()?;
            let d = dir(toks.get(5)?)?;
            let idx: usize = toks.get(6)?.parse().ok()?;
            let infos: Option<Vec<(u32, u16, u8)>> = toks
                .get(7)?
                .split(',')
                .map(|t| {
                    let v: Vec<&str> = t.split(':').collect();
                    if v.len() != 3 {
                        return None;
                    }
                    Some((v[0].parse().ok()?, v[1].parse().ok()?, v[2].parse().ok()?))
                })
                .collect();
            let infos = infos?;
            let (_, ptoks) = split_bar(&toks[8..])?;
            let p = pos(ptoks)?;
            with_face(None, |f| {
                match g::apply_subtable(f, kind, &data, props, d, &infos, &p, idx) {
                    Some((applied, idx2, ps, has)) => {
                        format!("ok {} {} {} {}", applied as u8, idx2, has as u8, fmt_pos(&ps))
                    }
                    None => "unparsed".to_string(),
                }
            })
        }
        ("gp", "subd") => {
            let ppx: u16 = toks.get(2)?.parse().ok()?;
            let ppy: u16 = toks.get(3)?.parse().ok()?;
            let kind: u16 = toks.get(4)?.parse().ok()?;
            let data = hex_bytes(toks.get(5)?)?;
            let props: u32 = toks.get(6)?.parse().ok()?;
            let d = dir(toks.get(7)?)?;
            let idx: usize = toks.get(8)?.parse().ok()?;
            let infos: Option<Vec<(u32, u16, u8)>> = toks
                .get(9)?
                .split(',')
                .map(|t| {
                    let v: Vec<&str> = t.split(':').collect();
                    if v.len() != 3 {
                        return None;
                    }
                    Some((v[0].parse().ok()?, v[1].parse().ok()?, v[2].parse().ok()?))
                })
                .collect();
            let infos = infos?;
            let (_, ptoks) = split_bar(&toks[10..])?;
            let p = pos(ptoks)?;
            let head = head();
            let mut hhea = vec![0u8; 36];
            hhea[1] = 1;
            hhea[35] = 1;
            let maxp = [0u8, 0, 0x50, 0, 0xFF, 0xFF];
            let raw = ttf_parser::RawFaceTables {
                head: &head,
                hhea: &hhea,
                maxp: &maxp,
                ..Default::default()
            };
            let tf = ttf_parser::Face::from_raw_tables(raw).ok()?;
            let mut face = Face::from_face(tf);
            face.set_pixels_per_em(Some((ppx, ppy)));
            Some(
                match g::apply_subtable(&face, kind, &data, props, d, &infos, &p, idx) {
                    Some((applied, idx2, ps, has)) => {
                        format!("ok {} {} {} {}", applied as u8, idx2, has as u8, fmt_pos(&ps))
                    }
                    None => "unparsed".to_string(),
                },
            )
        }
        ("kern", "mk") => {
            let d = dir(toks.get(2)?)?;
            let len: usize = toks.get(3)?.parse().ok()?;
            let mask: u32 = toks.get(4)?.parse().ok()?;
            let cross = *toks.get(5)? == "1";
            let mut pairs = vec![];
            if *toks.get(6)? != "-" {
                for t in toks[6].split(',') {
                    let v: Vec<&str> = t.split(':').collect();
                    if v.len() != 3 {
                        return None;
                    }
                    pairs.push((v[0].parse().ok()?, v[1].parse().ok()?, v[2].parse().ok()?));
                }
            }
            let infos = kinfos(toks.get(7)?)?;
            let (_, ptoks) = split_bar(&toks[8..])?;
            let p = pos(ptoks)?;
            with_face(None, |f| {
                let (ps, has) = k::machine_kern_pairs(f, &infos, &p, len, mask, cross, d, &pairs);
                format!("ok {} {}", has as u8, fmt_pos(&ps))
            })
        }
        ("kern", "plan") => {
            let data = hex_bytes(toks.get(2)?)?;
            let d = dir(toks.get(3)?)?;
            let feats = kern_feats(toks.get(4)?);
            with_face(Some(&data), |f| {
                let plan = ShapePlan::new(f, d, None, None, &feats);
                let (mask, req, apply, _, _) = k::plan_kern(&plan);
                format!("ok {} {} {}", mask, req as u8, apply as u8)
            })
        }
        ("kern", "drv") => {
            let data = hex_bytes(toks.get(2)?)?;
            let d = dir(toks.get(3)?)?;
            let feats = kern_feats(toks.get(4)?);
            let mask: u32 = toks.get(5)?.parse().ok()?;
            let req = *toks.get(6)? == "1";
            let infos = kinfos(toks.get(8)?)?;
            let (_, ptoks) = split_bar(&toks[9..])?;
            let p = pos(ptoks)?;
            with_face(Some(&data), |f| {
                let plan = ShapePlan::new(f, d, None, None, &feats);
                let (m, r, _, _, _) = k::plan_kern(&plan);
                if m != mask || r != req {
                    return format!("plan-mismatch {} {}", m, r as u8);
                }
                let (gids, ps, has) = k::kern_driver(&plan, f, &infos, &p, infos.len(), d);
                let gs = gids.iter().map(|x| x.to_string()).collect::<Vec<_>>().join(",");
                format!(
                    "ok {} {} {}",
                    has as u8,
                    if gs.is_empty() { "-".to_string() } else { gs },
                    fmt_pos(&ps)
                )
            })
        }
        ("kerx", "plan") => {
            let data = hex_bytes(toks.get(2)?)?;
            let d = dir(toks.get(3)?)?;
            let feats = kern_feats(toks.get(4)?);
            with_face2(None, Some(&data), |f| {
                let plan = ShapePlan::new(f, d, None, None, &feats);
                let (mask, req, _, _, _) = k::plan_kern(&plan);
                format!("ok {} {} {}", mask, req as u8, kx::plan_apply_kerx(&plan) as u8)
            })
        }
        ("kerx", "drv") => {
            let data = hex_bytes(toks.get(2)?)?;
            let d = dir(toks.get(3)?)?;
            let feats = kern_feats(toks.get(4)?);
            let mask: u32 = toks.get(5)?.parse().ok()?;
            let req = *toks.get(6)? == "1";
            let infos = kxinfos(toks.get(8)?)?;
            let (_, ptoks) = split_bar(&toks[9..])?;
            let p = pos(ptoks)?;
            with_face2(None, Some(&data), |f| {
                let plan = ShapePlan::new(f, d, None, None, &feats);
                let (m, r, _, _, _) = k::plan_kern(&plan);
                if m != mask || r != req {
                    return format!("plan-mismatch {} {}", m, r as u8);
                }
                let (gids, ps, has) = kx::kerx_driver(&plan, f, &infos, &p, infos.len(), d);
                let gs = gids.iter().map(|x| x.to_string()).collect::<Vec<_>>().join(",");
                format!(
                    "ok {} {} {}",
                    has as u8,
                    if gs.is_empty() { "-".to_string() } else { gs },
                    fmt_pos(&ps)
                )
            })
        }
        ("kerx", "kv") => {
            let data = hex_bytes(toks.get(2)?)?;
            let n: usize = toks.get(3)?.parse().ok()?;
            let l: u16 = toks.get(4)?.parse().ok()?;
            let r: u16 = toks.get(5)?.parse().ok()?;
            with_face2(None, Some(&data), |f| match kx::subtable_kerning(f, n, l, r) {
                Some((fmt, v)) => format!("ok {} {}", fmt, v),
                None => "none".to_string(),
            })
        }
        ("kern", "f0") => {
            let data = hex_bytes(toks.get(2)?)?;
            let n: usize = toks.get(3)?.parse().ok()?;
            let l: u16 = toks.get(4)?.parse().ok()?;
            let r: u16 = toks.get(5)?.parse().ok()?;
            with_face(Some(&data), |f| match k::subtable_kerning(f, n, l, r) {
                Some(v) => format!("ok {}", v),
                None => "none".to_string(),
            })
        }
        _ => None,
    }
}
