//! C18 / C01(tag): script + language -> OpenType tags -> script / langsys records of a font.
//! Strings travel as `x<hex of the utf-8 bytes>` (`-` = absent, `x` = empty); tags are decimal u32.
//!   tags <script|-> <lang|->          -> ok s:<t,t,..> l:<t,t,..>      (verif::tag::tags; lang goes through Language::from_str)
//!   tagslang <lang>                   -> ok <t,t,..> | none              (tags_from_language on an empty vector)
//!   langcmp <a> <b>                   -> -1 | 0 | 1
//!   complex <lang>                    -> <0|1> <t,t,..>                  (tags_from_complex_language, string as is)
//!   private <subtag|-> <0|1>          -> <0|1> <t,t,..>                  (parse_private_use_subtag; 0 = -hbsc, 1 = -hbot)
//!   scripttags <script|->             -> <t,t,..>                        (all_tags_from_script)
//!   langtable                         -> <hex>:<tag> ...                 (the compiled OPEN_TYPE_LANGUAGES, in order)
//!   shaper <script> <dir 0..3> <gsub script|->   -> name                 (hb_ot_shape_complex_categorize)
//!   tagsel <fonthex> <abstract> <t 0|1> <script tags|-> <lang tags|->
//!         -> notable | nosel | <found 0|1> <script index> <chosen tag> <lang index|-> <req index:req tag|->
//!         (the model reads <abstract>, the crate parses <fonthex>; both are produced from one recipe)
//!   tagfeat <fonthex> <abstract> <t> <script index> <lang index|-> <feature tag>  -> notable | - | <feature index>
//!   tagplan <fonthex> <abstract> <dir 0..3> <script|-> <lang|->
//!         -> <shaper> <gsub: found,scriptidx,chosen,langidx,reqidx:reqtag> <gpos: ...>   (ot_map builder + plan)
//!   tagresolve <fonthex> <abstract> <dir 0..3> <script|-> <lang|-> <tag,tag,..>
//!         -> per tag `<gsub feature index|->/<gpos feature index|->` of the feature_map_t the plan compiled for it,
//!            `x` when the compiled map has no entry for the tag        (ShapePlan::new + verif::plan::plan_info)
//! An empty list is printed as `-`.
use super::util::hex_bytes;
use rustybuzz::verif as v;
use rustybuzz::{Direction, Face, Language, Script, ShapePlan};
use std::str::FromStr;

pub const CMDS: &[&str] = &[
    "tags",
    "tagslang",
    "langcmp",
    "complex",
    "private",
    "scripttags",
    "langtable",
    "shaper",
    "tagsel",
    "tagfeat",
    "tagplan",
    "tagresolve",
];

fn xs(t: &str) -> Option<Option<String>> {
    if t == "-" {
        return Some(None);
    }
    let b = hex_bytes(t.strip_prefix('x')?)?;
    Some(Some(String::from_utf8(b).ok()?))
}

fn opt_u32(t: &str) -> Option<Option<u32>> {
    if t == "-" {
        Some(None)
    } else {
        Some(Some(t.parse().ok()?))
    }
}

fn list(t: &str) -> Option<Vec<u32>> {
    if t == "-" {
        return Some(vec![]);
    }
    t.split(',').map(|x| x.parse().ok()).collect()
}

fn join(v: &[u32]) -> String {
    if v.is_empty() {
        "-".into()
    } else {
        v.iter().map(|x| x.to_string()).collect::<Vec<_>>().join(",")
    }
}

fn ou<T: ToString>(x: Option<T>) -> String {
    x.map_or("-".into(), |v| v.to_string())
}

fn hex(s: &str) -> String {
    s.bytes().map(|b| format!("{:02x}", b)).collect()
}

fn dir(d: &str) -> Option<(u8, Direction)> {
    Some(match d {
        "0" => (0, Direction::LeftToRight),
        "1" => (1, Direction::RightToLeft),
        "2" => (2, Direction::TopToBottom),
        "3" => (3, Direction::BottomToTop),
        _ => return None,
    })
}

pub fn handle(toks: &[&str], _st: &mut crate::State) -> Option<String> {
    match toks[0] {
        "tags" => {
            let sc = opt_u32(toks.get(1)?)?;
            let l = xs(toks.get(2)?)?;
            let (s, l) = v::tag::tags(sc, l.as_deref());
            Some(format!("ok s:{} l:{}", join(&s), join(&l)))
        }
        "tagslang" => {
            let l = xs(toks.get(1)?)??;
            Some(match v::tag::tags_from_language(&l) {
                Some(t) => format!("ok {}", join(&t)),
                None => "none".into(),
            })
        }
        "langcmp" => {
            let a = xs(toks.get(1)?)??;
            let b = xs(toks.get(2)?)??;
            Some(v::tag::lang_cmp(&a, &b).to_string())
        }
        "complex" => {
            let l = xs(toks.get(1)?)??;
            let (r, t) = v::tag::tags_from_complex_language(&l);
            Some(format!("{} {}", r as u8, join(&t)))
        }
        "private" => {
            let l = xs(toks.get(1)?)?;
            let w: u8 = toks.get(2)?.parse().ok()?;
            let (r, t) = v::tag::parse_private_use_subtag(l.as_deref(), w);
            Some(format!("{} {}", r as u8, join(&t)))
        }
        "scripttags" => Some(join(&v::tag::all_tags_from_script(opt_u32(toks.get(1)?)?))),
        "langtable" => Some(
            v::tag::lang_table()
                .iter()
                .map(|(l, t)| format!("{}:{}", hex(l), t))
                .collect::<Vec<_>>()
                .join(" "),
        ),
        "shaper" => {
            let sc: u32 = toks.get(1)?.parse().ok()?;
            let (d, _) = dir(toks.get(2)?)?;
            let g = opt_u32(toks.get(3)?)?;
            Some(v::shaper::categorize(sc, d, g).into())
        }
        "tagsel" => {
            let data = hex_bytes(toks.get(1)?)?;
            let face = match Face::from_slice(&data, 0) {
                Some(f) => f,
                None => return Some("reject".into()),
            };
            let t: usize = toks.get(3)?.parse().ok()?;
            let st = list(toks.get(4)?)?;
            let lt = list(toks.get(5)?)?;
            Some(match v::layout::select(&face, t, &st, &lt) {
                None => "notable".into(),
                Some(None) => "nosel".into(),
                Some(Some(s)) => format!(
                    "{} {} {} {} {}",
                    s.found as u8,
                    s.script_index,
                    s.chosen_script,
                    ou(s.lang_index),
                    s.required
                        .map_or("-".into(), |(i, t)| format!("{}:{}", i, t))
                ),
            })
        }
        "tagfeat" => {
            let data = hex_bytes(toks.get(1)?)?;
            let face = match Face::from_slice(&data, 0) {
                Some(f) => f,
                None => return Some("reject".into()),
            };
            let t: usize = toks.get(3)?.parse().ok()?;
            let si: u16 = toks.get(4)?.parse().ok()?;
            let li = opt_u32(toks.get(5)?)?.map(|x| x as u16);
            let ft: u32 = toks.get(6)?.parse().ok()?;
            Some(match v::layout::find_language_feature(&face, t, si, li, ft) {
                None => "notable".into(),
                Some(x) => ou(x),
            })
        }
        "tagplan" => {
            let data = hex_bytes(toks.get(1)?)?;
            let face = match Face::from_slice(&data, 0) {
                Some(f) => f,
                None => return Some("reject".into()),
            };
            let (_, d) = dir(toks.get(3)?)?;
            let sc = opt_u32(toks.get(4)?)?
                .map(|t| Script::from_iso15924_tag(rustybuzz::ttf_parser::Tag(t)));
            let sc = match sc {
                Some(None) => return Some("reject-script".into()),
                Some(Some(s)) => Some(s),
                None => None,
            };
            let l = xs(toks.get(5)?)?.and_then(|s| Language::from_str(&s).ok());
            let sel = v::map::builder_selection(&face, sc, l.as_ref());
            let plan = ShapePlan::new(&face, d, sc, l.as_ref(), &[]);
            let (name, chosen, found) = v::plan::plan_scripts(&plan);
            // required feature of the selected langsys, read through the per-table hook with the same tag lists
            let (st, lt) = v::tag::tags(sc.map(|s| s.tag().as_u32()), l.as_ref().map(|l| l.as_str()));
            let f = |i: usize| {
                let x = &sel[i];
                let req = match v::layout::select(&face, i, &st, &lt) {
                    Some(Some(s)) => {
                        if (s.found, Some(s.script_index), Some(s.chosen_script), s.lang_index)
                            != (x.0, x.1, x.2, x.3)
                        {
                            "MISMATCH".to_string()
                        } else {
                            s.required.map_or("-".into(), |(i, t)| format!("{}:{}", i, t))
                        }
                    }
                    _ => {
                        if x.1.is_some() {
                            "MISMATCH".to_string()
                        } else {
                            "-".into()
                        }
                    }
                };
                // the compiled plan must carry the same chosen script / found flag as the builder
                let planok = chosen[i] == x.2 && found[i] == x.0;
                format!(
                    "{},{},{},{},{}{}",
                    x.0 as u8,
                    ou(x.1),
                    ou(x.2),
                    ou(x.3),
                    req,
                    if planok { "" } else { ",PLAN-MISMATCH" }
                )
            };
            Some(format!("{} {} {}", name, f(0), f(1)))
        }
        "tagresolve" => {
            let data = hex_bytes(toks.get(1)?)?;
            let face = match Face::from_slice(&data, 0) {
                Some(f) => f,
                None => return Some("reject".into()),
            };
            let (_, d) = dir(toks.get(3)?)?;
            let sc = opt_u32(toks.get(4)?)?
                .map(|t| Script::from_iso15924_tag(rustybuzz::ttf_parser::Tag(t)));
            let sc = match sc {
                Some(None) => return Some("reject-script".into()),
                Some(Some(s)) => Some(s),
                None => None,
            };
            let l = xs(toks.get(5)?)?.and_then(|s| Language::from_str(&s).ok());
            let tags = list(toks.get(6)?)?;
            let plan = ShapePlan::new(&face, d, sc, l.as_ref(), &[]);
            // `g=.. F <tag:i0:i1:..>* ; L0 ..` — the feature maps of the compiled plan
            let info = v::plan::plan_info(&plan);
            let feats: Vec<Vec<&str>> = info
                .split(" ; ")
                .next()?
                .split(' ')
                .skip(2)
                .map(|f| f.split(':').collect())
                .collect();
            Some(
                tags.iter()
                    .map(|t| {
                        let t = t.to_string();
                        match feats.iter().find(|f| f[0] == t) {
                            Some(f) => format!("{}/{}", f[1], f[2]),
                            None => "x".into(),
                        }
                    })
                    .collect::<Vec<_>>()
                    .join(" "),
            )
        }
        _ => None,
    }
}
