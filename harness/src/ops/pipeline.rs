//! Default-shaper pipeline on fonts WITHOUT layout tables (C13 default ignorables, C16 cmap + metrics).
//! All requests are stateless (the font travels with the request as hex + as a recipe the model reads).
//!
//! char token  C := cp.gc.mcc.fl.sf.mir.vert      (decimal; fl: 1 = Extended_Pictographic, 2 = takes part in
//!                  canonical (de)composition; sf = space fallback type; mir/vert = mirrored / vertical form, 0 = none)
//!                  rbshim CHECKS every field against the crate's own Unicode functions (`bad-ucd` otherwise);
//!                  the Lean model READS them (its Unicode data are parameters).
//! item token  I := gid.props.gprops:cluster       (props = packed unicode_props u16)
//!
//!   pl di <cp>                          -> 0|1            is_default_ignorable (hook)
//!   pl discan <lo> <hi>                 -> a-b a-b ... | -   maximal DI ranges inside [lo,hi)
//!   pl consts                           -> NAME=value ...
//!   pl mactable                         -> 128 numbers (UNICODE_TO_MACROMAN)
//!   pl cprops <cp>                      -> gc mcc di fl sf mir vert vs   (what a char token must contain)
//!   pl hdir <script4>                   -> 4|5|0          Direction::from_script
//!   pl uinit <C>                        -> <props> <scratch>          init_unicode_props
//!   pl useq <C,C,...>                   -> <scratch> p p p ...        set_unicode_props
//!   pl fc <level> <I,I,...>             -> clusters                   form_clusters
//!   pl rg <level> <I,I,...>             -> gid:cluster ...            _hb_ot_layout_reverse_graphemes
//!   pl del <level> <I,I,...>            -> gid:cluster:tag ...        delete_glyphs_inplace(is_default_ignorable)
//!   pl cmap <hex> <recipe> <cp,cp,...>  -> <best|-> g g - g ...       find_best_cmap_subtable + get_nominal_glyph
//!   pl metrics <hex> <recipe> <g,g,...> -> ha:va:ho:vo ...            glyph_h/v_advance, glyph_h/v_origin
//!   pl shape <hex> <recipe> <dir> <script4> <nat> <flags> <level> <npre> <C:cluster,...|-> <C,C,...|->
//!        (last field: char tokens of further code points the pipeline may look at, e.g. U+25CC)
//!                                       -> ok <n> gid:cluster:xa:ya:xo:yo ... | oos | reject
//!        through the PUBLIC api shape(); `nat` (4/5/0) must equal Direction::from_script(script) (`bad-nat`);
//!        `oos` when the normalizer could act on the text (decomposition / composition / ccc != 0): outside
//!        the pipeline model (C09 covers it).
use super::util::hex_bytes;
use rustybuzz::ttf_parser::Tag;
use rustybuzz::verif::{face as vface, ot_shape as vshape, unicode as vuni};
use rustybuzz::{BufferClusterLevel, BufferFlags, Direction, Face, Script, UnicodeBuffer};

pub const CMDS: &[&str] = &["pl"];

fn num(s: &str) -> Option<u32> {
    s.parse().ok()
}

/// parses a char token and checks it against the crate; Ok(cp) / Err(reply)
fn chr(tok: &str) -> Result<u32, String> {
    let f: Vec<&str> = tok.split('.').collect();
    if f.len() != 7 {
        return Err("bad-op".into());
    }
    let v: Option<Vec<u32>> = f.iter().map(|x| num(x)).collect();
    let v = v.ok_or("bad-op")?;
    let p = vuni::char_props(v[0]).ok_or("bad-ucd")?;
    let fl = (p.3 as u32) | ((p.8 as u32) << 1);
    let ok = v[1] == p.0
        && v[2] == p.1 as u32
        && v[3] == fl
        && v[4] == p.4 as u32
        && v[5] == p.5.unwrap_or(0)
        && v[6] == p.6.unwrap_or(0);
    if ok {
        Ok(v[0])
    } else {
        Err("bad-ucd".into())
    }
}

fn items(tok: &str) -> Option<Vec<vshape::Item>> {
    if tok == "-" {
        return Some(vec![]);
    }
    tok.split(',')
        .map(|t| {
            let (a, cl) = t.split_once(':')?;
            let f: Vec<&str> = a.split('.').collect();
            if f.len() != 3 {
                return None;
            }
            Some((num(f[0])?, num(cl)?, num(f[1])? as u16, num(f[2])? as u16))
        })
        .collect()
}

fn join<T: ToString>(v: impl Iterator<Item = T>) -> String {
    let s: Vec<String> = v.map(|x| x.to_string()).collect();
    if s.is_empty() {
        "-".into()
    } else {
        s.join(" ")
    }
}

fn face_of(hex: &str) -> Option<(&'static [u8], Face<'static>)> {
    let data = hex_bytes(hex)?;
    // leaked on purpose: requests are short-lived processes and fonts are < 4 KB
    let data: &'static [u8] = Box::leak(data.into_boxed_slice());
    let face = Face::from_slice(data, 0)?;
    Some((data, face))
}

pub fn handle(toks: &[&str], _st: &mut crate::State) -> Option<String> {
    let t = &toks[1..];
    match *t.first()? {
        "di" => Some((vuni::is_default_ignorable_u32(num(t.get(1)?)?) as u8).to_string()),
        "discan" => {
            let r = vuni::default_ignorable_ranges(num(t.get(1)?)?, num(t.get(2)?)?);
            Some(join(r.iter().map(|(a, b)| format!("{}-{}", a, b))))
        }
        "consts" => Some(join(
            vuni::constants()
                .iter()
                .map(|(k, v)| format!("{}={}", k, v))
                .chain(
                    [
                        ("BF_BOT", BufferFlags::BEGINNING_OF_TEXT.bits()),
                        ("BF_PRESERVE", BufferFlags::PRESERVE_DEFAULT_IGNORABLES.bits()),
                        ("BF_REMOVE", BufferFlags::REMOVE_DEFAULT_IGNORABLES.bits()),
                        ("BF_NO_DOTTED", BufferFlags::DO_NOT_INSERT_DOTTED_CIRCLE.bits()),
                    ]
                    .iter()
                    .map(|(k, v)| format!("{}={}", k, v)),
                ),
        )),
        "mactable" => Some(join(vface::macroman_table().iter())),
        "cprops" => {
            let c = num(t.get(1)?)?;
            match vuni::char_props(c) {
                None => Some("none".into()),
                Some(p) => Some(format!(
                    "{} {} {} {} {} {} {} {}",
                    p.0,
                    p.1,
                    p.2 as u8,
                    (p.3 as u32) | ((p.8 as u32) << 1),
                    p.4,
                    p.5.unwrap_or(0),
                    p.6.unwrap_or(0),
                    p.7 as u8
                )),
            }
        }
        "hdir" => {
            let b = t.get(1)?.as_bytes();
            if b.len() != 4 {
                return None;
            }
            let s = Script::from_iso15924_tag(Tag::from_bytes(&[b[0], b[1], b[2], b[3]]))?;
            Some(vshape::script_horizontal_direction(s).to_string())
        }
        "uinit" => {
            let c = match chr(t.get(1)?) {
                Ok(c) => c,
                Err(e) => return Some(e),
            };
            let (p, f) = vshape::init_props(c)?;
            Some(format!("{} {}", p, f))
        }
        "useq" => {
            let mut cps = vec![];
            for x in t.get(1)?.split(',') {
                match chr(x) {
                    Ok(c) => cps.push(c),
                    Err(e) => return Some(e),
                }
            }
            let (ps, f) = vshape::unicode_props_of_text(&cps)?;
            Some(format!("{} {}", f, join(ps.iter())))
        }
        "fc" => {
            let level = num(t.get(1)?)?;
            let it = items(t.get(2)?)?;
            Some(join(vshape::form_clusters_of(&it, level).iter()))
        }
        "rg" => {
            let level = num(t.get(1)?)?;
            let it = items(t.get(2)?)?;
            Some(join(
                vshape::reverse_graphemes_of(&it, level)
                    .iter()
                    .map(|(g, c)| format!("{}:{}", g, c)),
            ))
        }
        "del" => {
            let level = num(t.get(1)?)?;
            let it = items(t.get(2)?)?;
            Some(join(
                vshape::delete_default_ignorables_of(&it, level)
                    .iter()
                    .map(|(g, c, x)| format!("{}:{}:{}", g, c, x)),
            ))
        }
        "cmap" => {
            let (_, face) = match face_of(t.get(1)?) {
                Some(x) => x,
                None => return Some("reject".into()),
            };
            let best = vface::best_cmap_subtable(&face);
            let mut out = vec![best.map(|b| b.to_string()).unwrap_or("-".into())];
            for c in t.get(3)?.split(',') {
                out.push(
                    vface::nominal_glyph(&face, num(c)?)
                        .map(|g| g.to_string())
                        .unwrap_or("-".into()),
                );
            }
            Some(out.join(" "))
        }
        "metrics" => {
            let (_, face) = match face_of(t.get(1)?) {
                Some(x) => x,
                None => return Some("reject".into()),
            };
            let mut out = vec![];
            for g in t.get(3)?.split(',') {
                let m = vface::glyph_metrics(&face, num(g)? as u16);
                out.push(format!("{}:{}:{}:{}", m.0, m.1, m.2, m.3));
            }
            Some(out.join(" "))
        }
        "shape" => {
            if t.len() < 11 {
                return None;
            }
            if t[10] != "-" {
                for x in t[10].split(',') {
                    if let Err(e) = chr(x) {
                        return Some(e);
                    }
                }
            }
            let (_, face) = match face_of(t[1]) {
                Some(x) => x,
                None => return Some("reject".into()),
            };
            let dir = match t[3] {
                "l" => Direction::LeftToRight,
                "r" => Direction::RightToLeft,
                "t" => Direction::TopToBottom,
                "b" => Direction::BottomToTop,
                _ => return None,
            };
            let sb = t[4].as_bytes();
            if sb.len() != 4 {
                return None;
            }
            let script = Script::from_iso15924_tag(Tag::from_bytes(&[sb[0], sb[1], sb[2], sb[3]]))?;
            if vshape::script_horizontal_direction(script) as u32 != num(t[5])? {
                return Some("bad-nat".into());
            }
            let flags = num(t[6])?;
            let level = num(t[7])?;
            let npre = num(t[8])?;
            let mut buf = UnicodeBuffer::new();
            let mut chars = vec![];
            if t[9] != "-" {
                for x in t[9].split(',') {
                    let (c, cl) = x.split_once(':')?;
                    let cp = match chr(c) {
                        Ok(c) => c,
                        Err(e) => return Some(e),
                    };
                    let ch = char::from_u32(cp)?;
                    chars.push(ch);
                    buf.add(ch, num(cl)?);
                }
            }
            if vuni::normalizer_may_act(&chars) {
                return Some("oos".into());
            }
            if npre > 0 {
                let pre: String = std::iter::repeat('x').take(npre as usize).collect();
                buf.set_pre_context(&pre);
            }
            buf.set_direction(dir);
            buf.set_script(script);
            buf.set_flags(BufferFlags::from_bits_retain(flags));
            buf.set_cluster_level(match level {
                0 => BufferClusterLevel::MonotoneGraphemes,
                1 => BufferClusterLevel::MonotoneCharacters,
                _ => BufferClusterLevel::Characters,
            });
            let gb = rustybuzz::shape(&face, &[], buf);
            let mut s = format!("ok {}", gb.len());
            for (i, p) in gb.glyph_infos().iter().zip(gb.glyph_positions()) {
                s.push_str(&format!(
                    " {}:{}:{}:{}:{}:{}",
                    i.glyph_id, i.cluster, p.x_advance, p.y_advance, p.x_offset, p.y_offset
                ));
            }
            Some(s)
        }
        _ => None,
    }
}
