//! C18: ISO 15924 code -> Script, through the public API.
//!   scriptiso <tag as decimal u32>   -> none | <tag of the Script>     (Script::from_iso15924_tag)
//!   scriptstr <x<hex of utf-8>>      -> err | <tag of the Script>      (<Script as FromStr>::from_str; `x` = empty string)
use super::util::hex_bytes;
use rustybuzz::Script;
use std::str::FromStr;

pub const CMDS: &[&str] = &["scriptiso", "scriptstr"];

pub fn handle(toks: &[&str], _st: &mut crate::State) -> Option<String> {
    match toks[0] {
        "scriptiso" => {
            let t: u32 = toks.get(1)?.parse().ok()?;
            Some(match Script::from_iso15924_tag(rustybuzz::ttf_parser::Tag(t)) {
                None => "none".into(),
                Some(s) => s.tag().as_u32().to_string(),
            })
        }
        "scriptstr" => {
            let s = String::from_utf8(hex_bytes(toks.get(1)?.strip_prefix('x')?)?).ok()?;
            Some(match Script::from_str(&s) {
                Err(_) => "err".into(),
                Ok(s) => s.tag().as_u32().to_string(),
            })
        }
        _ => None,
    }
}
