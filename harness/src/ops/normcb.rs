//! The normalizer's compose / decompose CALLBACKS per shaper (C08: shaper-specific compositions must be
//! canonically equivalent), through `verif::normalize::{probe_compose, probe_decompose, compose_pairs}`:
//! the context is set up the way `_hb_ot_shape_normalize` does it (`compose_unicode` / `decompose_unicode`
//! overridden by the shaper's own callbacks), on a plan with the given `has_gpos_mark`.
//!   normcb has <shaper>                               -> <own decompose 0|1> <own compose 0|1>
//!   normcb compose <shaper> <gpos 0|1> <fonthex> <lo-hi[,lo-hi...]>
//!        every pair (a, b) of scalar values of the ranges (decimal, inclusive) -> a:b:ab ... | -
//!   normcb decompose <shaper> <gpos 0|1> <fonthex> <lo-hi[,...]>      -> ab:a:b ... | -
//!   normcb pairs <shaper> <gpos 0|1> <fonthex> <a:b[,a:b...]>         -> <ab|-> ...   (one answer per pair)
//! shaper: default dumber arabic hangul hebrew indic khmer myanmar zawgyi thai use
use super::util::hex_bytes;
use rustybuzz::verif::normalize as nh;

pub const CMDS: &[&str] = &["normcb"];

fn ranges(tok: &str) -> Option<Vec<(u32, u32)>> {
    let mut out = vec![];
    for r in tok.split(',') {
        let (lo, hi) = r.split_once('-')?;
        let lo: u32 = lo.parse().ok()?;
        let hi: u32 = hi.parse().ok()?;
        if lo > hi || hi > 0x10FFFF {
            return None;
        }
        out.push((lo, hi));
    }
    Some(out)
}

fn triples(v: Vec<(u32, u32, u32)>) -> String {
    if v.is_empty() {
        return "-".into();
    }
    v.iter()
        .map(|(a, b, c)| format!("{}:{}:{}", a, b, c))
        .collect::<Vec<_>>()
        .join(" ")
}

pub fn handle(toks: &[&str], _st: &mut crate::State) -> Option<String> {
    let toks = &toks[1..];
    match *toks.first()? {
        "has" => {
            let (d, c) = nh::shaper_has_callbacks(toks.get(1)?)?;
            Some(format!("{} {}", d as u8, c as u8))
        }
        "compose" | "decompose" | "pairs" => {
            if toks.len() != 5 {
                return None;
            }
            let gpos = match toks[2] {
                "0" => false,
                "1" => true,
                _ => return None,
            };
            let data = hex_bytes(toks[3])?;
            let face = rustybuzz::Face::from_slice(&data, 0)?;
            match toks[0] {
                "compose" => {
                    let total: u64 = ranges(toks[4])?.iter().map(|(lo, hi)| (hi - lo + 1) as u64).sum();
                    if total > 4096 {
                        return None; // the square is probed
                    }
                    Some(triples(nh::probe_compose(&face, toks[1], gpos, &ranges(toks[4])?)?))
                }
                "decompose" => Some(triples(nh::probe_decompose(&face, toks[1], gpos, &ranges(toks[4])?)?)),
                _ => {
                    let mut pairs = vec![];
                    for p in toks[4].split(',') {
                        let (a, b) = p.split_once(':')?;
                        pairs.push((a.parse().ok()?, b.parse().ok()?));
                    }
                    let out = nh::compose_pairs(&face, toks[1], gpos, &pairs)?;
                    Some(
                        out.iter()
                            .map(|x| match x {
                                Some(c) => c.to_string(),
                                None => "-".into(),
                            })
                            .collect::<Vec<_>>()
                            .join(" "),
                    )
                }
            }
        }
        _ => None,
    }
}
