use crate::State;

pub mod util;

include!(concat!(env!("OUT_DIR"), "/ops_gen.rs"));

pub fn dispatch(toks: &[&str], st: &mut State) -> Option<String> {
    match toks[0] {
        "flush" => Some("ok".into()),
        _ => dispatch_gen(toks, st),
    }
}
