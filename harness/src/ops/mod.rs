use crate::State;

pub mod digest;
pub mod shape;
pub mod util;

pub fn dispatch(toks: &[&str], st: &mut State) -> Option<String> {
    match toks[0] {
        "flush" => Some("ok".into()),
        "digest" => digest::handle(&toks[1..]),
        "font" | "fontfile" | "fontdrop" | "shape" | "prefilter" => shape::handle(toks, st),
        _ => None,
    }
}
