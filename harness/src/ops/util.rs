pub fn hex_bytes(s: &str) -> Option<Vec<u8>> {
    if s.len() % 2 != 0 {
        return None;
    }
    let b = s.as_bytes();
    let mut v = Vec::with_capacity(b.len() / 2);
    let h = |c: u8| -> Option<u8> {
        match c {
            b'0'..=b'9' => Some(c - b'0'),
            b'a'..=b'f' => Some(c - b'a' + 10),
            b'A'..=b'F' => Some(c - b'A' + 10),
            _ => None,
        }
    };
    let mut i = 0;
    while i < b.len() {
        v.push(h(b[i])? * 16 + h(b[i + 1])?);
        i += 2;
    }
    Some(v)
}

pub fn u64s(toks: &[&str]) -> Option<Vec<u64>> {
    toks.iter().map(|t| t.parse::<u64>().ok()).collect()
}
