//! normalizer (C09 / C08-norm) through the `verif::normalize` and `verif::unicode` hooks.
//!   norm run <mode> <level> <inv|-> <fonthex> <cmap> <text>
//!        mode  : 0 none, 1 decomposed, 2 composed-diacritics, 3 composed-no-short-circuit, 4 auto
//!        level : cluster level 0|1
//!        inv   : the buffer's invisible glyph or -
//!        cmap  : - | start-end:gid[,...]   (format-12 groups the font was built from; the face built
//!                from <fonthex> is probed at every group border and must agree)
//!        text  : cp:cluster:mask[,...]     (decimal)
//!     -> ok <successful> <scratch_flags> cp:cluster:mask:gidx:cls:hi:ign:hidden:cont ...
//!        cls = 1 mark, 2 space separator, 0 other; hi = high byte of unicode_props
//!   norm runv <mode> <level> <inv|-> <nfvs|-> <fonthex> <cmap> <uvs> <text>
//!        like `run`, with the buffer's not_found_variation_selector glyph (nfvs) and a face that may carry a
//!        cmap format 14 subtable; uvs : - | vs:d:lo:hi | vs:n:cp:gid [,...]  (d = default UVS range: the
//!        nominal glyph is the variant; n = non-default mapping); the face is probed against every entry
//!   norm compose <a> <b>   -> <c> | -
//!   norm decompose <c>     -> <a> <b> | -          (b = 0: singleton)
//!   norm props <c>         -> <mark> <space> <mcc> <di> <vs> <space_fallback>
//!   norm depth <lo> <hi>  -> max over the scalar values in [lo, hi] of the length of the decomposition chain
//!                            (number of `unicode::decompose` steps following the first component)
//!   norm table decomp|comp|hangul|mcc|marks|zs|di|vs|sfb|consts|mcctab|ccc   (for tools/gens/norm.py)
use super::util::hex_bytes;
use rustybuzz::verif::{normalize as nh, unicode as uh};

pub const CMDS: &[&str] = &["norm"];

fn ch(s: &str) -> Option<char> {
    char::from_u32(s.parse::<u32>().ok()?)
}

fn ranges<T: PartialEq + Copy + std::fmt::Display>(f: impl Fn(char) -> T, skip: T) -> String {
    // maximal runs of equal non-`skip` values over all scalar values (surrogates break runs)
    let mut out: Vec<String> = vec![];
    let mut cur: Option<(u32, u32, T)> = None;
    for u in 0..=0x10FFFFu32 {
        let v = match char::from_u32(u) {
            Some(c) => f(c),
            None => skip,
        };
        if let Some((lo, hi, w)) = cur {
            if w == v && hi + 1 == u {
                cur = Some((lo, u, w));
                continue;
            }
            out.push(format!("{}-{}:{}", lo, hi, w));
            cur = None;
        }
        if v != skip {
            cur = Some((u, u, v));
        }
    }
    if let Some((lo, hi, w)) = cur {
        out.push(format!("{}-{}:{}", lo, hi, w));
    }
    if out.is_empty() {
        "-".into()
    } else {
        out.join(" ")
    }
}

fn table(which: &str) -> Option<String> {
    Some(match which {
        "decomp" => uh::decomposition_table()
            .iter()
            .map(|r| format!("{}:{}:{}", r.0, r.1, r.2))
            .collect::<Vec<_>>()
            .join(" "),
        "comp" => uh::composition_table()
            .iter()
            .map(|r| format!("{}:{}", r.0, r.1))
            .collect::<Vec<_>>()
            .join(" "),
        "hangul" => uh::hangul_constants()
            .iter()
            .map(|x| x.to_string())
            .collect::<Vec<_>>()
            .join(" "),
        "mcc" => ranges(|c| uh::modified_combining_class(c) as u32, 0),
        "ccc" => ranges(|c| uh::canonical_combining_class(c) as u32, 0),
        "mcctab" => uh::modified_combining_class_table()
            .iter()
            .map(|x| x.to_string())
            .collect::<Vec<_>>()
            .join(" "),
        "marks" => ranges(|c| uh::is_mark(c) as u32, 0),
        "zs" => ranges(|c| uh::is_space_separator(c) as u32, 0),
        "di" => ranges(|c| uh::is_default_ignorable(c) as u32, 0),
        "vs" => ranges(|c| uh::is_variation_selector(c) as u32, 0),
        "sfb" => ranges(|c| uh::space_fallback(c) as u32, 0),
        "consts" => format!(
            "{} {}",
            nh::MAX_COMBINING_MARKS_,
            nh::FLAG_CONSTS.iter().map(|x| x.to_string()).collect::<Vec<_>>().join(" ")
        ),
        "consts2" => format!("{}", nh::FLAG_VS_FALLBACK),
        _ => return None,
    })
}

/// the face must implement the cmap the request claims
fn probe_cmap(face: &rustybuzz::Face, spec: &str) -> Result<(), String> {
    if spec == "-" {
        return Ok(());
    }
    for g in spec.split(',') {
        let bad = || "bad-cmap-spec".to_string();
        let (r, gid) = g.split_once(':').ok_or_else(bad)?;
        let (lo, hi) = r.split_once('-').ok_or_else(bad)?;
        let lo: u32 = lo.parse().map_err(|_| bad())?;
        let hi: u32 = hi.parse().map_err(|_| bad())?;
        let gid: u32 = gid.parse().map_err(|_| bad())?;
        let want = |c: u32| -> Option<u16> {
            if c < lo || c > hi {
                return None;
            }
            u16::try_from(gid + (c - lo)).ok()
        };
        for c in [lo, hi, (lo + hi) / 2] {
            let got = char::from_u32(c).and_then(|c| face.glyph_index(c)).map(|g| g.0);
            if char::from_u32(c).is_some() && got != want(c) {
                return Err(format!("font-spec-mismatch {} {:?} {:?}", c, got, want(c)));
            }
        }
    }
    Ok(())
}

/// the face must implement the variation sequences the request claims
fn probe_uvs(face: &rustybuzz::Face, spec: &str) -> Result<(), String> {
    if spec == "-" {
        return Ok(());
    }
    let bad = || "bad-uvs-spec".to_string();
    let mut ents: Vec<(u32, bool, u32, u32)> = vec![];
    for e in spec.split(',') {
        let f: Vec<&str> = e.split(':').collect();
        if f.len() != 4 {
            return Err(bad());
        }
        let vs: u32 = f[0].parse().map_err(|_| bad())?;
        let a: u32 = f[2].parse().map_err(|_| bad())?;
        let b: u32 = f[3].parse().map_err(|_| bad())?;
        match f[1] {
            "d" => ents.push((vs, true, a, b)),
            "n" => ents.push((vs, false, a, b)),
            _ => return Err(bad()),
        }
    }
    for &(vs, dflt, a, b) in &ents {
        let v = char::from_u32(vs).ok_or_else(bad)?;
        let cps: Vec<u32> = if dflt { vec![a, b] } else { vec![a] };
        for c in cps {
            let ch = match char::from_u32(c) {
                Some(ch) => ch,
                None => continue,
            };
            let in_default = ents.iter().any(|&(w, d, lo, hi)| w == vs && d && lo <= c && c <= hi);
            let want = if in_default {
                face.glyph_index(ch).map(|g| g.0)
            } else {
                u16::try_from(b).ok()
            };
            let got = nh::glyph_variation_index(&face, ch, v);
            if got != want {
                return Err(format!("uvs-spec-mismatch {} {} {:?} {:?}", c, vs, got, want));
            }
        }
    }
    Ok(())
}

fn parse_text(tok: &str) -> Option<Vec<(u32, u32, u32)>> {
    let mut text = vec![];
    for t in tok.split(',') {
        let mut it = t.split(':');
        let cp: u32 = it.next()?.parse().ok()?;
        char::from_u32(cp)?;
        let cl: u32 = it.next()?.parse().ok()?;
        let mask: u32 = it.next()?.parse().ok()?;
        text.push((cp, cl, mask));
    }
    Some(text)
}

fn show_outcome(o: &nh::Outcome) -> String {
    let mut s = format!("ok {} {}", o.successful as u8, o.scratch_flags);
    for r in &o.recs {
        let cls = if r.is_mark {
            1
        } else if r.is_space {
            2
        } else {
            0
        };
        s.push_str(&format!(
            " {}:{}:{}:{}:{}:{}:{}:{}:{}",
            r.cp,
            r.cluster,
            r.mask,
            r.gidx,
            cls,
            r.props >> 8,
            (r.props >> 5) & 1,
            (r.props >> 6) & 1,
            (r.props >> 7) & 1
        ));
    }
    s
}

pub fn handle(toks: &[&str], _st: &mut crate::State) -> Option<String> {
    let toks = &toks[1..];
    match *toks.first()? {
        "table" => table(toks.get(1)?),
        "compose" => {
            let a = ch(toks.get(1)?)?;
            let b = ch(toks.get(2)?)?;
            Some(match uh::compose(a, b) {
                Some(c) => format!("{}", c as u32),
                None => "-".into(),
            })
        }
        "decompose" => {
            let c = ch(toks.get(1)?)?;
            Some(match uh::decompose(c) {
                Some((a, b)) => format!("{} {}", a as u32, b as u32),
                None => "-".into(),
            })
        }
        "depth" => {
            let lo: u32 = toks.get(1)?.parse().ok()?;
            let hi: u32 = toks.get(2)?.parse().ok()?;
            let mut best = 0u32;
            for u in lo..=hi {
                let mut c = match char::from_u32(u) {
                    Some(c) => c,
                    None => continue,
                };
                let mut d = 0u32;
                while let Some((a, _)) = uh::decompose(c) {
                    d += 1;
                    c = a;
                    if d > 64 {
                        break;
                    }
                }
                best = best.max(d);
            }
            Some(format!("{}", best))
        }
        "props" => {
            let c = ch(toks.get(1)?)?;
            Some(format!(
                "{} {} {} {} {} {}",
                uh::is_mark(c) as u8,
                uh::is_space_separator(c) as u8,
                uh::modified_combining_class(c),
                uh::is_default_ignorable(c) as u8,
                uh::is_variation_selector(c) as u8,
                uh::space_fallback(c)
            ))
        }
        "runv" => {
            if toks.len() != 9 {
                return None;
            }
            let mode: usize = toks[1].parse().ok()?;
            let level: u32 = toks[2].parse().ok()?;
            if mode > 4 || level > 1 {
                return None;
            }
            let inv: Option<u16> = match toks[3] {
                "-" => None,
                s => Some(s.parse().ok()?),
            };
            let nfvs: Option<u32> = match toks[4] {
                "-" => None,
                s => Some(s.parse().ok()?),
            };
            let data = hex_bytes(toks[5])?;
            let face = rustybuzz::Face::from_slice(&data, 0)?;
            if let Err(e) = probe_cmap(&face, toks[6]) {
                return Some(e);
            }
            if let Err(e) = probe_uvs(&face, toks[7]) {
                return Some(e);
            }
            let text = parse_text(toks[8])?;
            let o = nh::normalize_vs(&face, mode, level, inv, nfvs, &text);
            Some(show_outcome(&o))
        }
        "run" => {
            if toks.len() != 7 {
                return None;
            }
            let mode: usize = toks[1].parse().ok()?;
            if mode > 4 {
                return None;
            }
            let level: u32 = toks[2].parse().ok()?;
            if level > 1 {
                return None;
            }
            let inv: Option<u16> = match toks[3] {
                "-" => None,
                s => Some(s.parse().ok()?),
            };
            let data = hex_bytes(toks[4])?;
            let face = rustybuzz::Face::from_slice(&data, 0)?;
            // the face must implement the cmap the request claims
            if toks[5] != "-" {
                for g in toks[5].split(',') {
                    let (r, gid) = g.split_once(':')?;
                    let (lo, hi) = r.split_once('-')?;
                    let lo: u32 = lo.parse().ok()?;
                    let hi: u32 = hi.parse().ok()?;
                    let gid: u32 = gid.parse().ok()?;
                    let want = |c: u32| -> Option<u16> {
                        if c < lo || c > hi {
                            return None;
                        }
                        u16::try_from(gid + (c - lo)).ok()
                    };
                    for c in [lo, hi, (lo + hi) / 2] {
                        let got = char::from_u32(c).and_then(|c| face.glyph_index(c)).map(|g| g.0);
                        if char::from_u32(c).is_some() && got != want(c) {
                            return Some(format!("font-spec-mismatch {} {:?} {:?}", c, got, want(c)));
                        }
                    }
                }
            }
            let mut text = vec![];
            for t in toks[6].split(',') {
                let mut it = t.split(':');
                let cp: u32 = it.next()?.parse().ok()?;
                char::from_u32(cp)?;
                let cl: u32 = it.next()?.parse().ok()?;
                let mask: u32 = it.next()?.parse().ok()?;
                text.push((cp, cl, mask));
            }
            let o = nh::normalize(&face, mode, level, inv, &text);
            let mut s = format!("ok {} {}", o.successful as u8, o.scratch_flags);
            for r in &o.recs {
                let cls = if r.is_mark {
                    1
                } else if r.is_space {
                    2
                } else {
                    0
                };
                s.push_str(&format!(
                    " {}:{}:{}:{}:{}:{}:{}:{}:{}",
                    r.cp,
                    r.cluster,
                    r.mask,
                    r.gidx,
                    cls,
                    r.props >> 8,
                    (r.props >> 5) & 1,
                    (r.props >> 6) & 1,
                    (r.props >> 7) & 1
                ));
            }
            Some(s)
        }
        _ => None,
    }
}
