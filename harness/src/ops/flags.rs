//! Glyph-flag requests (C03/C04).
//!   flagconst                      -> gf <NAME>=<v> … bf <NAME>=<v> …
//!        glyph_flag::* + the scratch flag (hook verif::ot_shape::glyph_flag_constants) and every named
//!        constant of the public `BufferFlags` (hook verif::ot_shape::buffer_flag_constants)
//!   flagw <state> ; <op> <args…> ; …      like `buf`, plus the op `propagate` (= ot_shape.rs::propagate_flags
//!        through the hook verif::ot_shape::propagate_flags); every other op is a buffer primitive
//!   flagwt …                       same, reply lists the state after every op (like `buft`)
//!   reply: ok r=<ret,…> <state>    | panic …
//!   segprops <dir> <script> <text>  dir: l r t b | - ; script: 4 chars | - ; text: hexcp[,hexcp…]
//!        -> <dir> <script|->   what UnicodeBuffer::guess_segment_properties (public API) resolves
use super::buffer::{fmt_state, parse_state};
use rustybuzz::verif::buffer as vb;
use rustybuzz::verif::ot_shape as vs;

pub const CMDS: &[&str] = &["flagconst", "flagw", "flagwt", "segprops"];

fn segprops(toks: &[&str]) -> Option<String> {
    use rustybuzz::ttf_parser::Tag;
    use rustybuzz::{Direction, Script, UnicodeBuffer};
    let mut buf = UnicodeBuffer::new();
    for (i, x) in toks.get(3)?.split(',').enumerate() {
        buf.add(char::from_u32(u32::from_str_radix(x, 16).ok()?)?, i as u32);
    }
    match *toks.get(1)? {
        "-" => {}
        "l" => buf.set_direction(Direction::LeftToRight),
        "r" => buf.set_direction(Direction::RightToLeft),
        "t" => buf.set_direction(Direction::TopToBottom),
        "b" => buf.set_direction(Direction::BottomToTop),
        _ => return None,
    }
    let mut explicit = None;
    if *toks.get(2)? != "-" {
        let b = toks[2].as_bytes();
        if b.len() != 4 {
            return None;
        }
        explicit = Script::from_iso15924_tag(Tag::from_bytes(&[b[0], b[1], b[2], b[3]]));
        if let Some(s) = explicit {
            buf.set_script(s);
        }
    }
    buf.guess_segment_properties();
    let d = match buf.direction() {
        Direction::LeftToRight => "l",
        Direction::RightToLeft => "r",
        Direction::TopToBottom => "t",
        Direction::BottomToTop => "b",
        _ => "-",
    };
    let sc = buf.script();
    let s = if explicit.is_none() && sc == rustybuzz::script::UNKNOWN {
        "-".to_string()
    } else {
        sc.tag().to_string()
    };
    Some(format!("{} {}", d, s))
}

pub fn handle(toks: &[&str], _st: &mut crate::State) -> Option<String> {
    if toks[0] == "flagconst" {
        let mut s = String::from("gf");
        for (n, v) in vs::glyph_flag_constants().iter() {
            s.push_str(&format!(" {}={}", n, v));
        }
        s.push_str(" bf");
        for (n, v) in vs::buffer_flag_constants().iter() {
            s.push_str(&format!(" {}={}", n, v));
        }
        return Some(s);
    }
    if toks[0] == "segprops" {
        return segprops(toks);
    }
    let trace = toks[0] == "flagwt";
    let mut parts = toks[1..].split(|t| *t == ";");
    let st = parse_state(parts.next()?)?;
    let mut b = vb::make(&st);
    let mut rets = vec![];
    let mut states = vec![];
    for op in parts {
        if op.is_empty() {
            continue;
        }
        let name = op[0];
        if name == "propagate" {
            vs::propagate_flags(&mut b);
            rets.push("1".to_string());
        } else {
            let args = op[1..]
                .iter()
                .map(|x| x.parse::<u64>().ok())
                .collect::<Option<Vec<u64>>>()?;
            rets.push(vb::op(&mut b, name, &args, &[])?.to_string());
        }
        if trace {
            states.push(fmt_state(&vb::dump(&b)));
        }
    }
    if trace {
        return Some(format!("ok r={} {}", rets.join(","), states.join(" | ")));
    }
    Some(format!("ok r={} {}", rets.join(","), fmt_state(&vb::dump(&b))))
}
