//! rbshim — line-protocol server around the real rustybuzz crate (built from /repo's working tree
//! with `--cfg rb_verif`). One request per input line, exactly one reply line per request.
//! Every request runs under `catch_unwind`; a panic is reported as `panic <file>:<line> <msg>`.

use std::cell::RefCell;
use std::collections::HashMap;
use std::io::{BufRead, Write};
use std::panic;

mod ops;

pub struct State {
    pub fonts: HashMap<String, &'static [u8]>,
    pub font_index: HashMap<String, u32>,
}

thread_local! {
    static LAST_PANIC: RefCell<String> = RefCell::new(String::new());
}

fn main() {
    panic::set_hook(Box::new(|info| {
        let loc = info
            .location()
            .map(|l| format!("{}:{}", l.file(), l.line()))
            .unwrap_or_else(|| "?".into());
        let msg = if let Some(s) = info.payload().downcast_ref::<&str>() {
            s.to_string()
        } else if let Some(s) = info.payload().downcast_ref::<String>() {
            s.clone()
        } else {
            "?".into()
        };
        let msg = msg.replace('\n', " ");
        LAST_PANIC.with(|p| *p.borrow_mut() = format!("{} {}", loc, msg));
    }));

    let stdin = std::io::stdin();
    let stdout = std::io::stdout();
    let mut out = std::io::BufWriter::new(stdout.lock());
    let mut st = State {
        fonts: HashMap::new(),
        font_index: HashMap::new(),
    };
    let always_flush = std::env::var("RBSHIM_FLUSH").is_ok();
    for line in stdin.lock().lines() {
        let line = match line {
            Ok(l) => l,
            Err(_) => break,
        };
        let toks: Vec<&str> = line.split(' ').filter(|t| !t.is_empty()).collect();
        if toks.is_empty() {
            writeln!(out, "").unwrap();
            continue;
        }
        let res = panic::catch_unwind(panic::AssertUnwindSafe(|| ops::dispatch(&toks, &mut st)));
        match res {
            Ok(Some(s)) => writeln!(out, "{}", s).unwrap(),
            Ok(None) => writeln!(out, "bad-op").unwrap(),
            Err(_) => {
                let m = LAST_PANIC.with(|p| p.borrow().clone());
                writeln!(out, "panic {}", m).unwrap()
            }
        }
        if always_flush || toks[0] == "flush" || toks.iter().any(|t| *t == "!flush") {
            out.flush().unwrap();
        }
    }
    out.flush().unwrap();
}
