#!/bin/bash
# seedrun.sh <seed> <prop...> — apply a kept seed to /repo, run the quick checks, undo, restore evidence
s=$1; shift
git -C /repo apply /verif/seeded/$s/patch.diff || exit 3
for p in "$@"; do
  out=$(cd /verif && ./check $p 2>&1)
  echo "$s $p: $(echo "$out" | grep -c '^VIOLATION') violation lines, $(echo "$out" | grep '^VIOLATION' | grep -c no-failing-input-found) without input; $(echo "$out" | grep '^\[C' | cut -c1-120)"
done
git -C /repo checkout -- .
cd /verif && git checkout -- evidence
