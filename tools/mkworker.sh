#!/bin/bash
# mkworker.sh <name> — private workspace for a builder sub-agent: /tmp/w/<name>/{verif,repo} (git worktrees on branch agent-<name>)
set -e
n=$1; W=/tmp/w/$n; mkdir -p $W
git -C /repo branch -f agent-$n main >/dev/null 2>&1 || true
git -C /verif branch -f agent-$n main >/dev/null 2>&1 || true
git -C /repo worktree add -f $W/repo agent-$n >/dev/null 2>&1
git -C /verif worktree add -f $W/verif agent-$n >/dev/null 2>&1
sed -i "s|path = \"/repo\"|path = \"$W/repo\"|" $W/verif/harness/Cargo.toml
git -C $W/verif update-index --assume-unchanged harness/Cargo.toml
echo $W
