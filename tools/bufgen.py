"""Generators and python reference oracles for the buffer-primitive streams (shared by C01–C06, C15).

A *walk* is an initial buffer state plus a sequence of primitives; it is sent as one `buft` request
(state after every primitive comes back), to the crate and to the Lean model alike."""
import vlib

FLAG_SETS = [0, 0x40, 0x80, 0xC0]


def fmt_infos(items):
    return ",".join(":".join(str(x) for x in it) for it in items) or "-"


def parse_infos(s):
    return [] if s == "-" else [tuple(int(x) for x in e.split(":")) for e in s.split(",")]


def state_str(st):
    return (f"L={st['L']} F={st['F']} M={st['M']} O={st.get('O', 100000)} h={st['h']} s={st['s']} p={st.get('p', 0)} "
            f"ok={st.get('ok', 1)} i={st['i']} n={st['n']} o={st['o']} sc={st.get('sc', 0)} se={st.get('se', 0)} "
            f"I={fmt_infos(st['I'])} U={fmt_infos(st['U'])}")


def parse_state(s):
    kv = dict(t.split("=", 1) for t in s.split())
    st = {k: int(v) for k, v in kv.items() if k not in ("I", "U")}
    st["I"] = parse_infos(kv["I"])
    st["U"] = parse_infos(kv["U"])
    return st


def parse_trace(reply):
    """reply of a `buft` request -> (rets, [state,…]) or None for panic/bad replies"""
    if not reply.startswith("ok r="):
        return None
    head, _, rest = reply.partition(" ")
    body = rest
    r, _, body = body.partition(" ")
    rets = [int(x) for x in r[2:].split(",")] if len(r) > 2 else []
    states = [parse_state(s) for s in body.split(" | ")] if body.strip() else []
    return rets, states


def view(st):
    """(out-prefix, in-suffix) as lists of info tuples"""
    arr = st["U"] if st["s"] else st["I"]
    return arr[:st["o"]], st["I"][st["i"]:st["n"]]


def clusters(kind, r, n):
    if kind == "asc":
        c, out = r.below(3), []
        for _ in range(n):
            out.append(c)
            if r.chance(2, 3):
                c += r.range(1, 3)
        return out
    if kind == "desc":
        return list(reversed(clusters("asc", r, n)))
    return [r.below(6) for _ in range(n)]


def fresh_state(r, n, level=None, flags=None, mono="asc", slack=None, maxlen=None):
    cl = clusters(mono, r, n)
    items = [(100 + i, r.choice([0, 0, 8, 24, 0x100]), cl[i], r.choice([0, 0, 1, 2, 3, 230, 220]),
              1 if r.chance(1, 5) else 0) for i in range(n)]
    slack = r.below(3) if slack is None else slack
    size = n + slack
    info = items + [(0, 0, 0, 0, 0)] * slack
    return {"L": r.below(3) if level is None else level, "F": r.choice(FLAG_SETS) if flags is None else flags,
            "M": (1000 if r.chance(9, 10) else r.range(n, n + 3)) if maxlen is None else maxlen,
            "h": 0, "s": 0, "i": 0, "n": n, "o": 0, "I": info, "U": [(0, 0, 0, 0, 0)] * size}


class Track:
    def __init__(self, st):
        self.idx, self.len, self.out, self.h = st["i"], st["n"], st["o"], st["h"]
        self.next_gid = 500

    def gid(self):
        self.next_gid += 1
        return self.next_gid


def gen_out_walk(r, st, steps, adversarial=False):
    """ops for the in/out (substitution) mode, mostly valid w.r.t. a python shadow of idx/len/out_len"""
    t = Track(st)
    ops = ["clearout"]
    t.idx, t.out, t.h = 0, 0, 1
    for _ in range(steps):
        rem = t.len - t.idx
        cand = ["outg", "moveto", "moveto"]
        if rem > 0:
            cand += ["next", "next", "repl", "repls", "copy", "del", "nexts", "utbo", "utco"]
        if rem > 1:
            cand += ["merge", "utb", "utc", "tatweel"]
        if t.out > 1:
            cand += ["mergeout"]
        if t.out > 0 or rem > 0:
            cand += ["outi"]
        k = r.choice(cand)
        if k == "next": ops.append("next"); t.idx += 1; t.out += 1
        elif k == "nexts":
            n = r.range(0, rem); ops.append(f"nexts {n}"); t.idx += n; t.out += n
        elif k == "copy": ops.append("copy"); t.out += 1
        elif k == "repl": ops.append(f"repl {t.gid()}"); t.idx += 1; t.out += 1
        elif k == "repls":
            nin = r.range(1, min(3, rem)); no = r.range(0, 3)
            ops.append(f"repls {nin} " + " ".join(str(t.gid()) for _ in range(no))); t.idx += nin; t.out += no
        elif k == "outg": ops.append(f"outg {t.gid()}"); t.out += 1 if (rem > 0 or t.out > 0) else 0
        elif k == "outi": ops.append(f"outi {t.gid()}:{r.choice([0, 1, 3, 8])}:{r.below(8)}:0:0"); t.out += 1
        elif k == "del": ops.append("del"); t.idx += 1
        elif k == "merge":
            s = r.range(t.idx, t.len - 2); e = r.range(s + 2, t.len) if not r.chance(1, 6) else s + 1
            ops.append(f"merge {s} {e}")
        elif k == "mergeout":
            s = r.range(0, t.out - 2); e = r.range(s + 2, t.out)
            ops.append(f"mergeout {s} {e}")
        elif k == "moveto":
            total = t.out + rem
            i = r.range(0, total) if not adversarial else r.range(0, total + 1)
            ops.append(f"moveto {i}")
            if i > t.out:
                c = i - t.out; t.idx += c; t.out += c
            elif i < t.out and i <= total:
                c = t.out - i
                if t.idx < c:
                    sft = c - t.idx; t.len += sft; t.idx += sft
                t.idx -= c; t.out -= c
        elif k in ("utb", "utc", "tatweel"):
            s = r.range(t.idx, t.len - 1); e = r.range(s + 1, t.len)
            ops.append(f"{k} {s} {e}")
        elif k in ("utbo", "utco"):
            s = r.range(0, t.out); e = r.range(t.idx, t.len)
            ops.append(f"{k} {s} {e}")
    ops.append("sync")
    return ops


def gen_inplace_walk(r, st, steps):
    n = st["n"]
    ops = []
    for _ in range(steps):
        cand = ["setmasks", "resetmasks", "rev", "revg", "delin"]
        if n > 1:
            cand += ["merge", "merge", "utb", "utc", "tatweel", "revr", "sort", "sort"]
        k = r.choice(cand)
        if k in ("merge", "utb", "utc", "tatweel", "revr", "sort"):
            s = r.range(0, n - 2); e = r.range(s + 1, n)
            ops.append(f"{k} {s} {e}")
        elif k == "setmasks":
            m = r.choice([8, 0x10, 0x18, 0x100, 0])
            ops.append(f"setmasks {r.choice([0, m, 0xFFFF])} {m} {r.below(4)} {r.choice([r.below(8), 4294967295])}")
        elif k == "resetmasks": ops.append(f"resetmasks {r.choice([0, 8, 0x100])}")
        elif k == "rev": ops.append("rev")
        elif k == "revg": ops.append(f"revg {r.below(2)}")
        elif k == "delin":
            ops.append("delin"); break   # len changes; stop tracking
    return ops


def adversarial_case(r):
    """raw states that no reachable history needs to produce: panic kinds must agree too"""
    size = r.below(6)
    items = [(100 + i, r.choice([0, 1, 3, 8]), r.below(5), r.below(3), r.below(2)) for i in range(size)]
    osz = r.choice([size, r.below(6)])
    st = {"L": r.below(3), "F": r.choice(FLAG_SETS), "M": r.choice([0, 1, 3, 5, 1000]), "h": r.below(2), "s": r.below(2),
          "ok": 1 if r.chance(5, 6) else 0,
          "i": 0, "n": r.below(size + 1), "o": r.below(osz + 2), "I": items,
          "U": [(200 + i, 0, r.below(5), 0, 0) for i in range(osz)]}
    st["i"] = r.below(st["n"] + 1)   # idx <= len: `len - idx` is a usize subtraction in the crate
    k = r.choice(["next", "nexts", "copy", "repl", "repls", "outg", "outi", "del", "merge", "mergeout", "moveto",
                  "sync", "utb", "utbo", "utc", "utco", "tatweel", "ensure", "room", "shiftfwd", "rev", "delin",
                  "setmasks", "add", "enter", "leave", "clear"])
    a = lambda: r.below(7)
    if k in ("utb", "utbo", "utc", "utco", "tatweel"):
        # `end` is clamped to len by the code; keep start <= min(end, len) (callers' precondition, the
        # model uses Nat subtraction where Rust's usize subtraction would wrap)
        s = r.below(st["n"] + 1); op = f"{k} {s} {s + r.below(4)}"
    elif k == "merge":
        s = r.below(st["n"] + 1); op = f"{k} {s} {s + r.below(4)}"   # level 2 forwards to unsafe_to_break
        if st["s"] == 0:
            # shared out-buffer: out[0..out_len) IS info[0..out_len), and out_len <= idx in every reachable state. With
            # out_len > idx the "continue in out-buffer" loop of merge_clusters would compare against info[start] while
            # overwriting it through the alias; the model keeps the cluster value it read first (found by the thorough tier:
            # `i=1 n=2 o=2 … ; merge 1 4`). Outside the representation invariant, not generated.
            st["o"] = min(st["o"], st["i"])
    elif k == "mergeout":
        s = a(); op = f"{k} {s} {s + r.below(4)}"
    elif k in ("nexts", "moveto", "ensure", "shiftfwd"): op = f"{k} {a()}"
    elif k == "room": op = f"room {r.below(3)} {r.below(4)}"
    elif k == "repl" or k == "outg": op = f"{k} 900"
    elif k == "repls": op = f"repls {r.below(3)} " + " ".join("901" for _ in range(r.below(3)))
    elif k == "outi": op = "outi 902:1:2:0:0"
    elif k == "setmasks": op = f"setmasks {a()} {r.choice([0, 8, 24])} {a()} {a()}"
    elif k == "add": op = f"add 65 {a()}"
    else: op = k
    if k == "shiftfwd":
        st["h"] = 1
    return f"buft {state_str(st)} ; {op}"


def walk_line(st, ops):
    return f"buft {state_str(st)} ; " + " ; ".join(ops)


# ------------------------------------------------------------------------------------------------
# python reference: the list-zipper meaning of the streaming primitives (gids and per-glyph payload)


def zipper_spec(O, R, op):
    """O, R: lists of gids. Returns (O', R') or None when the op is not a zipper op."""
    t = op.split()
    k = t[0]
    if k == "next": return O + R[:1], R[1:]
    if k == "nexts": n = int(t[1]); return O + R[:n], R[n:]
    if k == "copy": return O + R[:1], R
    if k == "repl": return O + [int(t[1])], R[1:]
    if k == "repls": nin = int(t[1]); return O + [int(x) for x in t[2:]], R[nin:]
    if k == "outg": return (O, R) if (not R and not O) else (O + [int(t[1])], R)
    if k == "outi": return O + [int(t[1].split(":")[0])], R
    if k == "del": return O, R[1:]
    if k == "moveto":
        i = int(t[1]); A = O + R
        return A[:i], A[i:]
    if k in ("merge", "mergeout", "utb", "utbo", "utc", "utco", "tatweel"): return O, R
    return None


def check_zipper(line, reply):
    """returns None if the crate's trace refines the zipper spec, else a dict describing the first deviation"""
    ops = [o.strip() for o in line.split(" ; ")[1:]]
    st0 = parse_state(line.split(" ; ")[0].split(" ", 1)[1])
    tr = parse_trace(reply)
    if tr is None:
        return {"kind": "crash", "reply": reply[:200]}
    rets, states = tr
    prev = st0
    for k, (op, st) in enumerate(zip(ops, states)):
        if op == "clearout":
            prev = st; continue
        if op == "sync":
            if prev["ok"] == 1 and rets[k] == 1 and st["ok"] == 1:
                O, R = view(prev)
                want = [x[0] for x in O + R]
                got = [x[0] for x in st["I"][:st["n"]]]
                if want != got:
                    return {"kind": "sync", "step": k, "op": op, "want": want, "got": got}
            prev = st; continue
        if prev["ok"] != 1 or st["ok"] != 1:
            prev = st; continue   # allocation budget hit: the primitive is allowed to do nothing
        O, R = view(prev)
        spec = zipper_spec([x[0] for x in O], [x[0] for x in R], op)
        if spec is not None:
            O2, R2 = view(st)
            got = ([x[0] for x in O2], [x[0] for x in R2])
            if (list(spec[0]), list(spec[1])) != got:
                return {"kind": "zipper", "step": k, "op": op, "want": spec, "got": got}
        prev = st
    return None
