"""Corpus of (font, text, options) taken from /repo/tests/shaping/*.rs — the repository's own
fixtures — turned into rbshim `shape` requests. Used as seed inputs by the search streams."""
import os, re, shlex
import vlib

_STR = r'"((?:[^"\\]|\\.)*)"'
_CALL = re.compile(r'shape\(\s*' + _STR + r'\s*,\s*' + _STR + r'\s*,\s*' + _STR + r'\s*,?\s*\)', re.S)


def _unescape(s):
    def rep(m):
        if m.group(1):
            return chr(int(m.group(1), 16))
        c = m.group(2)
        return {"n": "\n", "t": "\t", "r": "\r", "\\": "\\", '"': '"', "0": "\0", "'": "'"}.get(c, c)
    return re.sub(r'\\u\{([0-9a-fA-F]+)\}|\\(.)', rep, s)


def tag_hex(t):
    t = (t + "    ")[:4]
    return "".join(f"{ord(c):02x}" for c in t)


def parse_feature(s):
    """HarfBuzz feature syntax -> (tag, value, start, end) or None (python re-implementation used only
    to build corpus requests; the crate's own parser is checked in C14)."""
    m = re.match(r'^([+-]?)([A-Za-z0-9 ]{1,4})(?:\[(\d*)(?::(\d*))?\])?(?:=(\d+|on|off))?$', s.strip())
    if not m:
        return None
    sign, tag, a, b, val = m.groups()
    value = 0 if sign == "-" else 1
    if val is not None:
        value = {"on": 1, "off": 0}.get(val, None)
        if value is None:
            value = int(val)
    start, end = 0, 0xFFFFFFFF
    if a is not None or b is not None:
        if a:
            start = int(a)
        if b is not None:
            if b:
                end = int(b)
        elif a:
            end = start + 1
    return (tag, value, start, end)


class Case:
    __slots__ = ("name", "font", "index", "text", "dir", "script", "lang", "flags", "level", "feats",
                 "pre", "post", "extra", "opts")

    def shape_line(self, fontid, text=None, clusters=None, dir=None, flags=None, level=None, feats=None,
                   pre=None, post=None, extra=None):
        text = self.text if text is None else text
        if clusters is None:
            clusters = list(range(len(text)))
        t = ",".join(f"{ord(c):x}:{cl}" for c, cl in zip(text, clusters)) or "-"
        feats = self.feats if feats is None else feats
        f = ",".join(f"{tag_hex(a)}:{v}:{s}:{e}" for a, v, s, e in feats) or "-"
        lang = ("x" + self.lang.encode().hex()) if self.lang else "-"
        pre = self.pre if pre is None else pre
        post = self.post if post is None else post
        cp = lambda s: ",".join(f"{ord(c):x}" for c in s) or "-"
        ex = self.extra if extra is None else extra
        return " ".join(["shape", fontid, dir or self.dir or "-", self.script or "-", lang,
                         str(self.flags if flags is None else flags),
                         str(self.level if level is None else level), f, cp(pre), cp(post), t] + ex)


def load(limit=None):
    cases = []
    d = os.path.join(vlib.REPO, "tests", "shaping")
    for fn in sorted(os.listdir(d)):
        if not fn.endswith(".rs") or fn in ("main.rs", "wasm.rs"):
            continue
        src = open(os.path.join(d, fn)).read()
        for m in re.finditer(r'fn (\w+)\(\) \{(.*?)\n\}', src, re.S):
            name, body = m.group(1), m.group(2)
            c = _CALL.search(body)
            if not c:
                continue
            font, text, opts = (_unescape(x) for x in c.groups())
            case = Case()
            case.name = fn[:-3] + "::" + name
            case.font = os.path.join(vlib.REPO, font)
            case.text = text
            case.opts = opts
            case.index = 0
            case.dir = None; case.script = None; case.lang = None
            case.flags = 0
            case.level = 0; case.feats = []; case.pre = ""; case.post = ""; case.extra = []
            VAL = {"--face-index", "--direction", "--script", "--language", "--cluster-level", "--features",
                   "--font-ptem", "--variations", "--not-found-variation-selector-glyph",
                   "--unicodes-before", "--unicodes-after", "--font-funcs"}
            toks = [t for t in opts.split(" ") if t]
            i = 0
            while i < len(toks):
                t = toks[i]; i += 1
                k, eq, v = t.partition("=")
                if k in VAL and not eq:
                    v = toks[i] if i < len(toks) else ""; i += 1
                if k == "--face-index": case.index = int(v)
                elif k == "--direction": case.dir = v[0].lower()
                elif k == "--script": case.script = (v + "    ")[:4]
                elif k == "--language": case.lang = v
                elif k == "--cluster-level": case.level = int(v)
                elif k == "--features":
                    # parsed by the crate's own Feature::from_str (fstr=), not by python
                    case.extra.append("fstr=" + v.encode().hex())
                elif k == "--remove-default-ignorables": case.flags |= 8
                elif k == "--unsafe-to-concat": case.flags |= 0x40
                elif k == "--bot": case.flags |= 1
                elif k == "--eot": case.flags |= 2
                elif k == "--font-ptem": case.extra.append(f"ptem={v}")
                elif k == "--variations":
                    vs = []
                    for x in v.split(","):
                        tg, _, val = x.partition("=")
                        vs.append(f"{tag_hex(tg)}:{val}")
                    case.extra.append("var=" + ",".join(vs))
                elif k == "--not-found-variation-selector-glyph": case.extra.append(f"nfvs={v}")
                elif k == "--unicodes-before":
                    case.pre = "".join(chr(int(x.replace("U+", ""), 16)) for x in v.split(","))
                elif k == "--unicodes-after":
                    case.post = "".join(chr(int(x.replace("U+", ""), 16)) for x in v.split(","))
                else: pass  # output-format options
            if not os.path.exists(case.font) or not case.text:
                continue
            if any(ord(ch) in (0x20, 0x0A) and False for ch in case.text):
                continue
            cases.append(case)
    if limit:
        cases = cases[:limit]
    return cases


def font_groups(cases):
    """group cases by (font,index) -> (fontid, registration line, [cases])"""
    groups = {}
    for c in cases:
        groups.setdefault((c.font, c.index), []).append(c)
    out = []
    for i, ((font, idx), cs) in enumerate(sorted(groups.items())):
        fid = f"F{i}"
        out.append((fid, f"fontfile {fid} {font} {idx}", cs))
    return out


if __name__ == "__main__":
    cs = load()
    print(len(cs), "cases;", len(font_groups(cs)), "fonts")
    print(cs[0].shape_line("F0"))
