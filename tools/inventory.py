"""Site inventory for C05/C01: a regenerated regex-level scan of /repo/src for every construct that could hold
hidden shared or surviving state, compared with the committed registry inventory/sites.json.

  kinds  static-mut, static (any `static NAME:`), cell (Cell/RefCell/UnsafeCell), atomic, thread-local,
         lazy (lazy_static!/OnceCell/OnceLock/LazyLock/Lazy<), unsafe, sync-impl (`impl Send/Sync`),
         lifecycle-write (assignment to a buffer field that only new/clear/enter/leave/the public setters may
         write: flags, cluster_level, max_len, max_ops (`=` only), invisible, not_found_variation_selector,
         shaping_failed, serial, scratch_flags reset)

A site is identified by (file, kind, normalised line text) — not by line number.  A site that is not in the
registry breaks the premise of C05_schedule_independent / C05_clear_fresh and is reported.
`python3 tools/inventory.py --write` rewrites the registry from the current tree (review the diff!)."""
import json, os, re, sys

sys.path.insert(0, os.path.dirname(os.path.abspath(__file__)))
import vlib

REG = os.path.join(vlib.ROOT, "inventory", "sites.json")

PATTERNS = [
    ("static-mut", re.compile(r"\bstatic\s+mut\b")),
    ("static", re.compile(r"^\s*(pub(\([a-z]+\))?\s+)?static\s+[A-Z_a-z0-9]+\s*:")),
    ("cell", re.compile(r"\b(Cell|RefCell|UnsafeCell)\s*(<|::)")),
    ("atomic", re.compile(r"\bAtomic[A-Z][A-Za-z0-9]*\b")),
    ("thread-local", re.compile(r"\bthread_local!")),
    ("lazy", re.compile(r"\b(lazy_static!|OnceCell|OnceLock|LazyLock|Lazy\s*<)")),
    ("unsafe", re.compile(r"\bunsafe\b")),
    ("sync-impl", re.compile(r"\bimpl\b.*\b(Send|Sync)\b\s+for\b")),
    ("lifecycle-write", re.compile(
        r"\.(flags|cluster_level|max_len|invisible|not_found_variation_selector|shaping_failed)\s*=[^=]"
        r"|\.max_ops\s*=[^=]|\.serial\s*=[^=]|\.scratch_flags\s*=[^=]")),
]
# `.flags =` also matches feature/lookup flag fields of other structs: keep only buffer receivers for that field
BUFFER_RECV = re.compile(r"(buffer|self\.0|self|\bb|ctx\.buffer|ac\.buffer)\.(flags)\s*=[^=]")


def strip_comment(line):
    i = line.find("//")
    return line if i < 0 else line[:i]


_LIT = re.compile(r"'(\\\\.|[^'\\\\])'|\"(\\\\.|[^\"\\\\])*\"")


def gated_lines(lines, whole_file_gated):
    """set of 1-based line numbers that are compiled only with `--cfg rb_verif`: the item (block up to its closing brace, or
    the single statement) that follows a `#[cfg(rb_verif)]` attribute.  Brace counting on code with literals stripped."""
    if whole_file_gated:
        return set(range(1, len(lines) + 1))
    g = set()
    pending = False
    depth = None     # brace depth inside a gated block
    for ln, raw in enumerate(lines, 1):
        code = _LIT.sub("", strip_comment(raw))
        st = code.strip()
        if depth is not None:
            g.add(ln)
            depth += code.count("{") - code.count("}")
            if depth <= 0:
                depth = None
            continue
        if st.startswith("#[cfg(rb_verif)]"):
            pending = True
            g.add(ln)
            rest = st[len("#[cfg(rb_verif)]"):].strip()
            if not rest:
                continue
            st = rest; code = rest
        if pending:
            if not st or st.startswith("#["):
                g.add(ln)
                continue          # further attributes of the same item
            g.add(ln)
            pending = False
            d = code.count("{") - code.count("}")
            if d > 0:
                depth = d
    return g


def gated_files():
    """files that are modules declared under `#[cfg(rb_verif)] pub mod x;`"""
    out = set()
    src = os.path.join(vlib.REPO, "src")
    for dp, dn, fn in os.walk(src):
        for f in fn:
            if not f.endswith(".rs"):
                continue
            lines = open(os.path.join(dp, f), encoding="utf-8", errors="replace").read().split("\n")
            for i, l in enumerate(lines[:-1]):
                if l.strip() == "#[cfg(rb_verif)]":
                    m = re.match(r"\s*pub\s+mod\s+(\w+)\s*;", lines[i + 1])
                    if m:
                        out.add(os.path.normpath(os.path.join(dp, m.group(1) + ".rs")))
    return out


def scan():
    src = os.path.join(vlib.REPO, "src")
    sites = []
    gfiles = gated_files()
    for dp, dn, fn in os.walk(src):
        for f in sorted(fn):
            if not f.endswith(".rs"):
                continue
            path = os.path.join(dp, f)
            rel = os.path.relpath(path, vlib.REPO)
            lines = open(path, encoding="utf-8", errors="replace").read().split("\n")
            gl = gated_lines(lines, os.path.normpath(path) in gfiles)
            for ln, line in enumerate(lines, 1):
                code = strip_comment(line)
                if not code.strip():
                    continue
                for kind, pat in PATTERNS:
                    m = pat.search(code)
                    if not m:
                        continue
                    if kind == "lifecycle-write":
                        if ".flags" in m.group(0) and not BUFFER_RECV.search(code):
                            continue
                        if rel.endswith("ot_map.rs") or "feature_infos" in code:
                            continue
                    sites.append({"file": rel, "kind": kind, "text": " ".join(code.split()), "line": ln, "gated": ln in gl})
    return sites


def key(s):
    return (s["file"], s["kind"], s["text"])


def load_registry():
    if not os.path.exists(REG):
        return {"sites": []}
    return json.load(open(REG))


def check(ctx=None):
    """compare the regenerated scan with the registry.  A site compiled in a NORMAL build (outside `#[cfg(rb_verif)]` items)
    that is not registered is reported as a broken premise; a registered site that moved from gated to ungated as well.
    Unregistered sites inside rb_verif-gated hook code are only listed (they do not exist in a normal build)."""
    reg = load_registry()
    known = {}          # key -> set of registered `gated` values
    for s in reg["sites"]:
        known.setdefault(key(s), set()).add(bool(s.get("gated")))
    found = scan()
    # an ungated site needs an ungated registration (a registration of gated hook code with the same text does not count)
    unknown = [s for s in found if not s["gated"] and False not in known.get(key(s), set())]
    new_gated = [s for s in found if s["gated"] and key(s) not in known]
    fk = {key(x) for x in found}
    gone = [s for s in reg["sites"] if key(s) not in fk]
    kinds = {}
    for s in found:
        k = s["kind"] + ("(rb_verif)" if s["gated"] else "")
        kinds[k] = kinds.get(k, 0) + 1
    if ctx is not None:
        ctx.cov["inventory_sites"] = {"total": len(found), "by_kind": kinds, "unregistered": len(unknown),
                                      "unregistered_in_rb_verif_hooks": len(new_gated), "registered_but_gone": len(gone)}
        if unknown:
            ctx.broken.append({"stage": "inventory", "module": "inventory/sites.json",
                               "log_tail": "source sites outside the registry (possible hidden shared / surviving state): "
                                           + json.dumps(unknown[:10])})
    return found, unknown, gone


WHY = {
    "unsafe": "unsafe impl bytemuck::{Zeroable,Pod} for a #[repr(C)] plain-data struct (no unsafe block or fn in the crate)",
    "atomic": "REVIEW: an atomic outside rb_verif-gated code",
    "static": "immutable static (no interior mutability): read-only table",
    "cell": "Cell view of the exclusively borrowed buffer.info inside one call (Cell::from_mut on &mut), nothing shared "
            "between calls or threads",
    "lifecycle-write": "write by new/clear/enter/leave, a public setter or the rb_verif hooks (buffer.rs), or the documented "
                       "shaping_failed mark of the lookup interpreter",
}

if __name__ == "__main__":
    found = scan()
    if "--write" in sys.argv:
        os.makedirs(os.path.dirname(REG), exist_ok=True)
        out = []
        seen = set()
        for s in found:
            if key(s) + (s["gated"],) in seen:
                continue
            seen.add(key(s) + (s["gated"],))
            why = ("rb_verif-gated verification hook code: not compiled in a normal build" if s["gated"]
                   else WHY.get(s["kind"], "REVIEW"))
            out.append({"file": s["file"], "kind": s["kind"], "text": s["text"], "gated": s["gated"], "why": why})
        json.dump({"_comment": "registry of reviewed sites, regenerate with tools/inventory.py --write and review the diff",
                   "sites": out}, open(REG, "w"), indent=1)
        print("wrote", len(out), "sites")
    else:
        f, u, g = check()
        print(len(f), "sites;", len(u), "unregistered;", len(g), "registered but gone")
        for s in u:
            print("UNREGISTERED", s)
