"""Structured per-script text generators for the shape()-level searches (C02, C15).

The random streams draw characters uniformly from a font's Unicode blocks; the reordering code of the shapers however
fires on a handful of *roles* in a fixed order (RA + virama + ZWJ, several modifier marks of one class after a vowel
mark, ...), which a uniform draw over ~130 characters practically never produces.  Here the roles of every script are
derived from the Unicode character data (names / combining classes / categories) plus the code points that occur as
literals in the shaper's own source, and texts are built from roles:

  * mark runs           base + 2..6 combining marks of the script (source literals over-represented), 1..3 runs
  * special sequences   all short orders over {RA, virama(s), ZWJ, ZWNJ, nukta, two consonants, a matra} (exhaustive up to
                        a length, random above), joiners surviving through PRESERVE_DEFAULT_IGNORABLES or a space glyph

Fonts: per script a synthetic cmap-only font whose GSUB names the script's tags (old / new Indic spec, USE), so that
the script's own shaper is selected, with and without a dotted circle glyph, plus the corpus fonts that cover the script."""
import os, re, unicodedata
import vlib, corpus, fontbuild
import C08

ZWJ, ZWNJ, DOTTED, NBSP, CGJ = 0x200D, 0x200C, 0x25CC, 0xA0, 0x34F

OT_TAGS = {
    "devanagari": ["dev2", "deva", "dev3"], "bengali": ["bng2", "beng", "bng3"], "gurmukhi": ["gur2", "guru", "gur3"],
    "gujarati": ["gjr2", "gujr", "gjr3"], "oriya": ["ory2", "orya", "ory3"], "tamil": ["tml2", "taml", "tml3"],
    "telugu": ["tel2", "telu", "tel3"], "kannada": ["knd2", "knda", "knd3"], "malayalam": ["mlm2", "mlym", "mlm3"],
    "myanmar": ["mym2"], "sinhala": ["sinh"], "khmer": ["khmr"], "javanese": ["java"], "balinese": ["bali"],
    "tibetan": ["tibt"], "sundanese": ["sund"], "tai_tham": ["lana"], "cham": ["cham"], "brahmi": ["brah"],
    "arabic": ["arab"], "syriac": ["syrc"], "hebrew": ["hebr"], "thai": ["thai"], "lao": ["lao "], "hangul": ["hang"],
    "latin": ["latn"], "greek": ["grek"], "cyrillic": ["cyrl"],
}
SOURCES = dict(C08.SHAPER_SOURCES)
for _n in ("javanese", "balinese", "tibetan", "sundanese", "tai_tham", "cham", "brahmi", "sinhala"):
    SOURCES.setdefault(_n, []).append("ot_shaper_use.rs")


def cat(cp): return unicodedata.category(chr(cp))
def ccc(cp): return unicodedata.combining(chr(cp))
def uname(cp): return unicodedata.name(chr(cp), "")


def source_literals(name):
    """code points written as hexadecimal literals in the source of the script's shaper"""
    out = set()
    for fn in SOURCES.get(name, []):
        p = os.path.join(vlib.REPO, "src", "hb", fn)
        if os.path.exists(p):
            out |= {int(m, 16) for m in re.findall(r"0x([0-9A-Fa-f]{4,5})\b", open(p).read())}
    return out


_roles = {}


def roles(name):
    """characters of a script by role (all derived from Unicode data; empty lists where a script has no such character)"""
    if name in _roles:
        return _roles[name]
    alpha = C08.alphabet(name)
    lit = source_literals(name)
    letters = [c for c in alpha if cat(c) in ("Lo", "Ll", "Lu", "Lm")]
    cons = [c for c in letters if "LETTER" in uname(c) and "VOWEL" not in uname(c) and "INDEPENDENT" not in uname(c)
            and not re.search(r"LETTER (A|AA|I|II|U|UU|E|EE|AI|O|OO|AU|VOCALIC \w+|SHORT \w|CANDRA \w)$", uname(c))] or letters
    ra = [c for c in cons if re.search(r"LETTER (RA|RO|REH|RESH|RRA|RAYANNA)$", uname(c))]
    marks = [c for c in alpha if cat(c) in ("Mn", "Mc", "Me")]
    halant = sorted((c for c in marks if ccc(c) == 9), key=lambda c: (not uname(c).endswith("SIGN VIRAMA"), c))
    nukta = [c for c in marks if ccc(c) == 7]
    matra = [c for c in marks if ccc(c) not in (7, 9) and ("VOWEL" in uname(c) or "SARA" in uname(c))]
    other = [c for c in marks if c not in halant and c not in nukta and c not in matra]
    r = {"alpha": alpha, "letters": letters, "cons": cons, "ra": ra, "marks": marks, "halant": halant, "nukta": nukta,
         "matra": matra, "othermarks": other, "digits": [c for c in alpha if cat(c) == "Nd"],
         "src_marks": sorted(c for c in lit if c in marks), "src_letters": sorted(c for c in lit if c in letters),
         "src_all": sorted(c for c in lit if c in alpha)}
    _roles[name] = r
    return r


def scripts_of(cps):
    """names of the C08 scripts a set of code points touches (latin / greek / cyrillic only through non-ASCII letters)"""
    out = []
    for name, ranges in C08.SCRIPTS.items():
        if any(a <= c <= b for c in cps for a, b in ranges if a >= 0x370 or name != "latin"):
            out.append(name)
    return out


# ------------------------------------------------------------------------------------------------
# fonts


def synth_font(name, tag, dotted=True, space=True, adv_marks=False):
    """cmap + hmtx over the script's alphabet (+ joiners, space, NBSP, generic combining marks, optionally U+25CC) and a
    GSUB whose only script record is `tag` with one inert feature: enough for the script's own shaper to be chosen"""
    al = C08.closure(C08.alphabet(name))
    extra = [ZWJ, ZWNJ, CGJ, NBSP, 0x2D] + list(range(0x300, 0x305)) + list(range(0x323, 0x326)) + list(range(0x41, 0x47))
    if space: extra.append(0x20)
    if dotted: extra.append(DOTTED)
    allc = []
    for c in al + extra:
        if c not in allc:
            allc.append(c)
    cmap = {cp: i + 1 for i, cp in enumerate(allc)}
    n = len(allc) + 1
    adv = [600] * n
    if not adv_marks:
        for cp, g in cmap.items():
            if cat(cp) in ("Mn", "Me"):
                adv[g] = 0
    rec = {"num_glyphs": n + 1, "cmap": cmap, "advances": adv + [600],
           "gsub": {"scripts": [{"tag": tag, "default": {"required": None, "features": [0]}, "langs": []}],
                    "features": [{"tag": "ccmp", "lookups": [0]}],
                    "lookups": [{"type": 1, "flag": 0, "subtables": [{"format": 1, "coverage": [n], "delta": 0}]}]}}
    return rec, cmap


class SynthCase(corpus.Case):
    pass


def synth_case(name):
    c = SynthCase()
    c.name = name; c.font = name; c.index = 0; c.text = ""; c.dir = None; c.script = None
    c.lang = None; c.flags = 0; c.level = 0; c.feats = []; c.pre = ""; c.post = ""; c.extra = []; c.opts = ""
    return c


_corpus_groups = None


def corpus_groups():
    global _corpus_groups
    if _corpus_groups is None:
        g = []
        for fid, reg, cs in corpus.font_groups(corpus.load()):
            g.append((fid, reg, cs, {ord(ch) for c in cs for ch in c.text}))
        _corpus_groups = g
    return _corpus_groups


def fonts_for(name, r, ncorpus, variants=None):
    """[(fontid, registration line, case object, has_space)] for a script: synthetic variants, then `ncorpus` corpus fonts
    whose fixture texts use the script (the ones with the widest repertoire first, the rest sampled)"""
    out = []
    tags = OT_TAGS.get(name, ["DFLT"])
    vs = variants if variants is not None else [(t, True) for t in tags] + [(tags[0], False)]
    for k, (tag, dotted) in enumerate(vs):
        rec, _ = synth_font(name, tag, dotted=dotted)
        fid = f"Y{name}{k}"
        out.append((fid, f"font {fid} {fontbuild.hexfont(rec)}", synth_case(f"synthetic::{name}/{tag.strip()}{'' if dotted else '/no-dotted-circle'}"), True))
    ranges = C08.SCRIPTS[name]
    cand = []
    for fid, reg, cs, alpha in corpus_groups():
        k = sum(1 for c in alpha if c >= 0x300 and any(a <= c <= b for a, b in ranges))
        if k >= 2:
            cand.append((k, fid, reg, cs))
    cand.sort(key=lambda x: (-x[0], x[1]))
    pick = cand[:max(1, ncorpus // 2)] + r.sample(cand[max(1, ncorpus // 2):], ncorpus - max(1, ncorpus // 2)) if cand else []
    for k, fid, reg, cs in pick[:ncorpus]:
        c = cs[0]
        b = synth_case(c.name); b.extra = [kv for kv in c.extra if kv.startswith("var=")]
        out.append((fid, reg, b, None))
    return out


# ------------------------------------------------------------------------------------------------
# texts

GENERIC_MARKS = [0x300, 0x301, 0x302, 0x323, 0x324, CGJ]


def mark_run_text(r, ro):
    """1..3 x (base + 2..6 marks): marks of the script, the shaper-source marks over-represented, now and then a generic
    combining mark, CGJ or a joiner inside the run"""
    bases = ro["letters"] or ro["alpha"]
    marks = ro["marks"] or GENERIC_MARKS
    src = ro["src_marks"]
    # a small working set per text, so that several marks of ONE combining class / kind meet in one run
    work = [r.choice(marks) for _ in range(r.range(1, 4))]
    by_cls = {}
    for m in marks:
        by_cls.setdefault(ccc(m), []).append(m)
    out = []
    for _ in range(r.range(1, 3)):
        out.append(r.choice(bases) if not r.chance(1, 12) else r.choice([DOTTED, NBSP, 0x20]))
        if ro["nukta"] and r.chance(1, 8): out.append(r.choice(ro["nukta"]))
        for _ in range(r.range(2, 6)):
            k = r.below(12)
            if src and k < 5: out.append(r.choice(src))
            elif k < 7: out.append(r.choice(work))
            elif k < 8: out.append(r.choice(by_cls[ccc(r.choice(work))]))
            elif k < 11: out.append(r.choice(marks))
            else: out.append(r.choice(GENERIC_MARKS + [ZWJ, ZWNJ]))
    return out[:16]


def special_symbols(r, ro):
    """the role alphabet of one font variant: (symbol name, code point); roles the script lacks are left out"""
    cons = ro["cons"]
    c1 = [c for c in cons if re.search(r"LETTER (KA|KO|KAF|KHO KHAI|ALAPH|BET|BEH)$", uname(c))] or cons[:1]
    sym = []
    if ro["ra"]: sym.append(("RA", ro["ra"][0]))
    for i, h in enumerate(ro["halant"][:2]): sym.append((f"H{i}" if i else "H", h))
    sym += [("ZWJ", ZWJ), ("ZWNJ", ZWNJ)]
    if ro["nukta"]: sym.append(("N", ro["nukta"][0]))
    if c1: sym.append(("C1", c1[0]))
    if len(cons) > 1: sym.append(("C2", r.choice([c for c in cons if c != c1[0]])))
    if ro["matra"]: sym.append(("M", r.choice(ro["matra"])))
    elif ro["marks"]: sym.append(("M", r.choice(ro["marks"])))
    return sym


def all_orders(symbols, maxlen):
    out = [[]]
    res = []
    for _ in range(maxlen):
        out = [s + [x] for s in out for x in symbols]
        res += out
    return res


def special_random_text(r, ro, sym):
    """4..7 characters: the role symbols, re-instantiated roles (another consonant / matra / virama / RA of the script),
    shaper-source literals and, rarely, anything of the script"""
    out = []
    cps = [c for _, c in sym]
    for _ in range(r.range(4, 7)):
        k = r.below(12)
        if k < 6: out.append(r.choice(cps))
        elif k < 7 and ro["cons"]: out.append(r.choice(ro["cons"]))
        elif k < 8 and ro["matra"]: out.append(r.choice(ro["matra"]))
        elif k < 9 and ro["src_all"]: out.append(r.choice(ro["src_all"]))
        elif k < 10 and (ro["ra"] or ro["halant"]): out.append(r.choice(ro["ra"] + ro["halant"]))
        elif k < 11: out.append(r.choice(ro["alpha"]))
        else: out.append(r.choice([DOTTED, NBSP, 0x20, CGJ]))
    return out
