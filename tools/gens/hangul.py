"""Gen/Hangul.lean: the Hangul shaper's constants and predicate ranges, extracted from the *compiled crate*
through the `verif::hangul` hook (`hangul consts`, `hangul ranges` of rbshim) — nothing is hand-copied."""
import vlib
from gen_lean import write_if_changed

CONSTS = ["LBase", "VBase", "TBase", "LCount", "VCount", "TCount", "NCount", "SCount", "SBase",
          "LJMO", "VJMO", "TJMO"]
PREDS = ["combiningL", "combiningV", "combiningT", "combinedS", "l", "v", "t", "tone"]


def generate(shim):
    outs = vlib.run_lines(shim, ["hangul consts", "hangul ranges"], nproc=1)
    cs = outs[0].split()
    rs = outs[1].split()
    if len(cs) != len(CONSTS) or len(rs) != len(PREDS):
        raise vlib.BuildError(f"hangul hook: unexpected replies {outs}")
    body = ["namespace RbModel.Gen.Hangul",
            "/-! constants of ot_shaper_hangul.rs as compiled (hook `verif::hangul::constants`, `feature_ids`) -/"]
    for n, v in zip(CONSTS, cs):
        body.append(f"abbrev {n} : Nat := {int(v)}")
    body.append("/-! maximal ranges (inclusive) on which each predicate answers true, scanned over 0..=0x10FFFF -/")
    for n, r in zip(PREDS, rs):
        items = [] if r == "-" else [tuple(map(int, x.split("-"))) for x in r.split(",")]
        body.append(f"def {n}Ranges : List (Nat × Nat) := [" + ", ".join(f"({a}, {b})" for a, b in items) + "]")
    body.append("end RbModel.Gen.Hangul")
    return write_if_changed("Hangul.lean", "\n".join(body) + "\n")
