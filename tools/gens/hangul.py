"""Gen/Hangul.lean: the Hangul shaper's constants and predicate ranges, extracted from the *compiled crate*
through the `verif::hangul` hook (`hangul consts`, `hangul ranges` of rbshim) — nothing is hand-copied."""
import vlib
from gen_lean import write_if_changed

CONSTS = ["LBase", "VBase", "TBase", "LCount", "VCount", "TCount", "NCount", "SCount", "SBase",
          "LJMO", "VJMO", "TJMO"]
PREDS = ["combiningL", "combiningV", "combiningT", "combinedS", "l", "v", "t", "tone"]
# `hangul plan`: names of verif::shaper::shaper_name in the order of RbModel.Hangul.Shaper.code
SHAPERS = ["default", "dumber", "hangul", "arabic", "hebrew", "indic", "khmer", "myanmar", "zawgyi", "thai", "use"]
DIRS = "lrtb"


def planner_probe(shim):
    """what ShapePlan::new of the compiled crate decides for script Hang on the 2 x 2 table environments (GSUB, morx)
    x 4 directions: rows (hasGsub, hasMorx, direction 0..3, shaper code, apply_morx)."""
    keys = [(g, m, d) for g in (0, 1) for m in (0, 1) for d in range(4)]
    reqs = [f"hangul plan {('S' if g else '') + ('M' if m else '') or '-'} {DIRS[d]} Hang hangul" for g, m, d in keys]
    outs = vlib.run_lines(shim, reqs, nproc=1)
    rows = []
    for (g, m, d), q, o in zip(keys, reqs, outs):
        t = o.split()
        if len(t) != 2 or t[0] not in SHAPERS or t[1] not in ("0", "1"):
            raise vlib.BuildError(f"hangul plan probe: {q} -> {o[:200]}")
        rows.append((g, m, d, SHAPERS.index(t[0]), int(t[1])))
    return rows


def generate(shim):
    outs = vlib.run_lines(shim, ["hangul consts", "hangul ranges"], nproc=1)
    cs = outs[0].split()
    rs = outs[1].split()
    if len(cs) != len(CONSTS) or len(rs) != len(PREDS):
        raise vlib.BuildError(f"hangul hook: unexpected replies {outs}")
    body = ["namespace RbModel.Gen.Hangul",
            "/-! constants of ot_shaper_hangul.rs as compiled (hook `verif::hangul::constants`, `feature_ids`) -/"]
    for n, v in zip(CONSTS, cs):
        body.append(f"abbrev {n} : Nat := {int(v)}")
    body.append("/-! maximal ranges (inclusive) on which each predicate answers true, scanned over 0..=0x10FFFF -/")
    for n, r in zip(PREDS, rs):
        items = [] if r == "-" else [tuple(map(int, x.split("-"))) for x in r.split(",")]
        body.append(f"def {n}Ranges : List (Nat × Nat) := [" + ", ".join(f"({a}, {b})" for a, b in items) + "]")
    b = lambda x: "true" if x else "false"
    body.append("/-! the planner probed on the compiled crate (`hangul plan`, script Hang): (font has GSUB, font has morx, "
                "direction 0 LTR 1 RTL 2 TTB 3 BTT, shaper of the plan: 0 default 1 dumber 2 hangul, plan.apply_morx) -/")
    body.append("def plannerProbe : List (Bool × Bool × Nat × Nat × Bool) := ["
                + ", ".join(f"({b(g)}, {b(m)}, {d}, {sh}, {b(am)})" for g, m, d, sh, am in planner_probe(shim)) + "]")
    body.append("end RbModel.Gen.Hangul")
    return write_if_changed("Hangul.lean", "\n".join(body) + "\n")
