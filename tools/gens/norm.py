"""Gen/Norm.lean: (de)composition tables, Hangul constants, modified combining classes, mark / space /
default-ignorable / variation-selector sets and buffer flag constants, all dumped from the compiled crate
through `rustybuzz::verif::{unicode, normalize}` (request `norm table <which>` of rbshim).
Gen/NormRef.lean: the canonical decomposition mappings, primary composites and combining classes of
CPython's `unicodedata` (Unicode 14.0 here, the crate has 16.0): the reference is therefore restricted
to characters assigned in 14.0 — by the normalization stability policy their mappings never change."""
import sys, unicodedata
import vlib
from gen_lean import write_if_changed


def chunked_list(name, typ, rows, per=100):
    """like gen_lean.chunked_list, but the chunks are appended right-nested (`c0 ++ (c1 ++ (c2 ++ ...))`):
    kernel evaluation of a left-nested chain re-walks the prefix once per chunk."""
    out, parts = [], []
    for i in range(0, max(len(rows), 1), per):
        part = f"{name}_{i // per}"
        parts.append(part)
        out.append(f"def {part} : List ({typ}) := [{', '.join(rows[i:i + per])}]")
    expr = parts[-1]
    for p in reversed(parts[:-1]):
        expr = f"{p} ++ ({expr})"
    out.append(f"def {name} : List ({typ}) := {expr}")
    return "\n".join(out) + "\n"


def _ranges(tok):
    rows = []
    if tok.strip() in ("", "-"):
        return rows
    for t in tok.split():
        r, v = t.split(":")
        lo, hi = r.split("-")
        rows.append((int(lo), int(hi), int(v)))
    return rows


def dump(shim):
    names = ["decomp", "comp", "hangul", "mcc", "ccc", "mcctab", "marks", "zs", "di", "vs", "sfb", "consts", "consts2"]
    outs = vlib.run_lines(shim, [f"norm table {n}" for n in names], nproc=1)
    d = dict(zip(names, outs))
    for n, o in d.items():
        if o.startswith("panic") or o.startswith("bad-op") or o.startswith("abort"):
            raise vlib.BuildError(f"norm table {n}: {o[:200]}")
    return d


def triples(rows):
    return [f"({a}, {b}, {c})" for a, b, c in rows]


def pairs(rows):
    return [f"({a}, {b})" for a, b in rows]


def generate(shim):
    d = dump(shim)
    decomp = [tuple(int(x) for x in t.split(":")) for t in d["decomp"].split()]
    comp = [tuple(int(x) for x in t.split(":")) for t in d["comp"].split()]
    hg = [int(x) for x in d["hangul"].split()]
    consts = [int(x) for x in d["consts"].split()]
    mcctab = [int(x) for x in d["mcctab"].split()]
    hn = ["sBase", "lBase", "vBase", "tBase", "lCount", "vCount", "tCount", "nCount", "sCount"]
    body = "namespace RbModel.Gen.Norm\n"
    body += "-- unicode.rs: Hangul constants\n"
    for n, v in zip(hn, hg):
        body += f"def {n} : Nat := {v}\n"
    body += "-- ot_shaper.rs::MAX_COMBINING_MARKS, buffer.rs scratch flags, glyph_flag::DEFINED\n"
    for n, v in zip(["maxCombiningMarks", "flagNonAscii", "flagDI", "flagSpaceFallback", "flagCGJ", "glyphFlagDefined"], consts):
        body += f"def {n} : Nat := {v}\n"
    body += "-- buffer.rs::HB_BUFFER_SCRATCH_FLAG_HAS_VARIATION_SELECTOR_FALLBACK\n"
    body += f"def flagVSFallback : Nat := {int(d['consts2'].split()[0])}\n"
    body += "-- unicode_norm.rs::DECOMPOSITION_TABLE rows (ab, a, b), b = 0 for a singleton decomposition\n"
    body += chunked_list("decompTable", "Nat × Nat × Nat", triples(decomp))
    body += "-- unicode_norm.rs::COMPOSITION_TABLE rows (a <<< 32 ||| b, ab)\n"
    body += chunked_list("compTable", "Nat × Nat", pairs(comp))
    body += "-- CharExt::modified_combining_class over all scalar values: (lo, hi, value) for value ≠ 0\n"
    body += chunked_list("mccRanges", "Nat × Nat × Nat", triples(_ranges(d["mcc"])))
    body += "-- unicode_ccc::get_canonical_combining_class over all scalar values: (lo, hi, value) for value ≠ 0\n"
    body += chunked_list("cccRanges", "Nat × Nat × Nat", triples(_ranges(d["ccc"])))
    body += "-- unicode.rs::MODIFIED_COMBINING_CLASS\n"
    body += chunked_list("mccTab", "Nat", [str(x) for x in mcctab], per=64)
    body += "-- general_category().is_mark()\n"
    body += chunked_list("markRanges", "Nat × Nat × Nat", triples(_ranges(d["marks"])))
    body += "-- general_category() == SpaceSeparator\n"
    body += chunked_list("zsRanges", "Nat × Nat × Nat", triples(_ranges(d["zs"])))
    body += "-- CharExt::is_default_ignorable\n"
    body += chunked_list("diRanges", "Nat × Nat × Nat", triples(_ranges(d["di"])))
    body += "-- CharExt::is_variation_selector\n"
    body += chunked_list("vsRanges", "Nat × Nat × Nat", triples(_ranges(d["vs"])))
    body += "-- CharExt::space_fallback: (lo, hi, space_t) for ≠ NOT_SPACE\n"
    body += chunked_list("sfbRanges", "Nat × Nat × Nat", triples(_ranges(d["sfb"])))
    body += "end RbModel.Gen.Norm\n"
    ch = []
    if write_if_changed("Norm.lean", body):
        ch.append("Norm.lean")

    # ---- reference from CPython (Unicode 14.0 in this sandbox)
    uv = unicodedata.unidata_version
    assigned = lambda c: unicodedata.category(chr(c)) != "Cn"
    ref_decomp, ref_comp = [], []
    for c in range(0x110000):
        if 0xD800 <= c <= 0xDFFF:
            continue
        dm = unicodedata.decomposition(chr(c))
        if not dm or dm.startswith("<"):
            continue
        parts = [int(x, 16) for x in dm.split()]
        assert 1 <= len(parts) <= 2
        a, b = parts[0], (parts[1] if len(parts) == 2 else 0)
        ref_decomp.append((c, a, b))
        # primary composite: not excluded from composition  <=>  NFC of its own mapping gives it back
        if b and unicodedata.normalize("NFC", chr(a) + chr(b)) == chr(c):
            ref_comp.append(((a << 32) | b, c))
    ref_comp.sort()
    # rows of the crate's tables whose character is not assigned in the reference's Unicode version
    new_decomp = [r for r in decomp if not assigned(r[0])]
    new_comp = [r for r in comp if not assigned(r[1])]
    # canonical pair mappings that are excluded from composition (Full_Composition_Exclusion, pairs only)
    ref_excl = sorted(((a << 32) | b, c) for c, a, b in ref_decomp
                      if b and unicodedata.normalize("NFC", chr(a) + chr(b)) != chr(c))
    # combining classes of the reference, as ranges over assigned characters with ccc ≠ 0
    ccc_rows, cur = [], None
    for c in range(0x110000):
        v = 0 if 0xD800 <= c <= 0xDFFF else unicodedata.combining(chr(c))
        if cur and cur[2] == v and cur[1] + 1 == c:
            cur[1] = c
            continue
        if cur:
            ccc_rows.append(tuple(cur))
            cur = None
        if v:
            cur = [c, c, v]
    if cur:
        ccc_rows.append(tuple(cur))
    # characters with ccc ≠ 0 in the crate that are unassigned in the reference: (c, ccc)
    new_ccc = [(c, v) for lo, hi, v in _ranges(d["ccc"]) for c in range(lo, hi + 1) if not assigned(c)]
    body = "namespace RbModel.Gen.NormRef\n"
    body += f"-- CPython unicodedata, Unicode {uv}\n"
    body += f"def unicodeVersion : String := \"{uv}\"\n"
    body += "-- canonical decomposition mappings (UnicodeData field 5 without <tag>): (c, a, b), b = 0 for singletons\n"
    body += chunked_list("decompTable", "Nat × Nat × Nat", triples(ref_decomp))
    body += "-- primary composites (canonical pair mappings that NFC recomposes, i.e. not composition-excluded): (a <<< 32 ||| b, c)\n"
    body += chunked_list("compTable", "Nat × Nat", pairs(ref_comp))
    body += "-- canonical pair mappings excluded from composition (Full_Composition_Exclusion): (a <<< 32 ||| b, c)\n"
    body += chunked_list("exclTable", "Nat × Nat", pairs(ref_excl))
    body += "-- rows of the crate's decomposition / composition tables whose character is unassigned (Cn) in this Unicode version\n"
    body += chunked_list("newDecomp", "Nat × Nat × Nat", triples(new_decomp))
    body += chunked_list("newComp", "Nat × Nat", pairs(new_comp))
    body += "-- Canonical_Combining_Class ≠ 0: (lo, hi, ccc)\n"
    body += chunked_list("cccRanges", "Nat × Nat × Nat", triples(ccc_rows))
    body += "-- characters with a non-zero class in the crate that are unassigned in this Unicode version: (c, ccc)\n"
    body += chunked_list("newCcc", "Nat × Nat", pairs(new_ccc))
    body += "end RbModel.Gen.NormRef\n"
    if write_if_changed("NormRef.lean", body):
        ch.append("NormRef.lean")
    return ch
