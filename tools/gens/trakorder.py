"""Gen/TrakOrder.lean — where the current tree applies AAT tracking relative to the zeroing of default ignorables in
ot_shape.rs::position_complex: recovered behaviourally from the compiled crate (one call of the `position_complex_of` hook on a
font whose only layout table is `trak`: does a hidden, grapheme-starting default ignorable with the trak bit on keep the tracking
amount?)."""
import struct
import gen_lean, vlib, fontbuild


def probe_font():
    sizes, vals = [9, 12, 72], [-60, 30, 160]
    size_off = 12 + 8 + 8
    val_off = size_off + 4 * len(sizes)
    hor = (struct.pack(">HHI", 1, len(sizes), size_off) + struct.pack(">iHH", 0, 256, val_off)
           + b"".join(struct.pack(">i", z << 16) for z in sizes) + b"".join(struct.pack(">h", v) for v in vals))
    trak = struct.pack(">IHHHH", 0x00010000, 0, 12, 0, 0) + hor
    return fontbuild.build({"num_glyphs": 3, "cmap": {0x41: 1, 0x20: 2}, "tables": {"trak": trak}}).hex()


def generate(shim):
    hx = probe_font()
    # one slot: cluster 0, unicode_props = Format | IGNORABLE (a default ignorable that starts a grapheme), glyph_props 0, trak
    # bit on; scratch flags = HAS_DEFAULT_IGNORABLES; point size 12 -> tracking +30
    probes = [f"trak poscx {hx} 12 l 0 0 2 30 0.33.0.1",
              f"trak poscx {hx} 12 l 0 0 2 30 0.7.0.1"]        # control: a letter is tracked (1030, offset 15)
    o = vlib.run_lines(shim, probes, nproc=1)
    if o[1] != "ok 1030:1000:15:0":
        raise vlib.BuildError(f"position_complex_of probe: the control (a tracked letter) gave {o[1]!r}")
    try:
        after = {"ok 0:0:0:0": False, "ok 30:0:15:0": True}[o[0]]
    except KeyError:
        raise vlib.BuildError(f"position_complex probe gave an outcome the model has no variant for: {o}")
    body = ("namespace RbModel.Gen.TrakOrder\n"
            "/-- ot_shape.rs::position_complex: is `hb_aat_layout_track` applied AFTER `zero_width_default_ignorables`?\n"
            "    (the unchanged tree applies it inside `position_by_plan`, i.e. before) -/\n"
            f"def trackingAfterZeroing : Bool := {'true' if after else 'false'}\n"
            "end RbModel.Gen.TrakOrder\n")
    return gen_lean.write_if_changed("TrakOrder.lean", body)
