"""Gen/Lifecycle.lean — behavioural probes through the PUBLIC api of the compiled crate:
  leaveAtEnd : does shape()/shape_with_plan() give the buffer its default limits back when the buffer was EMPTY?
               (probe: shape an empty buffer, GlyphBuffer::clear, push_str of 20 000 chars, look at len())
  randomSeed : random_state of a fresh apply context (hook verif::gsubgpos::random_sequence).
  randomSeedRecycled : random_state of an apply context created on a public buffer that has been through two shape() calls which
               drew 9 alternates through the `rand` feature (probe font: T -> one of three alternates) and was recycled with
               GlyphBuffer::clear() after each (hook verif::gsubgpos::random_sequence_on)
and one reading of the sources plus one behavioural probe for "clear() gives a fresh buffer":
  bufferFields     : the field names of `pub struct hb_buffer_t` in src/hb/buffer.rs, in order (parsed on every run; the
                     model's `Life.Field` must list exactly these)
  clearKeeps       : the fields that `hb_buffer_t::clear()` does NOT bring back to the value of `hb_buffer_t::new()` —
                     hook verif::buffer::clear_probe on a buffer whose EVERY field differs from a fresh one, every field
                     read back and compared with the same probe on an all-default buffer
  invisibleWriters : assignments to a field `invisible` anywhere in src/hb/*.rs outside the verif_hooks modules"""
import os, re
import gen_lean, vlib

# key of the state line (harness/src/ops/lifecycle.rs::fmt_life) -> field(s) of hb_buffer_t it reads back
STATE_KEYS = {"L": ["cluster_level"], "F": ["flags"], "M": ["max_len"], "O": ["max_ops"], "h": ["have_output"],
              "s": ["have_separate_output"], "p": ["have_positions"], "ok": ["successful"], "i": ["idx"], "n": ["len"],
              "o": ["out_len"], "sc": ["scratch_flags"], "se": ["serial"], "il": ["info"], "I": ["info"], "pl": ["pos"],
              "D": ["direction"], "S": ["script"], "G": ["language"], "pre": ["context", "context_len"],
              "post": ["context", "context_len"], "cx": ["context"], "sf": ["shaping_failed"],
              "nf": ["not_found_variation_selector"], "inv": ["invisible"]}
DIRTY = ("lcclear L=2 F=195 M=16384 O=77 h=1 s=1 p=1 ok=0 i=2 n=2 o=1 sc=5 se=9 il=3 pl=4 D=2 S=1098015074 G=x656e "
         "pre=628,644 post=627,628,644 sf=1 nf=7 inv=3 I=10:4,11:5")
FRESH = ("lcclear L=0 F=0 M=1073741823 O=536870911 h=0 s=0 p=0 ok=1 i=0 n=0 o=0 sc=0 se=0 il=0 pl=0 D=0 S=- G=- pre=- "
         "post=- sf=0 nf=- inv=- I=-")


def struct_fields():
    src = open(os.path.join(vlib.REPO, "src", "hb", "buffer.rs")).read()
    m = re.search(r"pub struct hb_buffer_t\s*\{(.*?)\n\}", src, re.S)
    if not m:
        raise vlib.BuildError("pub struct hb_buffer_t not found in src/hb/buffer.rs")
    body = re.sub(r"//[^\n]*", "", m.group(1))
    return re.findall(r"(?:pub(?:\([a-z]+\))?\s+)?([a-z_][a-z0-9_]*)\s*:", body)


def invisible_writers():
    d = os.path.join(vlib.REPO, "src", "hb")
    n = 0
    for fn in sorted(os.listdir(d)):
        if fn.endswith(".rs"):
            src = open(os.path.join(d, fn)).read().split("pub mod verif_hooks")[0]
            src = re.sub(r"//[^\n]*", "", src)
            n += len(re.findall(r"\.\s*invisible\s*=[^=]", src))
    return n


def kvs(line):
    return dict(t.split("=", 1) for t in line.split() if "=" in t)


def probe_font():
    d = os.path.join(vlib.REPO, "tests", "fonts", "in-house")
    return os.path.join(d, sorted(f for f in os.listdir(d) if f.endswith(".ttf"))[0])


def rand_probe_font():
    """T -> AlternateSubst {3, 4, 5} under `rand`; the control shaping must show a drawn alternate"""
    import fontbuild
    rec = {"num_glyphs": 6, "cmap": {0x54: 1, 0x20: 2}, "advances": [500, 510, 520, 530, 540, 550],
           "gsub": {"features": [{"tag": "rand", "lookups": [0]}],
                    "lookups": [{"type": 3, "flag": 0, "subtables": [{"coverage": [1], "alternates": [[3, 4, 5]]}]}]}}
    d = os.path.join(vlib.HARN, "target", "c05fonts")
    os.makedirs(d, exist_ok=True)
    p = os.path.join(d, "rand-probe.ttf")
    data = fontbuild.build(rec)
    if not os.path.exists(p) or open(p, "rb").read() != data:
        open(p, "wb").write(data)
    return p


def generate(shim):
    f = probe_font()
    rp = rand_probe_font()
    ro = vlib.run_lines(shim, [f"lcrand {rp} 0 54*6 p:54*3", f"lc {rp} ; push 54,54,54,54,54,54 ; shape - ; dump"], nproc=1)
    try:
        recycled = int(ro[0].split()[0])
        gids = {int(g.split(":")[0]) for g in ro[1].split("dump=ok_6_")[1].split("_")}
        if not gids <= {3, 4, 5}:
            raise ValueError("the rand feature drew no alternate on the probe font")
    except Exception as e:
        raise vlib.BuildError(f"rand probe gave an outcome the model has no variant for: {[x[-200:] for x in ro]} ({e})")
    o = vlib.run_lines(shim, [f"lc {f} ; new ; shape - ; clear ; pushn 61 20000",
                              f"lc {f} ; new ; plan - ; clear ; pushn 61 20000",
                              f"lcrand {f} 0", DIRTY, FRESH], nproc=1)
    fields = struct_fields()
    try:
        a, b = kvs(o[3]), kvs(o[4])
        if not a or set(a) != set(b) or not set(a) - {"k", "e"} <= set(STATE_KEYS):
            raise ValueError("unexpected state line")
        if kvs(FRESH) != {k: v for k, v in b.items() if k in kvs(FRESH)}:
            raise ValueError("clear() of an all-default buffer is not the all-default buffer")
        kept = {x for k in a if a[k] != b[k] for x in STATE_KEYS[k]}
        # every key of the dirty request differs from the fresh one: nothing is "reset" only because it never moved
        same = [k for k, v in kvs(DIRTY).items() if kvs(FRESH)[k] == v]
        if same:
            raise ValueError(f"dirty probe leaves {same} at the default")
    except Exception as e:
        raise vlib.BuildError(f"clear-probe gave an outcome the model has no variant for: {o[3:5]} ({e})")
    clear_keeps = [x for x in fields if x in kept] + sorted(kept - set(fields))
    try:
        ns = []
        for reply in o[:2]:
            last = reply.split(" | ")[-1]
            kv = dict(t.split("=", 1) for t in last.split() if "=" in t)
            ns.append(int(kv["n"]))
        leave = {(20000, 20000): True, (0, 0): False}[tuple(ns)]
        seed = int(o[2].split()[0])
    except Exception as e:
        raise vlib.BuildError(f"life-cycle probes gave an outcome the model has no variant for: {o} ({e})")
    body = ("namespace RbModel.Gen.Lifecycle\n"
            f"def leaveAtEnd : Bool := {'true' if leave else 'false'}\n"
            f"def randomSeed : Nat := {seed}\n"
            f"def randomSeedRecycled : Nat := {recycled}\n"
            "def bufferFields : List String := [" + ", ".join(f'"{x}"' for x in fields) + "]\n"
            "def clearKeeps : List String := [" + ", ".join(f'"{x}"' for x in clear_keeps) + "]\n"
            f"def invisibleWriters : Nat := {invisible_writers()}\n"
            "end RbModel.Gen.Lifecycle\n")
    return gen_lean.write_if_changed("Lifecycle.lean", body)
