"""Gen/Lifecycle.lean — behavioural probes through the PUBLIC api of the compiled crate:
  leaveAtEnd : does shape()/shape_with_plan() give the buffer its default limits back when the buffer was EMPTY?
               (probe: shape an empty buffer, GlyphBuffer::clear, push_str of 20 000 chars, look at len())
  randomSeed : random_state of a fresh apply context (hook verif::gsubgpos::random_sequence)."""
import os
import gen_lean, vlib


def probe_font():
    d = os.path.join(vlib.REPO, "tests", "fonts", "in-house")
    return os.path.join(d, sorted(f for f in os.listdir(d) if f.endswith(".ttf"))[0])


def generate(shim):
    f = probe_font()
    o = vlib.run_lines(shim, [f"lc {f} ; new ; shape - ; clear ; pushn 61 20000",
                              f"lc {f} ; new ; plan - ; clear ; pushn 61 20000",
                              f"lcrand {f} 0"], nproc=1)
    try:
        ns = []
        for reply in o[:2]:
            last = reply.split(" | ")[-1]
            kv = dict(t.split("=", 1) for t in last.split() if "=" in t)
            ns.append(int(kv["n"]))
        leave = {(20000, 20000): True, (0, 0): False}[tuple(ns)]
        seed = int(o[2].split()[0])
    except Exception as e:
        raise vlib.BuildError(f"life-cycle probes gave an outcome the model has no variant for: {o} ({e})")
    body = ("namespace RbModel.Gen.Lifecycle\n"
            f"def leaveAtEnd : Bool := {'true' if leave else 'false'}\n"
            f"def randomSeed : Nat := {seed}\n"
            "end RbModel.Gen.Lifecycle\n")
    return gen_lean.write_if_changed("Lifecycle.lean", body)
