"""Gen/ScriptIso.lean — `Script::from_iso15924_tag` of src/hb/common.rs transcribed from the Rust SOURCE on every run.

The function is a straight line of four kinds of statements; the transcriber keeps their ORDER and every constant:

  * `if tag.is_null() { return None; }`                                    -> Step.nullCheck
  * `let tag = Tag((tag.as_u32() & 0x…) | 0x…);`                           -> Step.adjust and or
  * `match &tag.to_bytes() { b"Xxxx" | b"Yyyy" => return Some(script::NAME), … _ => {} }`
                                                                            -> Step.alias [(tag of Xxxx, tag of NAME's constant), …]
  * the tail `if tag.as_u32() & 0x… == 0x… { Some(Script(tag)) } else { Some(script::UNKNOWN) }`
                                                                            -> mask, value, tag of UNKNOWN

Any other statement makes the regeneration fail loudly.  Also emitted:

  scriptConstants   every `pub const NAME: Script = Script::from_bytes(b"Xxxx")` of `pub mod script`, in source order
                    (tag as a big-endian number)

Behaviour is tied by the `script-iso` correspondence stream (C18)."""
import os, re
import vlib
from gen_lean import write_if_changed, chunked_list


def tag_num(s):
    b = s.encode("latin-1")
    if len(b) != 4:
        raise vlib.BuildError(f"script_iso: tag literal {s!r} is not 4 bytes")
    return (b[0] << 24) | (b[1] << 16) | (b[2] << 8) | b[3]


def constants(src):
    return re.findall(r'pub const ([A-Z][A-Z0-9_]*): Script = Script::from_bytes\(b"(.{4})"\);', src)


def parse(src):
    """-> (steps, (mask, value, unknown tag)); steps = [("null",) | ("adjust", and, or) | ("alias", [(from, to, text)])]"""
    m = re.search(r"pub fn from_iso15924_tag\(tag: Tag\) -> Option<Script> \{\n(.*?)\n    \}\n", src, flags=re.S)
    if not m:
        raise vlib.BuildError("script_iso: Script::from_iso15924_tag not found in common.rs")
    consts = dict(constants(src))
    lines = []
    for raw in m.group(1).split("\n"):
        ln = raw.strip()
        if "//" in ln:
            ln = ln[:ln.index("//")].strip()
        if ln:
            lines.append(ln)
    text = " ".join(lines)
    steps, tail = [], None
    pos = 0
    pats = [
        ("null", re.compile(r"if tag\.is_null\(\) \{ return None; \}\s*")),
        ("adjust", re.compile(r"let tag = Tag\(\(tag\.as_u32\(\) & 0x([0-9A-Fa-f_]+)\) \| 0x([0-9A-Fa-f_]+)\);\s*")),
        ("alias", re.compile(r"match &tag\.to_bytes\(\) \{ (.*?) _ => \{\} \}\s*")),
        ("tail", re.compile(r"if tag\.as_u32\(\) & 0x([0-9A-Fa-f_]+) == 0x([0-9A-Fa-f_]+) \{ Some\(Script\(tag\)\) \} "
                            r"else \{ Some\(script::([A-Z][A-Z0-9_]*)\) \}\s*$")),
    ]
    while pos < len(text):
        for kind, p in pats:
            mm = p.match(text, pos)
            if mm:
                break
        else:
            raise vlib.BuildError(f"script_iso: unknown statement in from_iso15924_tag at: {text[pos:pos + 90]!r}")
        pos = mm.end()
        if tail is not None:
            raise vlib.BuildError("script_iso: statement after the tail expression")
        if kind == "null":
            steps.append(("null",))
        elif kind == "adjust":
            steps.append(("adjust", int(mm.group(1).replace("_", ""), 16), int(mm.group(2).replace("_", ""), 16)))
        elif kind == "alias":
            rows = []
            arms = mm.group(1)
            apos = 0
            arm = re.compile(r'((?:b"[^"]{4}"(?: \| )?)+) => return Some\(script::([A-Z][A-Z0-9_]*)\),\s*')
            while apos < len(arms):
                am = arm.match(arms, apos)
                if not am:
                    raise vlib.BuildError(f"script_iso: unknown match arm: {arms[apos:apos + 80]!r}")
                apos = am.end()
                if am.group(2) not in consts:
                    raise vlib.BuildError(f"script_iso: script::{am.group(2)} has no constant")
                for lit in re.findall(r'b"([^"]{4})"', am.group(1)):
                    rows.append((tag_num(lit), tag_num(consts[am.group(2)]), f"{lit} -> {consts[am.group(2)]}"))
            steps.append(("alias", rows))
        else:
            if mm.group(3) not in consts:
                raise vlib.BuildError(f"script_iso: script::{mm.group(3)} has no constant")
            tail = (int(mm.group(1).replace("_", ""), 16), int(mm.group(2).replace("_", ""), 16), tag_num(consts[mm.group(3)]))
    if tail is None:
        raise vlib.BuildError("script_iso: tail expression of from_iso15924_tag not found")
    return steps, tail


def read_source():
    return open(os.path.join(vlib.REPO, "src", "hb", "common.rs"), encoding="utf-8").read()


def generate(shim):
    src = read_source()
    steps, tail = parse(src)
    cs = constants(src)
    body = "namespace RbModel.Gen.ScriptIso\n\n"
    items = []
    for s in steps:
        if s[0] == "null":
            items.append("(0, 0, 0, [])")
        elif s[0] == "adjust":
            items.append(f"(1, 0x{s[1]:08X}, 0x{s[2]:08X}, [])")
        else:
            items.append("(2, 0, 0, [" + ", ".join(f"({a}, {b}) /- {t} -/" for a, b, t in s[1]) + "])")
    body += ("/-- `Script::from_iso15924_tag`, statement by statement in source order: (kind, and, or, rows);\n"
             "    kind 0 = `if tag.is_null() { return None; }`, 1 = `let tag = Tag((tag.as_u32() & and) | or);`,\n"
             "    2 = `match &tag.to_bytes() { b\"from\" => return Some(to), … _ => {} }` as (from, to) rows -/\n")
    body += "def steps : List (Nat × Nat × Nat × List (Nat × Nat)) := [\n  " + ",\n  ".join(items) + "]\n"
    body += ("/-- the tail `if tag.as_u32() & tailMask == tailValue { Some(Script(tag)) } else { Some(script::UNKNOWN) }` -/\n"
             f"def tailMask : Nat := 0x{tail[0]:08X}\ndef tailValue : Nat := 0x{tail[1]:08X}\ndef tailUnknown : Nat := {tail[2]}\n\n")
    body += chunked_list("scriptConstants", "Nat", [f"{tag_num(t)} /- {n} {t} -/" for n, t in cs], per=40)
    body += "end RbModel.Gen.ScriptIso\n"
    return ["ScriptIso.lean"] if write_if_changed("ScriptIso.lean", body) else []
