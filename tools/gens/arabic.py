"""Gen/Arabic.lean — data of the Arabic joining core, extracted from the compiled crate through the
rustybuzz::verif::arabic hooks (harness op `arabic …`) on every run:
  stateTable      STATE_TABLE rows (prev_action, this_action, next_state)
  actionValues    arabic_action_t::{ISOL,FINA,FIN2,FIN3,MEDI,MED2,INIT,NONE}
  jtypeValues     discriminants of hb_arabic_joining_type_t::{U,L,R,D,GroupAlaph,GroupDalathRish,T,X}
  features        ARABIC_FEATURES tags in array order
  transparentGcs  general categories for which get_joining_type turns an X table entry into T
  fvs             code points treated as Mongolian free variation selectors by the FVS copy
  contextLength   how many context characters set_pre_context/set_post_context keep
  joiningRanges   joining_type(u) for every scalar value, as maximal runs (start, end, raw) with raw != X
"""
import vlib
from gen_lean import write_if_changed, chunked_list


def extract(shim):
    reqs = ["arabic table", "arabic consts", "arabic tgcs", "arabic fvs",
            "arabic ctx " + " ".join(str(65 + i) for i in range(12)) + " / " + " ".join(str(97 + i) for i in range(12)),
            "arabic ranges"]
    o = vlib.run_lines(shim, reqs, nproc=1)
    for q, r in zip(reqs, o):
        if r.startswith(("panic", "abort", "bad-op", "timeout")):
            raise vlib.BuildError(f"arabic hook dump failed: {q} -> {r[:200]}")
    t = o[0].split()
    rows, cols = int(t[0]), int(t[1])
    ents = [tuple(int(x) for x in e.split(":")) for e in t[2:]]
    if len(ents) != rows * cols:
        raise vlib.BuildError("arabic table: wrong entry count")
    table = [ents[r * cols:(r + 1) * cols] for r in range(rows)]
    parts = [p.split() for p in o[1].split("|")]
    actions = [int(x) for x in parts[0][1:]]
    jtypes = [int(x) for x in parts[1][1:]]
    feats = parts[2][1:]
    tgcs = [int(x) for x in o[2].split()]
    fvs = [int(x) for x in o[3].split()]
    pre, post = o[4].split("/")
    ctxlen = len(pre.split())
    if ctxlen != len(post.split()):
        raise vlib.BuildError("arabic ctx: pre and post context lengths differ")
    ranges = []
    for e in o[5].split():
        se, raw = e.split(":")
        s, e2 = se.split("-")
        ranges.append((int(s), int(e2), int(raw)))
    return dict(table=table, actions=actions, jtypes=jtypes, feats=feats, tgcs=tgcs, fvs=fvs,
                ctxlen=ctxlen, ranges=ranges)


def generate(shim):
    d = extract(shim)
    nl = lambda xs: "[" + ", ".join(map(str, xs)) + "]"
    rows = ",\n  ".join("[" + ", ".join(f"({a}, {b}, {c})" for a, b, c in r) + "]" for r in d["table"])
    body = "namespace RbModel.Gen.Arabic\n"
    body += f"def stateTable : List (List (Nat × Nat × Nat)) := [\n  {rows}]\n"
    body += f"def actionValues : List Nat := {nl(d['actions'])}\n"
    body += f"def jtypeValues : List Nat := {nl(d['jtypes'])}\n"
    body += "def features : List String := [" + ", ".join('"%s"' % f for f in d["feats"]) + "]\n"
    body += f"def transparentGcs : List Nat := {nl(d['tgcs'])}\n"
    body += f"def fvs : List Nat := {nl(d['fvs'])}\n"
    body += f"def contextLength : Nat := {d['ctxlen']}\n"
    body += chunked_list("joiningRanges", "Nat × Nat × Nat", [f"({s}, {e}, {r})" for s, e, r in d["ranges"]], per=50)
    body += "end RbModel.Gen.Arabic\n"
    return ["Arabic.lean"] if write_if_changed("Arabic.lean", body) else []
