"""Gen/Map.lean: constants of ot_map.rs / buffer.rs::glyph_flag read from the COMPILED crate through the hooks
`rustybuzz::verif::map::{constants, feature_flags}` (request `map consts` of rbshim)."""
import vlib, gen_lean

NAMES = ["maxBits", "maxValue", "globalBitShift", "globalBitMask", "glyphFlagDefined", "glyphFlagUnsafeToBreak",
         "glyphFlagUnsafeToConcat", "glyphFlagSafeToInsertTatweel", "fGlobal", "fHasFallback", "fManualZwnj",
         "fManualZwj", "fGlobalSearch", "fRandom", "fPerSyllable"]


def constants(shim):
    out = vlib.run_lines(shim, ["map consts"], nproc=1)[0].split()
    if len(out) != len(NAMES) or not all(x.isdigit() for x in out):
        raise vlib.BuildError(f"cannot read the map constants from the crate: {out}")
    return dict(zip(NAMES, map(int, out)))


def generate(shim):
    c = constants(shim)
    body = "namespace RbModel.Gen.Map\n"
    body += "".join(f"def {n} : Nat := {c[n]}\n" for n in NAMES)
    body += "end RbModel.Gen.Map\n"
    return ["Map.lean"] if gen_lean.write_if_changed("Map.lean", body) else []
