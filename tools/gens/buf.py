"""Gen/Buf.lean — which variant of three loops/guards of buffer.rs the current tree has (recovered
behaviourally from the compiled crate with three probe calls through verif::buffer), and the values of the two
PRODUCE_* buffer flags."""
import gen_lean, vlib


def I(cl):
    return ",".join(f"{10 + i}:0:{c}:0:0" for i, c in enumerate(cl))


def generate(shim):
    z5 = ",".join(["0:0:0:0:0"] * 5)
    probes = [
        # 1. merge_clusters "extend start" guard: descending buffer [3,3,2,1], merge(1,3)
        f"buf L=0 F=0 M=100 O=100 h=0 s=0 p=0 ok=1 i=0 n=4 o=0 sc=0 se=0 I={I([3,3,2,1])} U=- ; merge 1 3",
        # 2. move_to rewind copy direction: non-separate output, out_len=3, idx=4, rewind to 1
        f"buf L=0 F=0 M=100 O=100 h=1 s=0 p=0 ok=1 i=4 n=5 o=3 sc=0 se=0 I={I([0,1,2,3,4])} U={z5} ; moveto 1",
        # 3. ensure: Vec len 5, len 2, ensure(3)
        f"buf L=0 F=0 M=100 O=100 h=0 s=0 p=0 ok=1 i=0 n=2 o=0 sc=0 se=0 I={I([0,1,2,3,4])} U={z5} ; ensure 3",
        "bufconst",
    ]
    o = vlib.run_lines(shim, probes, nproc=1)

    def infos(reply):
        kv = dict(t.split("=", 1) for t in reply.split()[1:])
        return [tuple(int(x) for x in e.split(":")) for e in kv["I"].split(",")] if kv["I"] != "-" else []

    try:
        c0 = infos(o[0])[0][2]
        guard = {2: 1, 3: 0}[c0]
        g3 = infos(o[1])[3][0]
        rev = {12: True, 11: False}[g3]
        n = len(infos(o[2]))
        grow = {5: True, 3: False}[n]
        pc, pt = (int(x) for x in o[3].split())
    except Exception as e:
        raise vlib.BuildError(f"buffer.rs probes gave an outcome the model has no variant for: {o} ({e})")
    body = ("namespace RbModel.Gen.Buf\n"
            f"def extendStartGuard : Nat := {guard}\n"
            f"def moveToRewindReversed : Bool := {'true' if rev else 'false'}\n"
            f"def ensureGrowOnly : Bool := {'true' if grow else 'false'}\n"
            f"def produceUnsafeToConcat : Nat := {pc}\n"
            f"def produceSafeToInsertTatweel : Nat := {pt}\n"
            "end RbModel.Gen.Buf\n")
    return gen_lean.write_if_changed("Buf.lean", body)
