"""Gen/GposLigComp.lean — which ligature COMPONENT `MarkToLigatureAdjustment::apply` of the compiled crate attaches a mark to,
recovered behaviourally (request `gp sub 5 …`: the real Apply impl on a two-glyph buffer <ligature, mark>) for
  every relation of the two ligature ids (equal and non-zero, different, both zero, only one zero)
  x every value of the mark's lig_props low five bits (component numbers 0..15, with and without the "ligature base" bit: a
    glyph that is itself a ligature base — e.g. an output of a MultipleSubst applied to a ligature — reports component 0)
  x component counts 1, 2, 3, 4, 15, 16, 17 of the LigatureAttach table (component numbers have four bits).
Every component of the probe font has an anchor of its own (x = 100 * (component + 1)), so the x offset the mark receives names
the component.  Row = (ligature's lig_props, mark's lig_props, component count, 0 = not attached | component + 1).
Props/C07.lean states that the model's `ligComponent` equals this table (`C07_gen_marklig_component`)."""
import os, sys
import gen_lean, vlib

sys.path.insert(0, os.path.join(os.path.dirname(os.path.abspath(__file__)), "..", "props"))

COUNTS = [1, 2, 3, 4, 15, 16, 17]
IDS = [(1, 1), (5, 5), (1, 2), (0, 0), (0, 3), (3, 0)]          # (ligature id of the ligature, of the mark)
IS_LIG_BASE = 0x10


def probes():
    import C07
    lines, keys = [], []
    for n in COUNTS:
        data = C07.marklig_subtable({2: (0, (0, 0))}, {1: [[(100 * (c + 1), 0)] for c in range(n)]}, 1)
        for lid, mid in IDS:
            lig_lp = (lid << 5) | IS_LIG_BASE | min(n, 15)
            for low in range(32):
                mark_lp = (mid << 5) | low
                # glyph_props: 4 = ligature, 8 = mark (GDEF classes as set_glyph_props stores them)
                lines.append(f"gp sub 5 {data.hex()} 0 l 1 1:4:{lig_lp},2:8:{mark_lp} probe | 0:0:0:0:0:0 0:0:0:0:0:0")
                keys.append((lig_lp, mark_lp, n))
    return lines, keys


def read(shim):
    lines, keys = probes()
    outs = vlib.run_lines(shim, lines, nproc=1)
    rows = []
    for key, o in zip(keys, outs):
        t = o.split()
        if len(t) != 6 or t[0] != "ok":
            raise vlib.BuildError(f"gp sub 5 probe {key}: unexpected reply {o[:200]}")
        if t[1] == "0":
            rows.append(key + (0,))
            continue
        xo = int(t[5].split(":")[2])
        if xo % 100 or not 1 <= xo // 100 <= key[2]:
            raise vlib.BuildError(f"gp sub 5 probe {key}: offset {xo} names no component ({o[:200]})")
        rows.append(key + (xo // 100,))
    return rows


def generate(shim):
    rows = read(shim)
    body = ("namespace RbModel.Gen.GposLigComp\n"
            "/-- (ligature's lig_props, mark's lig_props, component count, 0 = not attached | chosen component + 1) -/\n"
            + gen_lean.chunked_list("rows", "Nat × Nat × Nat × Nat", [f"({a}, {b}, {n}, {c})" for a, b, n, c in rows])
            + "end RbModel.Gen.GposLigComp\n")
    return ["GposLigComp.lean"] if gen_lean.write_if_changed("GposLigComp.lean", body) else []
