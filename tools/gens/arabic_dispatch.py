"""Gen/ArabicDispatch.lean — the code-point dispatch in front of the joining table, read from the SOURCE
(src/hb/ot_shaper_arabic_table.rs) on every run, NOT through the compiled `joining_type()`:

  table    JOINING_TABLE as discriminants of hb_arabic_joining_type_t (the letters of the `use … as …` line of the
           file are resolved to the enum variants; numbers = Arabic.JoiningType.toNat)
  arms     one row per `if (LO..=HI).contains(&u) { return JOINING_TABLE[u as usize - BASE + JOINING_OFFSET_x]; }`
           of `joining_type()`, in source order: (page, lo, end, base, offset)
             page    the `u >> 12` match arm the test sits in
             lo,end  the tested range as a half-open interval [lo, end): `..=HI` gives end = HI + 1, `..HI` gives HI
             base    the constant subtracted from `u`
             offset  the VALUE of the JOINING_OFFSET_x constant that is added
  offsets  every `const JOINING_OFFSET_0X<hex>: usize = <n>;` as (hex value of the name, n), in source order
  shift    the shift of the outer `match u >> N`

Props/C11.lean::C11_dispatch_tiles_table states that the arms tile the table (ascending, disjoint, arm k starts where
arm k-1 ended in the table, the last arm ends at the table's end, every arm lies inside its page, every offset constant
is used by the arm its name says): a range cut short, a wrong base or a wrong constant breaks it.
`parse(repo)` is also used by tools/props/C11.py (stream joining-dispatch, the e2e alphabet)."""
import os, re
import vlib
from gen_lean import write_if_changed, chunked_list

SRC = os.path.join("src", "hb", "ot_shaper_arabic_table.rs")
VARIANT_NUM = {"U": 0, "L": 1, "R": 2, "D": 3, "GroupAlaph": 4, "GroupDalathRish": 5, "T": 7, "X": 8}


def strip_comments(s):
    s = re.sub(r"/\*.*?\*/", " ", s, flags=re.S)
    return re.sub(r"//[^\n]*", " ", s)


def parse(repo=None):
    """-> dict(table=[discriminant…], arms=[(page, lo, end, base, offset, offset_name)…], offsets=[(name_value, n)…], shift)"""
    path = os.path.join(repo or vlib.REPO, SRC)
    src = strip_comments(open(path).read())
    # letters of the table: `use …hb_arabic_joining_type_t::{ self, GroupAlaph as A, GroupDalathRish as DR, D, L, R, T, U, X };`
    m = re.search(r"use\s+[\w:]*hb_arabic_joining_type_t::\{(.*?)\};", src, flags=re.S)
    if not m:
        raise vlib.BuildError("arabic_dispatch: no `use …hb_arabic_joining_type_t::{…}` line")
    letters = {}
    for item in m.group(1).split(","):
        item = item.strip()
        if not item or item == "self":
            continue
        a = re.fullmatch(r"(\w+)\s+as\s+(\w+)", item)
        var, name = (a.group(1), a.group(2)) if a else (item, item)
        if var not in VARIANT_NUM:
            raise vlib.BuildError(f"arabic_dispatch: unknown joining type variant {var}")
        letters[name] = VARIANT_NUM[var]
    m = re.search(r"JOINING_TABLE\s*:\s*&\[\s*hb_arabic_joining_type_t\s*\]\s*=\s*&\[(.*?)\];", src, flags=re.S)
    if not m:
        raise vlib.BuildError("arabic_dispatch: JOINING_TABLE not found")
    table = []
    for t in m.group(1).split(","):
        t = t.strip()
        if not t:
            continue
        if t not in letters:
            raise vlib.BuildError(f"arabic_dispatch: table entry {t!r} is not a joining type letter")
        table.append(letters[t])
    offs = {}
    offsets = []
    for a in re.finditer(r"const\s+(JOINING_OFFSET_0X([0-9A-Fa-f]+))\s*:\s*usize\s*=\s*(\d+)\s*;", src):
        offs[a.group(1)] = int(a.group(3))
        offsets.append((int(a.group(2), 16), int(a.group(3))))
    m = re.search(r"fn\s+joining_type\s*\(.*?\{(.*)", src, flags=re.S)
    if not m:
        raise vlib.BuildError("arabic_dispatch: fn joining_type not found")
    body = m.group(1)
    sh = re.search(r"match\s+u\s*>>\s*(\d+)", body)
    if not sh:
        raise vlib.BuildError("arabic_dispatch: no `match u >> N`")
    num = r"(0x[0-9A-Fa-f_]+|\d[\d_]*)"
    tok = re.compile(r"(?P<page>" + num + r")\s*=>\s*\{|"
                     r"\(\s*(?P<lo>" + num + r")\s*(?P<op>\.\.=?)\s*(?P<hi>" + num + r")\s*\)\s*\.contains\(\s*&u\s*\)\s*\{\s*"
                     r"return\s+JOINING_TABLE\s*\[\s*u\s+as\s+usize\s*-\s*(?P<base>" + num + r")\s*\+\s*(?P<off>\w+)\s*\]\s*;")
    val = lambda x: int(x.replace("_", ""), 0)
    arms, page = [], None
    for a in tok.finditer(body):
        if a.group("page") is not None:
            page = val(a.group("page"))
            continue
        if a.group("off") not in offs or page is None:
            raise vlib.BuildError(f"arabic_dispatch: arm with unknown offset constant {a.group('off')}")
        lo, hi = val(a.group("lo")), val(a.group("hi"))
        arms.append((page, lo, hi + 1 if a.group("op") == "..=" else hi, val(a.group("base")), offs[a.group("off")],
                     a.group("off")))
    if body.count("JOINING_TABLE[") != len(arms) or body.count(".contains(") != len(arms):
        raise vlib.BuildError("arabic_dispatch: joining_type() has a table access / range test this translator does not read")
    return dict(table=table, arms=arms, offsets=offsets, shift=int(sh.group(1)))


def layout(d):
    """code point -> table entry, by the TABLE's own layout: the tile of arm k starts at the code point in the NAME of its
    offset constant and is as long as the distance to the next offset constant (the last one ends at the table's end).
    Uses neither bound of the range tests."""
    offs = sorted(d["offsets"], key=lambda x: x[1])
    out = {}
    for i, (start, off) in enumerate(offs):
        end = offs[i + 1][1] if i + 1 < len(offs) else len(d["table"])
        for k in range(off, end):
            out[start + (k - off)] = d["table"][k]
    return out


def generate(shim):
    d = parse()
    body = "namespace RbModel.Gen.ArabicDispatch\n"
    body += chunked_list("table", "Nat", [str(x) for x in d["table"]], per=100)
    body += ("def arms : List (Nat × Nat × Nat × Nat × Nat) := ["
             + ", ".join(f"({p}, {lo}, {e}, {b}, {o}) /- {n} -/" for p, lo, e, b, o, n in d["arms"]) + "]\n")
    body += "def offsets : List (Nat × Nat) := [" + ", ".join(f"({a}, {b})" for a, b in d["offsets"]) + "]\n"
    body += f"def shift : Nat := {d['shift']}\n"
    body += "end RbModel.Gen.ArabicDispatch\n"
    return ["ArabicDispatch.lean"] if write_if_changed("ArabicDispatch.lean", body) else []
