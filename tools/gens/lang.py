"""Gen/Lang.lean — data of the tag core, regenerated from /repo's working tree:
  * `languages`    : the compiled `OPEN_TYPE_LANGUAGES` table, dumped through the hook `verif::tag::lang_table`
                     (request `langtable` of rbshim), as (language bytes, tag as u32) rows in table order;
  * `preRules` / `branchRules` : `tag_table.rs::tags_from_complex_language` transcribed from the Rust *source* as a
                     decision list (the function is a flat list of `if <cond> { push…; return true; }` statements, the
                     second part grouped by `match language.as_bytes()[0]`). Any statement shape the transcriber does
                     not know makes the regeneration fail loudly. Behaviour is tied by the `tag-complex` stream;
  * `cmpBytes`, `strncmpBytes`, `lastRow` : which of three one-line repairs the compiled crate contains, recovered
                     from its behaviour on one probe each (D10 `a-é`, D10b `raé`, D14: the language of the last row).
"""
import os, re
import vlib
from gen_lean import write_if_changed, chunked_list


def lit(bs):
    return "[" + ", ".join(str(b) for b in bs) + "]"


def tagnum(b4):
    assert len(b4) == 4, b4
    return (b4[0] << 24) | (b4[1] << 16) | (b4[2] << 8) | b4[3]


def rust_bytes(s):
    """content of a Rust (byte) string literal without escapes -> list of ints"""
    if "\\" in s:
        raise vlib.BuildError(f"gens/lang.py: escape in literal {s!r} not supported")
    return list(s.encode("utf-8"))


COND = [
    # kind 0: subtag_matches(language, S)
    (re.compile(r'^if subtag_matches\(language, "([^"]*)"\) \{$'), lambda m: (0, [], 0, rust_bytes(m.group(1)))),
    # kind 1: &language[1..] == S
    (re.compile(r'^if &language\[1\.\.\] == "([^"]*)" \{$'), lambda m: (1, rust_bytes(m.group(1)), 0, [])),
    # kind 2: lang_matches(&language[1..], S)
    (re.compile(r'^if lang_matches\(&language\[1\.\.\], "([^"]*)"\) \{$'), lambda m: (2, rust_bytes(m.group(1)), 0, [])),
    # kind 3: strncmp(&language[1..], S, n) && subtag_matches(language, S2)
    (re.compile(r'^if strncmp\(&language\[1\.\.\], "([^"]*)", (\d+)\) && subtag_matches\(language, "([^"]*)"\) \{$'),
     lambda m: (3, rust_bytes(m.group(1)), int(m.group(2)), rust_bytes(m.group(3)))),
]
TAG = re.compile(r'Tag::from_bytes\(b"([^"]{4})"\)')


def parse_complex(src):
    m = re.search(r"pub fn tags_from_complex_language\([^)]*\) -> bool \{\n(.*?)\n\}\n", src, flags=re.S)
    if not m:
        raise vlib.BuildError("gens/lang.py: tags_from_complex_language not found in tag_table.rs")
    pre, branch = [], []
    first = None          # None = before the match, int = inside branch
    in_match = False
    cur = None            # rule being collected
    for raw in m.group(1).split("\n"):
        ln = raw.strip()
        if "//" in ln:
            ln = ln[:ln.index("//")].strip()
        if not ln:
            continue
        if cur is not None:
            if ln == "return true;":
                cur["done"] = True
                continue
            if ln == "}" and cur.get("done"):
                if not cur["tags"]:
                    raise vlib.BuildError("gens/lang.py: rule without tags")
                (pre if cur["kind"] == 0 and not in_match else branch).append(cur)
                if cur["kind"] == 0 and in_match:
                    raise vlib.BuildError("gens/lang.py: subtag-only rule inside the match")
                cur = None
                continue
            ts = TAG.findall(ln)
            if ts:
                cur["tags"] += [tagnum(list(t.encode())) for t in ts]
                continue
            if ln in ("let possible_tags = &[", "];", "tags.extend_from_slice(possible_tags);"):
                continue
            raise vlib.BuildError(f"gens/lang.py: unknown statement inside a rule: {ln!r}")
        if ln == "match language.as_bytes()[0] {":
            if in_match:
                raise vlib.BuildError("gens/lang.py: second match")
            in_match = True
            continue
        mm = re.match(r"^b'(.)' => \{$", ln)
        if mm and in_match:
            first = ord(mm.group(1))
            continue
        if ln in ("}", "_ => {}", "false"):
            continue
        for rx, f in COND:
            mm = rx.match(ln)
            if mm:
                kind, s1, n, s2 = f(mm)
                if kind == 0 and in_match:
                    raise vlib.BuildError("gens/lang.py: subtag-only rule inside the match")
                if kind != 0 and (not in_match or first is None):
                    raise vlib.BuildError("gens/lang.py: branch rule outside the match")
                cur = {"kind": kind, "first": 0 if kind == 0 else first, "s1": s1, "n": n, "s2": s2, "tags": []}
                break
        else:
            raise vlib.BuildError(f"gens/lang.py: unknown statement in tags_from_complex_language: {ln!r}")
    if cur is not None:
        raise vlib.BuildError("gens/lang.py: unterminated rule")
    return pre, branch


def hx(s):
    return "x" + s.encode("utf-8").hex()


def generate(shim):
    out = vlib.run_lines(shim, ["langtable"], nproc=1)[0]
    rows = []
    for item in out.split():
        h, t = item.split(":")
        rows.append((list(bytes.fromhex(h)), int(t)))
    if len(rows) < 100:
        raise vlib.BuildError(f"gens/lang.py: language table dump failed: {out[:200]}")
    src = open(os.path.join(vlib.REPO, "src", "hb", "tag_table.rs"), encoding="utf-8").read()
    pre, branch = parse_complex(src)
    # behavioural probes for the three repairs
    last = bytes(rows[-1][0]).decode()
    probes = vlib.run_lines(shim, [f"tags - {hx('a-é')}", f"tags - {hx('raé')}", f"tags - {hx(last)}"], nproc=1)
    cmp_bytes = not probes[0].startswith("panic")
    strn_bytes = not probes[1].startswith("panic")
    # the last row is unreachable with the `- 1`: no language tag at all comes back for it
    only_row = len([r for r in rows if r[0] == rows[-1][0]]) == 1 and rows[-1][1] != 0
    last_row = (probes[2] != "ok s:- l:-") if only_row else None
    if last_row is None:
        # cannot tell from one probe (the last language has several rows): the run is one short without the repair
        n = len([r for r in rows if r[0] == rows[-1][0] and r[1] != 0])
        got = probes[2].split("l:")[-1]
        last_row = (0 if got == "-" else len(got.split(","))) >= min(3, n)

    body = ["namespace RbModel.Gen.Lang", "",
            "/-- `tag_table.rs::OPEN_TYPE_LANGUAGES`: (language as bytes, tag as u32; 0 = `Tag(0)`) in table order -/"]
    body.append(chunked_list("languages", "List Nat × Nat", [f"({lit(l)}, {t})" for l, t in rows]))
    body.append("/-- `tags_from_complex_language`, first part: `if subtag_matches(language, s) { push tags; return true }` -/")
    body.append(chunked_list("preRules", "List Nat × List Nat", [f"({lit(r['s2'])}, {lit(r['tags'])})" for r in pre]))
    body.append("/-- second part, inside `match language.as_bytes()[0]`: (first byte, kind, s1, n, s2, tags) with\n"
                "    kind 1: `&language[1..] == s1`   kind 2: `lang_matches(&language[1..], s1)`\n"
                "    kind 3: `strncmp(&language[1..], s1, n) && subtag_matches(language, s2)` -/")
    body.append(chunked_list("branchRules", "Nat × Nat × List Nat × Nat × List Nat × List Nat",
                             [f"({r['first']}, {r['kind']}, {lit(r['s1'])}, {r['n']}, {lit(r['s2'])}, {lit(r['tags'])})"
                              for r in branch], per=50))
    b = lambda x: "true" if x else "false"
    body.append("/-- `lang_cmp` compares bytes, i.e. cannot panic (defect D10 repaired); probe: language `a-é` -/\n"
                f"def cmpBytes : Bool := {b(cmp_bytes)}\n"
                "/-- `tag_table::strncmp` compares bytes (defect D10b repaired); probe: language `raé` -/\n"
                f"def strncmpBytes : Bool := {b(strn_bytes)}\n"
                "/-- the walk over a run of equal languages may reach the last table row (defect D14 repaired);\n"
                "    probe: the language of the last row -/\n"
                f"def lastRow : Bool := {b(last_row)}\n")
    body.append("end RbModel.Gen.Lang\n")
    return write_if_changed("Lang.lean", "\n".join(body))
