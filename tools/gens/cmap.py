"""Gen/Cmap.lean — the numeric constants of face.rs::get_nominal_glyph, recovered BEHAVIOURALLY from the compiled
crate (hook verif::face::nominal_glyph through `pl cmap`) on two probe fonts:

  1. a font whose only cmap subtable is Windows Symbol (3,0), format 12, mapping U+E000..U+FFFF to glyph cp-0xE000+1
     and nothing below: every code point c of 0..0x1FFF that gets a glyph got it through the symbol alias, the glyph
     says which code point was looked up instead.  The aliased code points must be an initial segment 0..=MAX and the
     looked-up code point must be BASE + c with one BASE > MAX (then the recursion of get_nominal_glyph has depth 1,
     which is what the model has) — anything else is a variant the model does not have (BuildError: the obligation
     counts as broken, the search goes on).
  2. a font whose only subtable is Macintosh Roman (1,0), format 6, mapping byte b to glyph b+1: code points up to
     ASCII_MAX are looked up as they are, above it through UNICODE_TO_MACROMAN (unmappable -> byte 0).

Props/C16.lean states with `decide` which values the tree has (C16_gen_cmap_consts); the model (Pipeline.lean::nominal)
follows whatever was found."""
import os, sys
import gen_lean, vlib

_PROPS = os.path.normpath(os.path.join(os.path.dirname(os.path.abspath(__file__)), "..", "props"))
if _PROPS not in sys.path:
    sys.path.append(_PROPS)

PROBE_N = 0x2000


def _font(subs):
    import _pipeline as P
    return P.build_font(dict(ng=3, upem=1000, asc=800, desc=-200, hadv=[500, 500, 500], vadv=None, vorg=None,
                             subs=subs)).hex()


def probe(shim):
    sym = _font([(3, 0, 12, [(cp, cp - 0xE000 + 1) for cp in range(0xE000, 0x10000)])])
    mac = _font([(1, 0, 6, [(b, b + 1) for b in range(256)])])
    cps = ",".join(map(str, range(PROBE_N)))
    o = vlib.run_lines(shim, [f"pl cmap {sym} - {cps}", f"pl cmap {mac} - {cps}", "pl mactable"], nproc=1)
    try:
        s = o[0].split()
        if s[0] != "0" or len(s) != PROBE_N + 1:
            raise ValueError(f"symbol probe: {o[0][:80]}")
        got = [None if x == "-" else int(x) for x in s[1:]]
        aliased = [c for c, g in enumerate(got) if g is not None]
        if not aliased or aliased != list(range(len(aliased))) or len(aliased) == PROBE_N:
            raise ValueError(f"aliased code points are not a proper initial segment: {len(aliased)} of {PROBE_N}, "
                             f"first {aliased[:3]}, last {aliased[-3:]}")
        amax = aliased[-1]
        bases = {got[c] - 1 + 0xE000 - c for c in aliased}
        if len(bases) != 1:
            raise ValueError(f"the looked-up code point is not BASE + c: bases {sorted(bases)[:5]}")
        base = bases.pop()
        if base <= amax:
            raise ValueError(f"base {base:#x} <= max {amax:#x}: the recursion would go deeper than the model's one level")
        m = o[1].split()
        table = [int(x) for x in o[2].split()]
        if m[0] != "0" or len(m) != PROBE_N + 1 or len(table) != 128:
            raise ValueError(f"mac probe: {o[1][:80]}")
        gm = [None if x == "-" else int(x) for x in m[1:]]
        t = 0
        while t < PROBE_N and gm[t] == t + 1:
            t += 1
        ascii_max = t - 1

        def tomac(c):
            return 0x80 + table.index(c) if c in table else 0
        for c in range(PROBE_N):
            want = c + 1 if c <= ascii_max else tomac(c) + 1
            if gm[c] != want:
                raise ValueError(f"mac probe: U+{c:04X} -> {gm[c]}, the family (identity up to {ascii_max:#x}, then "
                                 f"UNICODE_TO_MACROMAN) gives {want}")
        if ascii_max < 0:
            raise ValueError("mac probe: no code point is looked up as it is")
    except (ValueError, IndexError) as e:
        raise vlib.BuildError(f"face.rs::get_nominal_glyph probes gave an outcome the model has no variant for: {e}")
    return amax, base, ascii_max


def generate(shim):
    amax, base, ascii_max = probe(shim)
    body = ("namespace RbModel.Gen.Cmap\n"
            "/-- Windows Symbol (3,0) subtable: a code point c <= symbolAliasMax without a direct mapping is looked up again\n"
            "    as symbolAliasBase + c (face.rs::get_nominal_glyph; probed on the compiled crate) -/\n"
            f"def symbolAliasMax : Nat := 0x{amax:X}\n"
            f"def symbolAliasBase : Nat := 0x{base:X}\n"
            "/-- Macintosh subtable: code points above macAsciiMax go through UNICODE_TO_MACROMAN -/\n"
            f"def macAsciiMax : Nat := 0x{ascii_max:X}\n"
            "end RbModel.Gen.Cmap\n")
    return gen_lean.write_if_changed("Cmap.lean", body)
