"""Gen/ArabicScripts.lean — which scripts own the joining letters of the crate's joining table, and which shaper the
crate sends them to.  Regenerated on every run from the compiled crate and from the Rust source:

  joiningLetterRuns    (start, end, script) — the code points whose table entry is L, R, D, Alaph or Dalath/Rish
                       (`arabic ranges`), split into maximal runs of one script.  Script = the Unicode Script property by
                       name from the `unicode-script` crate (hook unicode::script_tags through `arabic script`), i.e. NOT
                       the crate's own char -> Script mapping; ISO 15924 tag as a big-endian number
  joiningScriptShaper  (script, shaper) for every script of joiningLetterRuns other than Zyyy / Zinh: the shaper
                       `hb_ot_shape_complex_categorize` picks for (script, the script's horizontal direction, the script's
                       first OpenType tag as the font's GSUB script) — a behavioural probe (`shaper` request);
                       1 = Arabic shaper, 2 = Universal Shaping Engine, 0 = anything else
  joiningScriptOtTags  (script, [OpenType script tags]) for the same scripts, by the crate's own mapping (`scripttags`)
  joiningShaperProbe   (script, direction 0 ltr / 1 rtl / 2 ttb / 3 btt, chosen GSUB script, shaper) for the same scripts:
                       the shaper `hb_ot_shape_complex_categorize` picks for EVERY direction and EVERY script tag that
                       `select_script` can hand over as the chosen GSUB script — 0 = none (no GSUB / no usable script
                       record), 'DFLT', 'dflt', 'latn' (the three fall-backs of select_script) and each of the script's
                       own OpenType tags — a behavioural probe of the compiled crate (`shaper` request), shaper codes
                       as in joiningScriptShaper
  useJoiningScripts    the scripts listed in `has_arabic_joining` of src/hb/ot_shaper_use.rs (the scripts for which the
                       Universal shaper builds an Arabic plan and runs the joining analysis) — read from the SOURCE:
                       the `script::NAME` tokens of the function body, NAME -> tag through the constants of
                       src/hb/common.rs
"""
import os, re
import vlib
from gen_lean import write_if_changed, chunked_list

LETTER_RAWS = (1, 2, 3, 4, 5)          # L R D GroupAlaph GroupDalathRish (checked against jtypeValues in Props/C11)
NEUTRAL = ("Zyyy", "Zinh")


def tag_num(s):
    b = s.encode("latin-1")
    return (b[0] << 24) | (b[1] << 16) | (b[2] << 8) | b[3]


def tag_str(t):
    return "".join(chr((t >> s) & 255) for s in (24, 16, 8, 0))


def ask(shim, reqs):
    o = vlib.run_lines(shim, reqs, nproc=1)
    for q, r in zip(reqs, o):
        if r.startswith(("panic", "abort", "bad-op", "timeout", "bad")) or not r.strip():
            raise vlib.BuildError(f"arabic_scripts: request failed: {q[:80]} -> {r[:200]}")
    return o


def letter_runs(shim):
    rng = []
    for e in ask(shim, ["arabic ranges"])[0].split():
        se, raw = e.split(":")
        s, e2 = se.split("-")
        if int(raw) in LETTER_RAWS:
            rng.append((int(s), int(e2)))
    cps = [c for s, e in rng for c in range(s, e + 1)]
    toks = " ".join(ask(shim, ["arabic script " + " ".join(map(str, cps[i:i + 400])) for i in range(0, len(cps), 400)])).split()
    if len(toks) != len(cps):
        raise vlib.BuildError("arabic_scripts: wrong reply length of `arabic script`")
    runs = []
    for c, t in zip(cps, toks):
        sc = int(t.split(":")[0])
        if runs and runs[-1][1] + 1 == c and runs[-1][2] == sc:
            runs[-1][1] = c
        else:
            runs.append([c, c, sc])
    return [tuple(r) for r in runs]


def script_props(shim, sc):
    """(OpenType tags, horizontal direction 0 ltr / 1 rtl, shaper name) of a script, all asked from the crate"""
    name = tag_str(sc)
    o = ask(shim, [f"scripttags {sc}", f"lcprop s {name}"])
    ots = [int(x) for x in o[0].split(",")] if o[0] != "-" else []
    d = int(o[1].split()[1]) - 1
    if not ots or d not in (0, 1):
        raise vlib.BuildError(f"arabic_scripts: script {name}: tags {o[0]} direction {o[1]}")
    shaper = ask(shim, [f"shaper {sc} {d} {ots[0]}"])[0].strip()
    return ots, d, shaper


FALLBACK_TAGS = ("DFLT", "dflt", "latn")     # select_script's fall-backs, in its order (ot_layout.rs)


def shaper_probe(shim, sc, ots):
    """[(direction, chosen GSUB script (0 = none), shaper name)] — every direction x every script tag select_script can choose"""
    gs = [0] + [tag_num(t) for t in FALLBACK_TAGS] + [t for t in ots]
    keys = [(d, g) for d in range(4) for g in gs]
    o = ask(shim, [f"shaper {sc} {d} {g if g else '-'}" for d, g in keys])
    return [(d, g, nm.strip()) for (d, g), nm in zip(keys, o)]


def source_list():
    src = open(os.path.join(vlib.REPO, "src", "hb", "ot_shaper_use.rs")).read()
    m = re.search(r"fn has_arabic_joining\s*\([^)]*\)\s*->\s*bool\s*\{(.*?)\n\}", src, re.S)
    if not m:
        raise vlib.BuildError("arabic_scripts: fn has_arabic_joining not found in ot_shaper_use.rs")
    body = re.sub(r"//[^\n]*", "", m.group(1))
    names = re.findall(r"\bscript::([A-Z][A-Z0-9_]*)\b", body)
    if not names or not re.search(r"matches!\s*\(\s*script\s*,", body):
        raise vlib.BuildError("arabic_scripts: has_arabic_joining is no longer a matches!(script, script::A | …) list")
    common = open(os.path.join(vlib.REPO, "src", "hb", "common.rs")).read()
    consts = dict(re.findall(r'pub const ([A-Z][A-Z0-9_]*): Script = Script::from_bytes\(b"(.{4})"\);', common))
    out = []
    for n in names:
        if n not in consts:
            raise vlib.BuildError(f"arabic_scripts: script::{n} has no constant in common.rs")
        out.append((tag_num(consts[n]), consts[n], n))
    return out


def generate(shim):
    runs = letter_runs(shim)
    scripts = []
    for _, _, sc in runs:
        if sc not in scripts and tag_str(sc) not in NEUTRAL:
            scripts.append(sc)
    code = {"arabic": 1, "use": 2}
    props = {sc: script_props(shim, sc) for sc in scripts}
    shapers = [(sc, props[sc][2]) for sc in scripts]
    probe = [(sc, d, g, nm) for sc in scripts for d, g, nm in shaper_probe(shim, sc, props[sc][0])]
    use = source_list()
    body = "namespace RbModel.Gen.ArabicScripts\n"
    body += chunked_list("joiningLetterRuns", "Nat × Nat × Nat", [f"({s}, {e}, {sc})" for s, e, sc in runs], per=50)
    body += ("def joiningScriptShaper : List (Nat × Nat) := ["
             + ", ".join(f"({sc}, {code.get(nm, 0)}) /- {tag_str(sc)} {nm} -/" for sc, nm in shapers) + "]\n")
    body += ("def joiningScriptOtTags : List (Nat × List Nat) := ["
             + ", ".join(f"({sc}, [{', '.join(map(str, props[sc][0]))}]) /- {tag_str(sc)} {' '.join(tag_str(t) for t in props[sc][0])} -/"
                         for sc in scripts) + "]\n")
    body += chunked_list("joiningShaperProbe", "Nat × Nat × Nat × Nat",
                         [f"({sc}, {d}, {g}, {code.get(nm, 0)})" for sc, d, g, nm in probe], per=40)
    body += ("def useJoiningScripts : List Nat := ["
             + ", ".join(f"{t} /- {iso} {nm} -/" for t, iso, nm in use) + "]\n")
    body += "end RbModel.Gen.ArabicScripts\n"
    return ["ArabicScripts.lean"] if write_if_changed("ArabicScripts.lean", body) else []
