"""Gen/Flags.lean — the glyph-flag and buffer-flag constants of the compiled crate and the variant of the
write-back loop of ot_shape.rs::propagate_flags the current tree has.

* `glyph_flag::*` and HB_BUFFER_SCRATCH_FLAG_HAS_GLYPH_FLAGS: hook verif::ot_shape::glyph_flag_constants
* every named constant of the public `BufferFlags` (declaration order, duplicates kept): hook
  verif::ot_shape::buffer_flag_constants (bitflags' own `Flags::FLAGS` table)
* `propagateWriteBackGuarded`: recovered behaviourally with one probe call of propagate_flags on a two-glyph
  cluster with PRODUCE_UNSAFE_TO_CONCAT requested: `true` = the per-cluster write-back only runs when
  UNSAFE_TO_CONCAT is being cleared (defect D2), `false` = it always runs (HarfBuzz)."""
import gen_lean, vlib


def constants(shim):
    o = vlib.run_lines(shim, ["flagconst"], nproc=1)[0]
    t = o.split()
    if not t or t[0] != "gf" or "bf" not in t:
        raise vlib.BuildError(f"flagconst: unexpected reply {o!r}")
    k = t.index("bf")
    gf = [(x.split("=")[0], int(x.split("=")[1])) for x in t[1:k]]
    bf = [(x.split("=")[0], int(x.split("=")[1])) for x in t[k + 1:]]
    return gf, bf


def generate(shim):
    gf, bf = constants(shim)
    g = dict(gf)
    b = dict(bf)
    need = ["UNSAFE_TO_BREAK", "UNSAFE_TO_CONCAT", "SAFE_TO_INSERT_TATWEEL", "DEFINED", "SCRATCH_HAS_GLYPH_FLAGS"]
    if any(n not in g for n in need) or any(n not in b for n in ("PRODUCE_UNSAFE_TO_CONCAT",
                                                                   "PRODUCE_SAFE_TO_INSERT_TATWEEL", "DEFINED")):
        raise vlib.BuildError(f"flagconst: a constant the model needs is gone: {gf} {bf}")
    pc = b["PRODUCE_UNSAFE_TO_CONCAT"]
    sc = g["SCRATCH_HAS_GLYPH_FLAGS"]
    both = g["UNSAFE_TO_BREAK"] | g["UNSAFE_TO_CONCAT"]
    probe = (f"flagw L=0 F={pc} M=100 O=100 h=0 s=0 p=0 ok=1 i=0 n=2 o=0 sc={sc} se=0 "
             f"I=10:{both}:0:0:0,11:0:0:0:0 U=- ; propagate")
    o = vlib.run_lines(shim, [probe], nproc=1)[0]
    try:
        kv = dict(x.split("=", 1) for x in o.split()[1:])
        m = [int(e.split(":")[1]) for e in kv["I"].split(",")]
        guarded = {(both, 0): True, (both, both): False}[(m[0], m[1])]
    except Exception as e:
        raise vlib.BuildError(f"propagate_flags probe gave an outcome the model has no variant for: {o} ({e})")
    named = [(n, v) for n, v in bf if n != "DEFINED"]
    body = ("namespace RbModel.Gen.Flags\n"
            f"def glyphUnsafeToBreak : Nat := {g['UNSAFE_TO_BREAK']}\n"
            f"def glyphUnsafeToConcat : Nat := {g['UNSAFE_TO_CONCAT']}\n"
            f"def glyphSafeToInsertTatweel : Nat := {g['SAFE_TO_INSERT_TATWEEL']}\n"
            f"def glyphDefined : Nat := {g['DEFINED']}\n"
            f"def scratchHasGlyphFlags : Nat := {sc}\n"
            "/-- every named single flag of `BufferFlags`, declaration order -/\n"
            "def bufferFlags : List (String × Nat) := [" + ", ".join(f'("{n}", {v})' for n, v in named) + "]\n"
            f"def bufferFlagsDefined : Nat := {b['DEFINED']}\n"
            f"def produceUnsafeToConcat : Nat := {pc}\n"
            f"def produceSafeToInsertTatweel : Nat := {b['PRODUCE_SAFE_TO_INSERT_TATWEEL']}\n"
            f"def propagateWriteBackGuarded : Bool := {'true' if guarded else 'false'}\n"
            "end RbModel.Gen.Flags\n")
    return gen_lean.write_if_changed("Flags.lean", body)
