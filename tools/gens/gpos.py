"""Gen/Gpos.lean — the constants of the crate the GPOS/kern model depends on (attach types, lookup flags,
glyph-class bits), read from the compiled crate through the `verif::gpos::consts` hook."""
import gen_lean, vlib

NAMES = ["attachMark", "attachCursive", "rightToLeft", "ignoreMarks", "ignoreFlags", "gpBaseGlyph", "gpMark",
         "scratchHasGposAttachment", "upIgnorable", "maxNestingLevel"]


def read(shim):
    o = vlib.run_lines(shim, ["gp consts"], nproc=1)[0].split()
    if not o or o[0] != "ok" or len(o) != 1 + len(NAMES):
        raise vlib.BuildError(f"gp consts: unexpected reply {o}")
    return dict(zip(NAMES, (int(x) for x in o[1:])))


def generate(shim):
    c = read(shim)
    body = ("namespace RbModel.Gen.Gpos\n" + "".join(f"def {k} : Nat := {v}\n" for k, v in c.items())
            + "end RbModel.Gen.Gpos\n")
    return ["Gpos.lean"] if gen_lean.write_if_changed("Gpos.lean", body) else []
