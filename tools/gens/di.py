"""Generated tables of the pipeline core (C13 / C16), extracted from the COMPILED crate through hooks:

  Gen/DI.lean        maximal ranges of `char::is_default_ignorable`, found by probing every one of the
                     0x110000 code points (`pl discan`, hook unicode::default_ignorable_ranges) and
                     merging the per-block answers;
  Gen/Pipeline.lean  numeric constants the model mirrors (general-category codes, space-fallback types,
                     BufferFlags bits) and the UNICODE_TO_MACROMAN table of face.rs.
"""
import vlib
from gen_lean import write_if_changed, chunked_list

BLOCK = 0x4000


def di_ranges(shim):
    lines = [f"pl discan {lo} {min(lo + BLOCK, 0x110000)}" for lo in range(0, 0x110000, BLOCK)]
    outs = vlib.run_lines(shim, lines)
    ranges = []
    for ln, o in zip(lines, outs):
        if o == "-":
            continue
        if not o or o.startswith(("panic", "abort", "bad-op", "timeout")):
            raise vlib.BuildError(f"cannot extract is_default_ignorable ranges: {ln} -> {o}")
        for tok in o.split():
            a, b = (int(x) for x in tok.split("-"))
            if ranges and ranges[-1][1] + 1 == a:
                ranges[-1][1] = b
            else:
                ranges.append([a, b])
    return ranges


def generate(shim):
    changed = []
    rs = di_ranges(shim)
    body = ("namespace RbModel.Gen.DI\n"
            "/-- maximal inclusive ranges of `is_default_ignorable` (unicode.rs), sorted, non-adjacent -/\n"
            + chunked_list("ranges", "Nat × Nat", [f"(0x{a:X}, 0x{b:X})" for a, b in rs], per=50)
            + "end RbModel.Gen.DI\n")
    if write_if_changed("DI.lean", body):
        changed.append("DI.lean")

    consts = vlib.run_lines(shim, ["pl consts"], nproc=1)[0].split()
    mac = vlib.run_lines(shim, ["pl mactable"], nproc=1)[0].split()
    if len(mac) != 128 or not all("=" in c for c in consts):
        raise vlib.BuildError(f"cannot extract pipeline constants: {consts[:3]} / {len(mac)} macroman entries")
    body = "namespace RbModel.Gen.Pipeline\n"
    for c in consts:
        k, v = c.split("=")
        body += f"def {k} : Nat := {int(v)}\n"
    body += ("/-- face.rs UNICODE_TO_MACROMAN: index i is the Unicode value of MacRoman byte 0x80+i -/\n"
             + chunked_list("macRoman", "Nat", [f"0x{int(x):04X}" for x in mac], per=64)
             + "end RbModel.Gen.Pipeline\n")
    if write_if_changed("Pipeline.lean", body):
        changed.append("Pipeline.lean")
    return changed
