"""Gen/NormMarks.lean: what `reorder_marks_arabic` (ot_shaper_arabic.rs) is built from, read from the compiled crate through
`rustybuzz::verif::arabic::{reorder_marks_constants, modifier_combining_marks}` (request `normsh consts` of rbshim): the two
combining classes it scans for, the class each moved run is renumbered to, the size of its scratch array and the list of
modifier combining marks; and, through `verif::normalize::shaper_normalization` (`normsh info`), the normalization
preference of the Arabic shaper record and whether it has a `reorder_marks` callback at all."""
import vlib
from gen_lean import write_if_changed


def generate(shim):
    o, a = vlib.run_lines(shim, ["normsh consts", "normsh info arabic"], nproc=1)
    t = o.split()
    u = a.split()
    if len(t) != 6 or len(u) != 2 or not all(x.isdigit() for x in t[:5] + u):
        raise vlib.BuildError(f"normsh consts / info arabic -> {o[:200]} / {a[:100]}")
    marks = [int(x) for x in t[5].split(",")]
    body = "namespace RbModel.Gen.NormMarks\n"
    body += "-- ot_shaper_arabic.rs::reorder_marks_arabic: `for cc in [220u8, 230]`, `new_cc`, `temp: [_; MAX_COMBINING_MARKS]`\n"
    body += f"def ccBelow : Nat := {t[0]}\ndef newBelow : Nat := {t[1]}\ndef ccAbove : Nat := {t[2]}\ndef newAbove : Nat := {t[3]}\n"
    body += f"def scratchLen : Nat := {t[4]}\n"
    body += "-- ot_shaper_arabic.rs::MODIFIER_COMBINING_MARKS\n"
    body += "def modifierMarks : List Nat := [" + ", ".join(str(m) for m in marks) + "]\n"
    body += "-- ot_shaper_arabic.rs::ARABIC_SHAPER: normalization_preference (0 none … 4 auto), reorder_marks.is_some()\n"
    body += f"def arabicMode : Nat := {u[0]}\ndef arabicHasReorder : Bool := {'true' if u[1] == '1' else 'false'}\n"
    body += "end RbModel.Gen.NormMarks\n"
    return ["NormMarks.lean"] if write_if_changed("NormMarks.lean", body) else []
