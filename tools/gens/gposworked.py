"""Gen/GposWorked.lean — what `ValueRecordExt::apply_to_pos` of the compiled crate RETURNS (`worked`) for every unit value
record (exactly one of the eight value-format components present: a static value 7, a Device table with a non-zero delta,
or — components 8..11 — a Device table whose delta at the size is 0) x horizontal / vertical x ppem_x set / unset x ppem_y
set / unset.  Recovered behaviourally through the hook verif::gpos::pair_records_apply_to_pos (request `gpf val`).
Props/C03.lean states that the model's `worked` equals this table (`C03_gen_value_worked`)."""
import os, sys
import gen_lean, vlib

sys.path.insert(0, os.path.join(os.path.dirname(os.path.abspath(__file__)), "..", "props"))

PPEM = 12


def unit_vr(GD, k):
    vr = {"v": [0, 0, 0, 0], "dev": [None] * 4}
    if k < 4:
        vr["v"][k] = 7
    elif k < 8:
        vr["dev"][k - 4] = {"start": PPEM, "fmt": 3, "deltas": [3, 3]}
    else:
        vr["dev"][k - 8] = {"start": PPEM, "fmt": 3, "deltas": [0, 0]}
    return vr


def generate(shim):
    import _gposdev as GD
    lines, keys = [], []
    for k in range(12):
        vf = GD.BITS[k] if k < 8 else GD.BITS[k - 4]
        data = GD.pair_subtable_f2([1], {}, {}, [[(unit_vr(GD, k), GD.EMPTY_VR)]], vf, 0)
        for horiz in (True, False):
            for ux in (True, False):
                for uy in (True, False):
                    lines.append(f"gpf val {PPEM if ux else 0} {PPEM if uy else 0} {data.hex()} 1 2 {'l' if horiz else 't'} "
                                 f"- | 0:0:0:0:0:0 0:0:0:0:0:0")
                    keys.append((k, horiz, ux, uy))
    outs = vlib.run_lines(shim, lines, nproc=1)
    rows = []
    b = lambda x: "true" if x else "false"
    for (k, horiz, ux, uy), o in zip(keys, outs):
        t = o.split()
        if len(t) != 5 or t[0] != "ok" or t[2] not in "01":
            raise vlib.BuildError(f"gpf val probe (component {k}): unexpected reply {o[:200]}")
        rows.append(f"({k}, {b(horiz)}, {b(ux)}, {b(uy)}, {b(t[2] == '1')})")
    body = ("namespace RbModel.Gen.GposWorked\n"
            "/-- (component: 0-3 static xPla yPla xAdv yAdv, 4-7 their devices with a non-zero delta, 8-11 devices with delta 0;\n"
            "    horizontal; ppem_x set; ppem_y set; the `worked` value apply_to_pos returned) -/\n"
            + gen_lean.chunked_list("probes", "Nat × Bool × Bool × Bool × Bool", rows, per=48)
            + "end RbModel.Gen.GposWorked\n")
    return ["GposWorked.lean"] if gen_lean.write_if_changed("GposWorked.lean", body) else []
