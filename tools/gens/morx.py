"""Gen/Morx.lean: constants of aat_layout_morx_table.rs (through the `morx consts` hook dump), the
rearrangement nibble table `MAP` (a function-local const, so taken from the Rust source text) and the
OpenType-tag -> AAT feature mapping table of aat_layout.rs (hook dump of `feature_mappings`)."""
import os, re
import vlib, gen_lean


def rearr_map_from_source():
    src = open(os.path.join(vlib.REPO, "src", "hb", "aat_layout_morx_table.rs")).read()
    m = re.search(r"const MAP:\s*\[u8;\s*16\]\s*=\s*\[(.*?)\];", src, re.S)
    if not m:
        raise vlib.BuildError("cannot find `const MAP: [u8; 16]` in aat_layout_morx_table.rs")
    body = re.sub(r"//.*", "", m.group(1))
    vals = [int(x, 0) for x in re.findall(r"0x[0-9a-fA-F]+|\d+", body)]
    if len(vals) != 16:
        raise vlib.BuildError(f"rearrangement MAP has {len(vals)} entries")
    return vals


def generate(shim):
    outs = vlib.run_lines(shim, ["morx consts", "morx featmap"], nproc=1)
    consts = [kv.split("=") for kv in outs[0].split()]
    if len(consts) < 20:
        raise vlib.BuildError(f"morx consts hook failed: {outs[0][:200]}")
    rows = [tuple(int(x) for x in r.split(":")) for r in outs[1].split()]
    mp = rearr_map_from_source()
    body = ["namespace RbModel.Gen.Morx", ""]
    for k, v in consts:
        body.append(f"def {k} : Nat := {int(v)}")
    body.append("")
    body.append("/-- `const MAP: [u8; 16]` of RearrangementCtx::transition (start-side nibble, end-side nibble). -/")
    body.append(f"def rearrMap : List Nat := [{', '.join(map(str, mp))}]")
    body.append("")
    body.append("/-- `feature_mappings`: (OpenType tag, AAT feature type, selector to enable, selector to disable). -/")
    body.append(gen_lean.chunked_list("featureMappings", "Nat × Nat × Nat × Nat",
                                      [f"({a}, {b}, {c}, {d})" for a, b, c, d in rows], per=40))
    body.append("end RbModel.Gen.Morx")
    return ["Morx.lean"] if gen_lean.write_if_changed("Morx.lean", "\n".join(body) + "\n") else []
