"""Gen/HebrewCompose.lean, Gen/ShaperCallbacks.lean: what the normalizer's compose / decompose CALLBACKS of the
compiled crate answer, probed through `rustybuzz::verif::normalize::{probe_compose, probe_decompose, compose_pairs}`
(request `normcb …` of rbshim).  The context is set up the way `_hb_ot_shape_normalize` sets it up (the Unicode
functions overridden by the shaper's own callbacks).  Nothing is copied from the source: which shapers have callbacks
of their own is asked (`normcb has`), and their answers are enumerated

  * over every PAIR (a, b) of the domain of each script group (compose) / every character of it (decompose), and
  * outside the domain: over every pair of a canonical decomposition mapping of the crate's table (compose) and over
    every scalar value (decompose), where only the answers that differ from the default callback's are kept
    (`composeOutside`, `decomposeOutside`: expected empty — outside its script a shaper defers to Unicode or declines).

Props/C08.lean proves every listed answer canonically equivalent to its arguments against the reference data of
Gen/NormRef.lean (or a documented split-vowel decomposition)."""
import vlib
import fontbuild
from gen_lean import write_if_changed
from norm import chunked_list, triples

SHAPERS = ["default", "dumber", "arabic", "hangul", "hebrew", "indic", "khmer", "myanmar", "zawgyi", "thai", "use"]

# script groups: pairs are probed inside a group
HEBREW = [(0x0590, 0x05FF), (0xFB1D, 0xFB4F)]
GROUPS = [
    ("hebrew", HEBREW),
    ("indic", [(0x0900, 0x0DFF)]),
    ("khmer", [(0x1780, 0x17FF), (0x19E0, 0x19FF)]),
    # scripts of the universal shaper / Myanmar that have canonical decompositions with marks
    ("use", [(0x0F00, 0x109F), (0x1B00, 0x1B7F), (0x11080, 0x110CF), (0x11100, 0x1114F), (0x11300, 0x1137F),
             (0x11480, 0x114DF), (0x11580, 0x115FF)]),
]


def _font():
    return fontbuild.hexfont({"cmap": {0x41: 1}, "num_glyphs": 2, "advances": [600, 600]})


def _rng(ranges):
    return ",".join(f"{lo}-{hi}" for lo, hi in ranges)


def _trip(o, q):
    if o == "-":
        return []
    try:
        return [tuple(int(x) for x in t.split(":")) for t in o.split()]
    except ValueError:
        raise vlib.BuildError(f"shaper callbacks probe: {q[:80]} -> {o[:200]}")


def _in(ranges, c):
    return any(lo <= c <= hi for lo, hi in ranges)


def own_groups(shaper):
    """the script group(s) a shaper's callbacks are enumerated on: its own scripts; every group for a shaper this
    table does not know (a callback added to another shaper is then enumerated everywhere)"""
    own = [g for g in GROUPS if g[0] == shaper]
    return own or GROUPS


def own_domain(shaper):
    return [r for _, rs in own_groups(shaper) for r in rs]


def probe(shim):
    """-> dict with the probed answers (also used by tools/props/C08.py for its probe-guided search)"""
    font = _font()
    has = vlib.run_lines(shim, [f"normcb has {s}" for s in SHAPERS], nproc=1)
    own_dec, own_comp = [], []
    for s, o in zip(SHAPERS, has):
        t = o.split()
        if len(t) != 2 or any(x not in ("0", "1") for x in t):
            raise vlib.BuildError(f"normcb has {s} -> {o[:200]}")
        if t[0] == "1": own_dec.append(s)
        if t[1] == "1": own_comp.append(s)
    # compose callbacks: (shaper, has_gpos_mark); the flag is consulted by Hebrew only, both values are probed for all
    comp_keys = [(s, g) for s in own_comp for g in (0, 1)]
    reqs, idx = [], []
    tab = vlib.run_lines(shim, ["norm table decomp"], nproc=1)[0]
    rows = [tuple(int(x) for x in t.split(":")) for t in tab.split()]
    pairs = [(a, b) for _, a, b in rows if b]
    ptok = ",".join(f"{a}:{b}" for a, b in pairs)
    for s, g in comp_keys:
        for gname, ranges in own_groups(s):
            reqs.append(f"normcb compose {s} {g} {font} {_rng(ranges)}"); idx.append(("c", s, g, gname))
    for s in own_dec:
        for gname, ranges in own_groups(s):
            reqs.append(f"normcb decompose {s} 0 {font} {_rng(ranges)}"); idx.append(("d", s, 0, gname))
    # outside the domain: every pair of a canonical mapping of the crate's table / every scalar value
    for s, g in comp_keys + [("default", 0)]:
        reqs.append(f"normcb pairs {s} {g} {font} {ptok}"); idx.append(("p", s, g, None))
    for s in own_dec + ["default"]:
        reqs.append(f"normcb decompose {s} 0 {font} 0-1114111"); idx.append(("D", s, 0, None))
    outs = vlib.run_lines(shim, reqs, nproc=1)
    res = {"own_dec": own_dec, "own_comp": own_comp, "compose": {k: [] for k in comp_keys},
           "decompose": {s: [] for s in own_dec}, "compose_outside": {}, "decompose_outside": {},
           "outside_pairs": len(pairs)}
    dflt_pairs = dflt_all = None
    tmp_p, tmp_d = {}, {}
    for (kind, s, g, gname), q, o in zip(idx, reqs, outs):
        if o.startswith(("panic", "bad-op", "abort", "timeout")) or o == "":
            raise vlib.BuildError(f"shaper callbacks probe: {q[:80]} -> {o[:200]}")
        if kind == "c":
            res["compose"][(s, g)].extend(_trip(o, q))
        elif kind == "d":
            res["decompose"][s].extend(_trip(o, q))
        elif kind == "p":
            ans = o.split()
            if len(ans) != len(pairs):
                raise vlib.BuildError(f"shaper callbacks probe: {q[:80]} -> {len(ans)} answers for {len(pairs)} pairs")
            if s == "default": dflt_pairs = ans
            else: tmp_p[(s, g)] = ans
        else:
            if s == "default": dflt_all = {t[0]: t for t in _trip(o, q)}
            else: tmp_d[s] = _trip(o, q)
    for (s, g), ans in tmp_p.items():
        dom = own_domain(s)
        res["compose_outside"][(s, g)] = [(a, b, int(x)) for (a, b), x, y in zip(pairs, ans, dflt_pairs)
                                          if x != "-" and x != y and not (_in(dom, a) and _in(dom, b))]
    for s, ts in tmp_d.items():
        dom = own_domain(s)
        res["decompose_outside"][s] = [t for t in ts if not _in(dom, t[0]) and dflt_all.get(t[0]) != t]
    return res


def reference(dom):
    """CPython's canonical mappings whose character lies in `dom`, and its combining-class ranges that touch `dom`
    (the same data as Gen/NormRef.lean, restricted; Props/C08.lean proves the restriction by one pass over NormRef)"""
    import unicodedata
    rows = []
    for lo, hi in dom:
        for c in range(lo, hi + 1):
            dm = unicodedata.decomposition(chr(c))
            if dm and not dm.startswith("<"):
                parts = [int(x, 16) for x in dm.split()]
                rows.append((c, parts[0], parts[1] if len(parts) == 2 else 0))
    rows.sort()
    ccc, cur = [], None
    for c in range(0x110000):
        v = 0 if 0xD800 <= c <= 0xDFFF else unicodedata.combining(chr(c))
        if cur and cur[2] == v and cur[1] + 1 == c:
            cur[1] = c
            continue
        if cur:
            ccc.append(tuple(cur)); cur = None
        if v:
            cur = [c, c, v]
    if cur:
        ccc.append(tuple(cur))
    ccc = [r for r in ccc if any(r[0] <= hi and lo <= r[1] for lo, hi in dom)]
    return rows, ccc


def generate(shim):
    R = probe(shim)
    ch = []
    body = "namespace RbModel.Gen.HebrewCompose\n"
    body += "-- ot_shaper_hebrew.rs::compose as the normalizer calls it, probed over every pair (a, b) of the domain\n"
    body += f"def domain : List (Nat × Nat) := [{', '.join(f'({lo}, {hi})' for lo, hi in HEBREW)}]\n"
    body += f"def probedPairs : Nat := {sum(hi - lo + 1 for lo, hi in HEBREW) ** 2}\n"
    body += "-- plan.has_gpos_mark = false (e.g. a cmap-only font): the pairs with an answer, (a, b, ab)\n"
    body += chunked_list("entries", "Nat × Nat × Nat", triples(sorted(R["compose"].get(("hebrew", 0), []))))
    body += "-- plan.has_gpos_mark = true\n"
    body += chunked_list("entriesGpos", "Nat × Nat × Nat", triples(sorted(R["compose"].get(("hebrew", 1), []))))
    body += "end RbModel.Gen.HebrewCompose\n"
    if write_if_changed("HebrewCompose.lean", body):
        ch.append("HebrewCompose.lean")

    q = chr(34)
    body = "namespace RbModel.Gen.ShaperCallbacks\n"
    body += "-- shapers whose record has a compose / decompose callback of its own (hb_ot_shaper_t::{compose, decompose})\n"
    body += f"def ownCompose : List String := [{', '.join(q + s + q for s in R['own_comp'])}]\n"
    body += f"def ownDecompose : List String := [{', '.join(q + s + q for s in R['own_dec'])}]\n"
    body += "-- probed domain per callback: the blocks of the shaper's own scripts (all groups for any other shaper)\n"
    for gname, ranges in GROUPS:
        body += f"def domain_{gname} : List (Nat × Nat) := [{', '.join(f'({lo}, {hi})' for lo, hi in ranges)}]\n"
    npairs = sum(sum(hi - lo + 1 for lo, hi in own_domain(s)) ** 2 for s in R["own_comp"])
    body += f"def probedPairs : Nat := {npairs}\n"
    names = []
    for (s, g), ts in sorted(R["compose"].items()):
        nm = f"compose_{s}" + ("_gpos" if g else "")
        names.append(nm)
        body += (f"-- compose callback under the {s} shaper, plan.has_gpos_mark = {'true' if g else 'false'}, over the pairs of "
                 f"{' + '.join(g_[0] for g_ in own_groups(s))}: (a, b, ab)\n")
        body += chunked_list(nm, "Nat × Nat × Nat", triples(sorted(ts)))
    body += f"def composeAll : List (List (Nat × Nat × Nat)) := [{', '.join(names)}]\n"
    names = []
    for s, ts in sorted(R["decompose"].items()):
        nm = f"decompose_{s}"
        names.append(nm)
        body += f"-- decompose callback under the {s} shaper over {' + '.join(g_[0] for g_ in own_groups(s))}: (ab, a, b), b = 0 for a singleton\n"
        body += chunked_list(nm, "Nat × Nat × Nat", triples(sorted(ts)))
    body += f"def decomposeAll : List (List (Nat × Nat × Nat)) := [{', '.join(names)}]\n"
    body += (f"-- outside its domain: the {R['outside_pairs']} pairs (a, b) of the crate's canonical decomposition mappings; answers "
             "of a callback that are neither none nor unicode::compose's\n")
    out = sorted({t for ts in R["compose_outside"].values() for t in ts})
    body += chunked_list("composeOutside", "Nat × Nat × Nat", triples(out))
    body += "-- outside its domain: every scalar value; answers of a callback that differ from unicode::decompose's\n"
    out = sorted({t for ts in R["decompose_outside"].values() for t in ts})
    body += chunked_list("decomposeOutside", "Nat × Nat × Nat", triples(out))
    rows, ccc = reference([r for _, rs in GROUPS for r in rs])
    body += "-- reference (CPython unicodedata): canonical mappings of the characters of the domain, (c, a, b)\n"
    body += chunked_list("refRows", "Nat × Nat × Nat", triples(rows))
    body += "-- reference: the Canonical_Combining_Class ranges that touch the domain, (lo, hi, ccc)\n"
    body += chunked_list("refCcc", "Nat × Nat × Nat", triples(ccc))
    body += "end RbModel.Gen.ShaperCallbacks\n"
    if write_if_changed("ShaperCallbacks.lean", body):
        ch.append("ShaperCallbacks.lean")
    return ch
