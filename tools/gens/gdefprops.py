"""Gen/GdefProps.lean — `glyph_props` as the compiled crate computes it (hook verif::face::glyph_props) for a probe font
whose GDEF assigns EVERY kind of glyph class value (0..7, 255, 256, 65535, not in the ClassDef) and, beside each, several mark
attachment class values (0, 1, 2, 255, 256, 65535, absent); plus the same glyphs on a font without GDEF and on a font whose GDEF
has no glyph class definition.  rows = (class value or none, mark attachment class value, glyph_props)."""
import gen_lean, vlib, fontbuild

CLASSES = [None, 0, 1, 2, 3, 4, 5, 6, 7, 255, 256, 65535]
ATTACH = [None, 0, 1, 2, 255, 256, 65535]


def probe():
    """-> (recipe with GDEF, [(gid, class, attach)])"""
    glyphs, g = [], 1
    for c in CLASSES:
        for a in ATTACH:
            glyphs.append((g, c, a))
            g += 1
    rec = {"num_glyphs": g, "cmap": {0x41: 1},
           "gdef": {"classes": {g_: c for g_, c, a in glyphs if c is not None},
                    "mark_attach": {g_: a for g_, c, a in glyphs if a is not None}}}
    return rec, glyphs


def generate(shim):
    rec, glyphs = probe()
    items = lambda use_c, use_a: ",".join(
        f"{g}:{c if (c is not None and use_c) else '-'}:{a if (a is not None and use_a) else '-'}" for g, c, a in glyphs)
    nogdef = dict(rec); del nogdef["gdef"]
    noclasses = dict(rec); noclasses["gdef"] = {"mark_attach": rec["gdef"]["mark_attach"]}
    o = vlib.run_lines(shim, [f"gdefprops {fontbuild.build(rec).hex()} {items(True, True)}",
                              f"gdefprops {fontbuild.build(nogdef).hex()} {items(False, False)}",
                              f"gdefprops {fontbuild.build(noclasses).hex()} {items(False, True)}"], nproc=1)
    try:
        vals = [[int(x) for x in line.split()[1].split(",")] for line in o]
        if any(not line.startswith("ok ") or len(v) != len(glyphs) for line, v in zip(o, vals)):
            raise ValueError("short reply")
    except Exception as e:
        raise vlib.BuildError(f"gdefprops probe failed: {[x[:200] for x in o]} ({e})")
    opt = lambda c: "none" if c is None else f"some {c}"
    rows = [f"({opt(c)}, {a or 0}, {p})" for (g, c, a), p in zip(glyphs, vals[0])]
    rows += [f"(none, 0, {p})" for p in sorted(set(vals[1]))]                       # no GDEF at all
    rows += [f"(none, {a or 0}, {p})" for (g, c, a), p in zip(glyphs, vals[2])]     # GDEF without glyph classes
    rows = list(dict.fromkeys(rows))
    body = ("namespace RbModel.Gen.GdefProps\n"
            "/-- (GDEF glyph class value of the glyph or none, its mark attachment class value, glyph_props of the crate) -/\n"
            + gen_lean.chunked_list("rows", "Option Nat × Nat × Nat", rows, per=40) +
            "end RbModel.Gen.GdefProps\n")
    return gen_lean.write_if_changed("GdefProps.lean", body)
