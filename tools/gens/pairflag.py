"""Gen/PairFlag.lean — behavioural probes of the SPANS the compiled crate flags in pair kerning and pair positioning:
  kern  : machine_kern (kerning.rs) on `base mark mark base`, pair (base, base) = -50: the masks it leaves (span end of a
          mark-skipped kern pair = j + 1);
  kerx  : apply_simple_kerning (aat_layout_kerx_table.rs), format 0, the same buffer;
  miss  : PairAdjustment::apply, format 1, IgnoreMarks, `first mark other`: the pair (first, other) is not in the PairSet
          (span end of a PairSet miss behind a skipped glyph = inspected index + 1);
  hit   : the same subtable on `first mark second` (the pair is in the PairSet, x_advance -50).
The inputs are written next to the replies, so that Props/C03.lean / C04.lean run the MODEL on the same inputs
(`C03_gen_kern_span`, `C03_gen_kerx_span`, `C03_gen_pairpos_span`, `C04_gen_pairpos_miss_span`)."""
import os, sys
import gen_lean, vlib

sys.path.insert(0, os.path.join(os.path.dirname(os.path.abspath(__file__)), "..", "props"))

KMASK = 256
# (gid, mask, glyph_props, unicode_props, cluster): base 1, two GDEF marks 9, base 2
KINFOS = [(1, KMASK, 2, 7, 0), (9, KMASK, 8, 7, 1), (9, KMASK, 8, 7, 2), (2, KMASK, 2, 7, 3)]
KPOS = "600:0:0:0:0:0 0:0:0:0:0:0 0:0:0:0:0:0 500:0:0:0:0:0"
# (gid, glyph_props, lig_props, cluster, mask): first 1, GDEF mark 9, then `other` 2 / `second` 3
PINFOS = lambda g: [(1, 2, 0, 0, KMASK), (9, 8, 0, 1, KMASK), (g, 2, 0, 2, KMASK)]
PPOS = "600:0:0:0:0:0 0:0:0:0:0:0 500:0:0:0:0:0"


def masks_of(reply, k):
    t = reply.split()
    if not t or t[0] != "ok":
        raise vlib.BuildError(f"pair-flag probe: unexpected reply {reply[:200]}")
    return [int(x) for x in t[k].split(",")]


def generate(shim):
    import _gposdev as GD
    import _kerx as KX
    pc = int(vlib.run_lines(shim, ["bufconst"], nproc=1)[0].split()[0])
    ki = ",".join(":".join(str(x) for x in e) for e in KINFOS)
    kx = KX.kerx_table([{"fmt": 0, "h": 1, "c": 0, "v": 0, "pairs": {(1, 2): -50}}])
    plan = vlib.run_lines(shim, [f"kerx plan {kx.hex()} l -"], nproc=1)[0].split()
    if plan[0] != "ok":
        raise vlib.BuildError(f"kerx plan probe: {plan}")
    xmask = int(plan[1])
    kxi = ",".join(":".join(str(x) for x in (g, xmask or 1, gp, up, cl)) for g, _, gp, up, cl in KINFOS)
    vr = {"v": [0, 0, -50, 0], "dev": [None] * 4}
    sub = GD.pair_subtable_f1({1: {3: (vr, GD.EMPTY_VR)}}, 0x04, 0)
    pi = lambda g: ",".join(":".join(str(x) for x in e) for e in PINFOS(g))
    lines = [
        f"pf mk l 4 {KMASK} 0 {pc} 0 1:2:-50 {ki} | {KPOS}",
        f"pf kx {kx.hex()} 0 l - {xmask} 0 {pc} 0 1:2:-50 {kxi} | {KPOS}",
        f"pf pair 0 0 {sub.hex()} 8 l {pc} 0 0 {pi(2)} 0 0 1 1 - | {PPOS}",
        f"pf pair 0 0 {sub.hex()} 8 l {pc} 0 0 {pi(3)} 0 0 1 1 - | {PPOS}",
    ]
    o = vlib.run_lines(shim, lines, nproc=1)
    nat = lambda xs: "[" + ", ".join(str(x) for x in xs) + "]"
    tup = lambda es: "[" + ", ".join("(" + ", ".join(str(x) for x in e) + ")" for e in es) + "]"
    body = ("namespace RbModel.Gen.PairFlag\n"
            "/-- PRODUCE_UNSAFE_TO_CONCAT as the probes passed it -/\n"
            f"def bufFlags : Nat := {pc}\n"
            f"def kernMask : Nat := {KMASK}\n"
            f"def kerxMask : Nat := {xmask or 1}\n"
            "/-- (gid, mask, glyph_props, unicode_props, cluster) -/\n"
            f"def kernInfos : List (Nat × Nat × Nat × Nat × Nat) := {tup(KINFOS)}\n"
            "/-- the masks machine_kern / apply_simple_kerning of the compiled crate left -/\n"
            f"def kernMasks : List Nat := {nat(masks_of(o[0], 3))}\n"
            f"def kerxMasks : List Nat := {nat(masks_of(o[1], 3))}\n"
            "/-- (gid, glyph_props, lig_props, cluster, mask); the third glyph is `other` (2: not in the PairSet) / `second` (3) -/\n"
            f"def pairInfosMiss : List (Nat × Nat × Nat × Nat × Nat) := {tup(PINFOS(2))}\n"
            f"def pairInfosHit : List (Nat × Nat × Nat × Nat × Nat) := {tup(PINFOS(3))}\n"
            "/-- the masks PairAdjustment::apply of the compiled crate left, and whether it applied -/\n"
            f"def pairMasksMiss : List Nat := {nat(masks_of(o[2], 4))}\n"
            f"def pairAppliedMiss : Bool := {'true' if o[2].split()[1] == '1' else 'false'}\n"
            f"def pairMasksHit : List Nat := {nat(masks_of(o[3], 4))}\n"
            f"def pairAppliedHit : Bool := {'true' if o[3].split()[1] == '1' else 'false'}\n"
            "end RbModel.Gen.PairFlag\n")
    return ["PairFlag.lean"] if gen_lean.write_if_changed("PairFlag.lean", body) else []
