"""Hangul streams of the glyph-flag properties (C03 break safety; reusable by C04).

The Hangul shaper's text pre-processing (ot_shaper_hangul.rs::preprocess_text_hangul) decides per syllable, from what the
FONT maps, whether to compose <L,V(,T)> / <LV,T>, to decompose <LV> / <LVT> / <LV,T> into jamo, or to move a tone mark in
front of its syllable.  Every one of those decisions reads characters of neighbouring clusters; at cluster level 1 the
characters keep their own clusters and only the shaper's unsafe_to_break calls record the dependency.

  hangul_groups      generated fonts over a small Hangul alphabet with PARTIAL coverage: each of {LV syllables, LVT
                     syllables, modern L, V, T jamo, old jamo, the two tone marks, dotted circle} present / absent / thinned out
                     glyph by glyph; distinct advances per glyph (a wrong glyph shows in the advances too); the two tone marks
                     independently zero-width or spacing; 1 font in 3 with GSUB ljmo / vjmo / tjmo single substitutions
  make_hangul_shaping  texts of precomposed / conjoining / mixed spellings (<LV>, <LVT>, <L,V>, <L,V,T>, <LV,T>, lone jamo,
                     old-Hangul L / V / T incl. <LV, old T>), tone marks after syllables and orphaned, letters and spaces,
                     cluster numbering with gaps, levels 0/1, 4 directions
  pre_flag_lines     requests of the `hangul prem` correspondence (model HangulBuf.lean: the same routine on the buffer model
                     with masks) over the same spellings and random support specs
"""
import fontbuild
import flagslib as F

L_BASE, V_BASE, T_BASE, S_BASE = 0x1100, 0x1161, 0x11A7, 0xAC00
V_COUNT, T_COUNT = 21, 28
TONES = (0x302E, 0x302F)
DOTTED = 0x25CC
OLD_L = [0x1113, 0x115F, 0xA960, 0xA97C]
OLD_V = [0x1160, 0x1176, 0x11A7, 0xD7B0]
OLD_T = [0x11C3, 0x11FF, 0xD7CB, 0xD7FB]


def compose(l, v, t=None):
    return S_BASE + ((l - L_BASE) * V_COUNT + (v - V_BASE)) * T_COUNT + ((t - T_BASE) if t else 0)


RULE = ("generated Hangul fonts (tools/hangulflags.py: 2-3 modern L, V, T jamo each and the LV / LVT syllables over them, old-Hangul "
        "L / V / T, U+302E, U+302F, U+25CC, a letter, space; every category present / absent / thinned glyph by glyph — so fonts with "
        "LV but not LVT glyphs, jamo without syllables, syllables without jamo, …; distinct advances; tone marks independently "
        "zero-width / spacing; 1 in 3 with GSUB ljmo / vjmo / tjmo) x texts of precomposed, conjoining and mixed spellings "
        "(<LV>, <LVT>, <L,V>, <L,V,T>, <LV,T>, <LV, old T>, lone and old jamo), tone marks on syllables and orphaned, letters, spaces "
        "x cluster numbering with gaps x levels 0/1 x directions l, t (5 in 7), r, b; ")


def _alphabet(r):
    ls = sorted(set(r.choice(range(L_BASE, L_BASE + 19)) for _ in range(r.range(2, 3))))
    vs = sorted(set(r.choice(range(V_BASE, V_BASE + 21)) for _ in range(r.range(2, 3))))
    ts = sorted(set(r.choice(range(T_BASE + 1, T_BASE + 28)) for _ in range(r.range(2, 3))))
    return {"L": ls, "V": vs, "T": ts, "oL": r.shuffle(list(OLD_L))[:2], "oV": r.shuffle(list(OLD_V))[:2],
            "oT": r.shuffle(list(OLD_T))[:2],
            "LV": [compose(l, v) for l in ls for v in vs], "LVT": [compose(l, v, t) for l in ls for v in vs for t in ts]}


def hangul_recipe(r):
    """-> (recipe, alphabet dict, facts)"""
    al = _alphabet(r)
    have = set([0x41])
    if r.chance(5, 6): have.add(0x20)

    def take(cat, cps):
        # present / absent / thinned: every subset of the categories, and inside a category every subset of the glyphs
        k = r.below(4)
        if k == 0: return
        for c in cps:
            if k < 3 or r.chance(1, 2): have.add(c)
    for cat in ("L", "V", "T", "oL", "oV", "oT"):
        take(cat, al[cat])
    take("LV", al["LV"]); take("LVT", al["LVT"])
    for t in TONES:
        if r.chance(3, 4): have.add(t)
    if r.chance(2, 3): have.add(DOTTED)
    cps = sorted(have)
    cmap = {c: i + 1 for i, c in enumerate(cps)}
    n = len(cps) + 1
    adv = [1000] + [300 + 17 * (i + 1) for i in range(len(cps))]
    zero = []
    for t in TONES:
        if t in cmap and r.chance(1, 2):
            adv[cmap[t]] = 0; zero.append(t)
    rec = {"num_glyphs": n, "cmap": cmap, "advances": adv}
    gsub = False
    if r.chance(1, 3):
        # ljmo / vjmo / tjmo: every mapped jamo gets an alternate glyph (no cmap entry) under its feature
        feats, lookups = [], []
        for tag, cats in (("ljmo", ("L", "oL")), ("vjmo", ("V", "oV")), ("tjmo", ("T", "oT"))):
            gl = [cmap[c] for cat in cats for c in al[cat] if c in cmap]
            if not gl: continue
            subs = []
            for g in sorted(gl):
                subs.append(n); adv.append(200 + 13 * n); n += 1
            lookups.append({"type": 1, "flag": 0, "subtables": [{"format": 2, "coverage": sorted(gl), "subst": subs}]})
            feats.append({"tag": tag, "lookups": [len(lookups) - 1]})
        if feats:
            rec["num_glyphs"] = n
            rec["gsub"] = {"features": feats, "lookups": lookups}
            gsub = True
    facts = {"mapped": [f"{c:04X}" for c in cps], "zero_width_tones": [f"{c:04X}" for c in zero], "gsub_jamo_features": gsub}
    return rec, al, facts


def hangul_groups(r, count, prefix="H"):
    groups = []
    while len(groups) < count:
        rec, al, facts = hangul_recipe(r)
        try:
            hx = fontbuild.hexfont(rec)
        except fontbuild.FontBuildError:
            continue
        fid = f"{prefix}{len(groups)}"
        c = F.SynthCase()
        c.name, c.font, c.index, c.text = fid, f"synthetic:{fid}", 0, ""
        c.dir, c.script, c.lang, c.flags, c.level, c.feats = None, "Hang", None, 0, 0, []
        c.pre, c.post, c.extra, c.opts = "", "", [], ""
        alphabet = [chr(x) for k in ("L", "V", "T", "oL", "oV", "oT", "LV", "LVT") for x in al[k]]
        groups.append({"fid": fid, "reg": f"font {fid} {hx}", "cases": [c], "alphabet": alphabet, "aat": False, "synthetic": True,
                       "profile": "hangul-partial-coverage", "recipe": rec, "native": "l", "hangul": al, "facts": facts})
    return groups


def syllable_unit(r, al):
    """one spelling of a syllable (or a fragment) over the font's alphabet"""
    l, v, t = r.choice(al["L"]), r.choice(al["V"]), r.choice(al["T"])
    k = r.below(12)
    if k == 0: return [compose(l, v)]
    if k == 1: return [compose(l, v, t)]
    if k == 2: return [l, v]
    if k == 3: return [l, v, t]
    if k in (4, 5): return [compose(l, v), t]                       # <LV, T>
    if k == 6: return [compose(l, v), r.choice(al["oT"])]           # <LV, old T>: decomposed, never composed
    if k == 7: return [r.choice(al["oL"] + [l]), r.choice(al["oV"] + [v])] + ([r.choice(al["oT"] + [t])] if r.chance(1, 2) else [])
    if k == 8: return [l, v, r.choice(al["oT"])]
    if k == 9: return [r.choice([l, v, t])]                          # a lone jamo
    if k == 10: return [compose(l, v, t), t]                         # <LVT, T>
    return [l, compose(l, v)]


def hangul_text(r, al):
    t = []
    for _ in range(r.range(1, 4)):
        k = r.below(10)
        if k < 7:
            t += syllable_unit(r, al)
            if r.chance(1, 3):
                t.append(r.choice(TONES))
                if r.chance(1, 4): t.append(r.choice(TONES))
        elif k == 7:
            t.append(r.choice(TONES))
        elif k == 8:
            t.append(0x41)
            if r.chance(1, 3): t.append(r.choice(TONES))
        else:
            t.append(0x20)
    return t[:14]


def make_hangul_shaping(r, g, flags):
    s = F.Shaping()
    s.g = g
    s.case = g["cases"][0]
    s.text = "".join(chr(c) for c in hangul_text(r, g["hangul"]))
    s.clusters = F.rand_clusters(r, len(s.text), False)
    s.req_dir = r.choice(["l", "l", "l", "t", "t", "r", "b"])
    s.dir = s.req_dir
    s.script = "Hang"
    s.flags = flags | r.choice([0, 3, 3, 3]) | r.choice([0, 0, 0, 0, 16])      # 16 = DO_NOT_INSERT_DOTTED_CIRCLE
    s.level = r.choice((0, 1, 1))
    s.extra = []
    s.pre, s.post = "", ""
    s.subset = None
    s.line = None
    return s


def hangul_known_class(s, kind="break", o=None):
    return "reversed" if F.shaped_reversed(s) else None


# ------------------------------------------------------------------------------------------------
# `hangul prem`: crate (hook on a bare buffer, real Face from a support spec) vs HangulBuf.lean, masks included

def _relevant(cps):
    s = set(cps) | {DOTTED}
    for i, c in enumerate(cps):
        if S_BASE <= c < S_BASE + 11172:
            j = c - S_BASE
            s.update([L_BASE + j // 588, V_BASE + (j % 588) // 28])
            if j % 28: s.add(T_BASE + j % 28)
            if i + 1 < len(cps) and T_BASE < cps[i + 1] < T_BASE + 28 and j % 28 == 0:
                s.add(c + cps[i + 1] - T_BASE)
        if L_BASE <= c < L_BASE + 19 and i + 1 < len(cps) and V_BASE <= cps[i + 1] < V_BASE + 21:
            s.add(compose(c, cps[i + 1]))
            if i + 2 < len(cps) and T_BASE < cps[i + 2] < T_BASE + 28:
                s.add(compose(c, cps[i + 1], cps[i + 2]))
    return sorted(s)


def pre_flag_lines(r, n):
    lines = []
    for _ in range(n):
        al = _alphabet(r)
        cps = hangul_text(r, al)
        if r.chance(1, 8):
            cps = [r.choice(cps + [0x1100, 0x1160, 0x11A8, 0xAC00, 0xD7A3, 0x302E, 0x41]) for _ in range(r.range(1, 8))]
        k = r.below(4)
        cl, c = [], r.below(3)
        for _ in cps:
            cl.append(c)
            c += 1 if k < 2 else r.choice([0, 1, 1, 2, 5])
        if k == 3:
            cl = list(range(len(cps) + 3, 3, -1))                      # descending: a reversed buffer
        p = r.choice([0, 100, 30, 50, 80, 90])
        items = []
        for x in _relevant(cps):
            if r.below(100) < p:
                items.append(f"{x}z" if (r.chance(1, 2) if x in TONES else r.chance(1, 12)) else f"{x}")
        spec = ",".join(items) or "-"
        text = ",".join(f"{a}:{b}" for a, b in zip(cps, cl)) or "-"
        lines.append(f"hangul prem {r.choice([0, 1, 1, 1, 2])} {1 if r.chance(1, 5) else 0} {spec} {text}")
    return lines


def classify_pre_flags(ln, out):
    t = ln.split()
    ks = [f"level{t[2]}"]
    if not out.startswith("ok"):
        return ks + ["not-ok"]
    res = [tuple(int(x) for x in e.split(":")) for e in out.split()[1:]]
    inp = [] if t[5] == "-" else [tuple(int(x) for x in e.split(":")) for e in t[5].split(",")]
    if any(m & 1 for _, _, _, m in res):
        ks.append("some-glyph-flagged")
        # the situation of C03_hangul_decomposition_flagged: jamo that came out of a decomposition / stayed uncomposed
        if any(f for _, _, f, _ in res): ks.append("flagged+jamo-tagged")
    if len(res) > len(inp): ks.append("grew")
    if len(res) < len(inp): ks.append("composed")
    if any(c in TONES for c, _ in inp): ks.append("has-tone")
    cls = [c for _, c, _, _ in res]
    if len(set(cls)) > 1 and any(m & 1 for _, _, _, m in res): ks.append("flag-across-clusters")
    return ks


def promoted_shapings(dis, limit):
    """A `hangul prem` request on which the crate and the model disagree is a candidate failing input of the property: its
    text on the font its support spec describes becomes a shape() request (script Hang, LTR, the request's level when it is 0
    or 1, else 1; input clusters kept when strictly increasing, else renumbered) for the break-safety verifier."""
    out = []
    for i, d in enumerate(sorted(dis, key=lambda d: len(d["request"]))[:limit]):
        t = d["request"].split()
        level, nodc, spec = int(t[2]), int(t[3]), t[4]
        recs = [] if t[5] == "-" else [tuple(int(x) for x in e.split(":")) for e in t[5].split(",")]
        cps = [c for c, _ in recs]; cl = [k for _, k in recs]
        if len(cps) < 2 or any(c < 0x20 or 0xD800 <= c <= 0xDFFF for c in cps):
            continue
        if not all(a < b for a, b in zip(cl, cl[1:])):
            cl = list(range(len(cps)))
        fid = f"HP{i}"
        c = F.SynthCase()
        c.name, c.font, c.index, c.text = fid, f"hangul-spec:{spec}", 0, ""
        c.dir, c.script, c.lang, c.flags, c.level, c.feats = None, "Hang", None, 0, 0, []
        c.pre, c.post, c.extra, c.opts = "", "", [], ""
        g = {"fid": fid, "reg": f"hangul font {fid} {spec}", "cases": [c], "alphabet": [], "aat": False, "native": "l",
             "from_correspondence": d}
        s = F.Shaping()
        s.g, s.case = g, c
        s.text = "".join(chr(x) for x in cps)
        s.clusters = cl
        s.req_dir = s.dir = "l"
        s.script = "Hang"
        s.flags = 3 | (16 if nodc else 0)
        s.level = level if level < 2 else 1
        s.extra = []
        s.pre, s.post = "", ""
        s.subset = None
        s.line = None
        out.append(s)
    return out
