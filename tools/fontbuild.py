#!/usr/bin/env python3
"""fontbuild.py -- synthetic OpenType / AAT font builder (pure python3, stdlib only).

    build(recipe: dict) -> bytes     an sfnt that rustybuzz::Face::from_slice accepts
    hexfont(recipe)     -> str       build(recipe).hex()   (for the rbshim request `font <id> <hex>`)

A *recipe* is a plain dict (JSON compatible: tuples may be lists, integer dict keys may be decimal /
0x-hex / "U+XXXX" strings).  Only `num_glyphs` is required.  The builder is deliberately liberal: every
integer is masked to the width of its field, counts are taken from the arrays actually given, and nothing
is validated, so that malformed fonts can be produced on purpose.  By default ("cooked" mode) the builder
keeps the result *well formed* where the recipe is well formed: coverages are sorted, kern pairs and pair
sets are sorted, records searched by tag are sorted.  `"raw": True` on the object switches that off.
The only error raised is FontBuildError when an Offset16 / Offset32 / length field cannot hold its value.

Helpers for code that interprets recipes instead of fonts (models, oracles):
    coverage_order(cov) -> [gid...]   glyphs in coverage-index order as serialised
    parallel(cov, array) -> array      a coverage-parallel array reordered the way build() reorders it
    pua_cmap(num_glyphs), PUA          the private-use alphabet

General escape hatches
    * wherever a table / lookup subtable / coverage / classdef / anchor is expected you may give
      `bytes`, or {"raw_bytes": "<hex>"}: emitted verbatim.
    * wherever a subtable / coverage / classdef is expected you may give `None`: a null (0) offset, or
      {"offset": n}: that literal offset value (nothing is emitted; self references, overlaps).
    * "tables": {"TAG ": bytes | hex-string}   extra sfnt tables added verbatim (override built ones).

Top level keys
    num_glyphs            maxp.numGlyphs (maxp version 0.5; 1.0 when "extents" is used)
    upem=1000, ascender=800, descender=-200, line_gap=0          -> head / hhea
    cmap                  {codepoint: gid}; one subtable, platform 3: format 4 / encoding 1 when all code
                          points <= 0xFFFF, else format 12 / encoding 10.   The string "pua" means
                          {0xE000 + g - 1: g for g in 1..num_glyphs-1}  (the alphabet used by the streams).
                          Omitted or {} -> no cmap table.
    cmap_subtables        [{"platform":3,"encoding":1|10,"format":4|12|6|0|13|14,"map":{cp:gid},"language":0}, ...]
                          overrides `cmap`; encoding records are written in the given order.
                          format 4: one segment per run of consecutive code points with constant gid-cp
                          (idRangeOffset always 0), closed by the 0xFFFF segment; code points > 0xFFFF dropped.
                          format 12 / 13: one group per run (13: per run of equal gid).  format 6: dense array
                          from min(cp) to max(cp), holes -> 0.   format 0: 256 bytes, gids & 0xFF.
                          format 14: "uvs": [[cp, selector, gid|None], ...]  (None = default UVS entry).
    advances              [int]*n  default 500 each -> hmtx.  numberOfHMetrics = len(advances) (default
                          num_glyphs); when shorter than num_glyphs the remaining glyphs get only a side bearing
                          (so the last advance applies to them).  "lsbs": [int] optional side bearings (default 0).
                          advances=None -> no hmtx table at all.
    vadvances             [int]*n (optional) -> vhea + vmtx, same conventions ("tsbs": top side bearings).
                          "vascender"/"vdescender"/"vline_gap" (default upem/2, -upem/2, 0) go to vhea.
    vorg                  {"default": y, "glyphs": {gid: y}}  -> VORG (records sorted by gid unless "raw").
    extents               {gid: [xMin, yMin, xMax, yMax]} -> glyf/loca (long loca) holding only glyph headers
                          (numberOfContours 0 + bbox); other glyphs are empty.  Omitted -> no glyf/loca.
    post                  True -> a trivial version 3.0 'post' table (default: none).  OS/2 is never emitted.
    gdef                  {"classes": {gid: 1..4} | classdef, "mark_attach": {gid: cls} | classdef,
                           "mark_sets": [coverage, ...]}      version 1.2 iff "mark_sets" is present, else 1.0
                          ("version": 0x00010003 adds a null ItemVarStore offset).
    gsub / gpos           see below.
    kern                  [{"horizontal":True,"minimum":False,"cross":False,"override":False,
                            "pairs":[(left,right,value), ...]}, ...]      OpenType 'kern' version 0, format 0
                          subtables.  Pairs are sorted by (left,right) unless "raw": True.  "format": n overrides
                          the format byte (payload stays format 0), "coverage": u8 overrides the flag byte.
    morx                  see below.       feat    see below.

GSUB / GPOS   {"scripts": [...], "features": [...], "lookups": [...], "minor": 0}
    scripts   [{"tag":"DFLT","default":{"required":featIdx|None,"features":[featIdx...]} | None,
                "langs":[{"tag":"ENG ","required":...,"features":[...]}]}]
              Script and LangSys records are sorted by tag (they are binary searched) unless the table has
              "raw": True.  When "scripts" is omitted a single DFLT script whose default LangSys lists every
              feature in order is generated.
    features  [{"tag":"liga","lookups":[lookupIdx...]}]   written in the given order (indices are references).
    lookups   [{"type":n,"flag":u16,"mark_set":idx|None,"subtables":[...]}]
              markFilteringSet is written iff mark_set is not None or flag has bit 0x10; giving mark_set also
              sets bit 0x10.  "type" is written as is; the subtable serialiser is chosen by "type" (by
              "ext_type" inside extensions).
    "minor":1 writes version 1.1 with a null FeatureVariations offset.

  coverage  (anywhere)
      [gid, ...]                          format 1
      {"ranges": [(a,b), ...]}            format 2   (a third element overrides startCoverageIndex)
      {"glyphs": [...], "format": 1|2, "raw": bool}
    cooked: glyphs are sorted and de-duplicated (valid sorted disjoint "ranges" are kept as given; otherwise
    they are expanded, sorted and re-compressed).  ARRAYS PARALLEL TO A COVERAGE (substitutes, sequences,
    ligsets, rulesets, values, pairsets, entry_exit, marks, bases, ...) ARE GIVEN IN THE ORDER OF THE GLYPHS AS
    WRITTEN IN THE RECIPE and are permuted together with the coverage, i.e. {"coverage":[5,3],"subst":[10,11]}
    means 5->10, 3->11.  (Entries of duplicate glyphs are dropped; when the array length differs from the
    coverage length the surplus is kept at the end.)
    raw ("raw": True): written exactly as given, parallel arrays are indexed by coverage index as written.
  classdef  (anywhere)
      {gid: class}                        format 1 or 2, whichever is smaller (ties: 1); {} -> format 2, empty
      {"format": 1|2, "map": {gid: class}}            forced format
      {"format": 1, "start": g, "classes": [c...]}  /  {"format": 2, "ranges": [(a,b,cls)...]}     verbatim

  GSUB subtables ("format" may be omitted when it follows from the keys)
    type 1  {"format":1,"coverage":C,"delta":d} | {"format":2,"coverage":C,"subst":[gid...]}
    type 2  {"coverage":C,"sequences":[[gid...],...]}         type 3  {"coverage":C,"alternates":[[gid...],...]}
    type 4  {"coverage":[first...],"ligsets":[[{"components":[gid... without the first],"glyph":gid},...],...]}
    type 5  {"format":1,"coverage":C,"rulesets":[None | [{"input":[gid... from the 2nd],"lookups":[(seqIdx,lookupIdx)...]}...]...]}
            {"format":2,"coverage":C,"classdef":D,"classsets":[None | [{"input":[cls... from the 2nd],"lookups":[...]}...]...]}
            {"format":3,"coverages":[C...],"lookups":[...]}
    type 6  {"format":1,"coverage":C,"rulesets":[[{"backtrack":[gid...],"input":[...],"lookahead":[...],"lookups":[...]}...]...]}
            {"format":2,"coverage":C,"backtrack_classdef":D|None,"input_classdef":D|None,"lookahead_classdef":D|None,
             "classsets":[None | [{"backtrack":[cls...],"input":[...],"lookahead":[...],"lookups":[...]}...]...]}
            {"format":3,"backtrack":[C...],"coverages":[C...]  (alias "input"),"lookahead":[C...],"lookups":[...]}
            backtrack sequences are written as given, i.e. in the binary order: backtrack[0] is the glyph
            immediately before the input sequence.
    type 7  {"extension": <type n subtable>, "ext_type": n}       (lookup "type" must be 7)
    type 8  {"coverage":C,"backtrack":[C...],"lookahead":[C...],"subst":[gid...]}
  GPOS subtables
    value record = dict with any of xPlacement, yPlacement, xAdvance, yAdvance (ints) or None; the value format
    of a subtable is the union of the keys used (override: "value_format" / "value_format1" / "value_format2";
    device bits produce null device offsets).     anchor = (x, y) | None | {"x":..,"y":..,"format":1|2|3,"point":n}
    type 1  {"format":1,"coverage":C,"value":vr} | {"format":2,"coverage":C,"values":[vr...]}
    type 2  {"format":1,"coverage":C,"pairsets":[[(secondGid,vr1,vr2)...]...]}      (sets sorted by second unless "raw")
            {"format":2,"coverage":C,"classdef1":D,"classdef2":D,"matrix":[[(vr1,vr2)...]...]}    ([class1][class2])
    type 3  {"coverage":C,"entry_exit":[(entryAnchor|None, exitAnchor|None)...]}
    type 4  {"mark_coverage":C,"base_coverage":C,"class_count":k,"marks":[(cls,anchor)...],"bases":[[anchor|None]*k ...]}
    type 5  {"mark_coverage":C,"lig_coverage":C,"class_count":k,"marks":[...],"ligs":[[[anchor|None]*k per component]...]}
    type 6  {"mark1_coverage":C,"mark2_coverage":C,"class_count":k,"marks":[...],"mark2":[[anchor|None]*k...]}
            class_count defaults to the widest row (or max mark class + 1).
    type 7 / 8 / 9   like GSUB 5 / 6 / 7

morx   {"version": 2, "chains": [{"default_flags": u32,
                                  "features": [{"type":t,"setting":s,"enable":u32,"disable":u32}...],
                                  "subtables": [S...]}]}
    S = {"kind": "rearrangement"|"contextual"|"ligature"|"noncontextual"|"insertion"  (or 0|1|2|4|5),
         "vertical":bool,"descending":bool,"all_directions":bool,"logical":bool   (coverage bits 0x80,0x40,0x20,0x10
         of the top byte; "coverage": u8 overrides), "feature_flags": u32 (default 1, like a chain's "default_flags"),
         state machine kinds:  "classes": {gid: cls>=4}, "nclasses": n (default max(4, max class + 1)),
                               "class_format": 0|2|4|6|8|10 (AAT lookup format of the class table; default 6, 8 when empty),
                               "states": [[entryIdx]*nclasses ...]   (row 0 = start of text, row 1 = start of line;
                               short rows are padded with entry 0 unless "raw"),
                               "entries": [{"new_state": i, "flags": u16, ...per kind...}...]}
    Per kind:
      rearrangement   entry {"new_state","flags"}    flags: markFirst 0x8000, dontAdvance 0x4000, markLast 0x2000, verb = low 4 bits
      contextual      entry {"new_state","flags","mark_index","current_index"} (0xFFFF = none, the default);
                      flags: setMark 0x8000, dontAdvance 0x4000;  "substitutions": [{gid: gid} | {"format":f,"map":{...}} ...]
      ligature        entry {"new_state","flags","action_index"}; flags: setComponent 0x8000, dontAdvance 0x4000,
                      performAction 0x2000;  "lig_actions": [u32...] (last 0x80000000, store 0x40000000, low 30 bits = signed
                      offset), "components": [u16...], "ligatures": [gid...]
      noncontextual   "map": {gid: gid}, "format": 0|2|4|6|8|10 (default 6, 8 when empty)
      insertion       entry {"new_state","flags","current_insert_index","marked_insert_index"} (0xFFFF = none);
                      flags: setMark 0x8000, dontAdvance 0x4000, currentIsKashidaLike 0x2000, markedIsKashidaLike 0x1000,
                      currentInsertBefore 0x0800, markedInsertBefore 0x0400, currentInsertCount 0x03E0, markedInsertCount 0x001F;
                      "insert_glyphs": [gid...]
    Layout of a state machine subtable body (offsets are from the start of the body, i.e. after the 12 byte
    subtable header, as ttf-parser and HarfBuzz read them):
        nClasses u32, classTableOffset u32, stateArrayOffset u32, entryTableOffset u32, [per kind offsets u32...],
        class lookup table, state array (u16 entry indices), entry table, then per kind payload in the order
        contextual: offset array (u32, relative to itself) + lookup tables; ligature: lig_actions, components,
        ligatures; insertion: insert_glyphs.   Nothing is padded: the subtable length is exact, so the *last* array
        ends at the subtable end while earlier ones run into their successors when indexed out of range.
    AAT lookup formats: 0 (needs num_glyphs), 2, 4, 6, 8, 10 (value size 2).  Holes of array formats (0, 8, 10) are
    filled with class 1 (out of bounds) in class tables and with the glyph itself in substitution maps.
    "terminator": True on the subtable appends the 0xFFFF termination unit to binary-search lookups (2, 4, 6).
feat   [{"type": t, "settings": [s... | (s, nameIndex)...], "exclusive": bool, "default_index": n|None, "name_index": n}]
       records sorted by type unless a record list wrapper {"raw": True, "names": [...]} is used.

Field overrides for deliberately inconsistent fonts (all optional; default = the consistent value):
    sfnt_version (top level); gsub/gpos "major"; LangSys "lookup_order"; feature "params"; context rule "glyph_count"
    (also on format 3 subtables); ligature "comp_count"; pair format 2 "class1_count" / "class2_count"; gdef
    "mark_sets_format"; any lookup subtable "format" (written as is while the payload follows the recipe keys);
    kern subtable "version", "length", "format", "coverage"; morx "nchains", chain "length", subtable "length",
    "coverage"; feat record "flags"; morx entries may be raw bytes.

Notes on what ttf-parser 0.25 / rustybuzz actually require (checked against the sources):
  * sfnt table directory is binary searched: always written sorted by tag.  head (>= 54 bytes, upem 16..16384,
    indexToLocFormat 0|1), hhea (>= 36 bytes), maxp (version 0.5 or 1.0, numGlyphs != 0) are mandatory.
  * GSUB/GPOS need major version 1 and three non-failing list offsets; lookups/subtables are parsed lazily.
  * morx chain/subtable iterators stop at the end of the data (the counts are not decremented), so lengths
    must be exact: they are.
"""
import struct
import sys

__all__ = ["build", "hexfont", "FontBuildError", "pua_cmap", "PUA", "coverage_order", "parallel"]

PUA = 0xE000


class FontBuildError(OverflowError):
    pass


# --------------------------------------------------------------------------------------------------
# small helpers

def _int_key(k):
    if isinstance(k, int):
        return k
    if isinstance(k, str):
        s = k.strip()
        if s[:2] in ("U+", "u+"):
            return int(s[2:], 16)
        return int(s, 0)
    return int(k)


def _imap(d):
    """dict with integer-like keys -> {int: value}"""
    if d is None:
        return {}
    return {_int_key(k): v for k, v in d.items()}


def _tag(t):
    if isinstance(t, int):
        return struct.pack(">I", t & 0xFFFFFFFF)
    if isinstance(t, bytes):
        b = t
    else:
        b = str(t).encode("latin-1", "replace")
    return (b + b"    ")[:4]


def _rawbytes(x):
    """bytes | hex string | {"raw_bytes": hex|bytes} -> bytes, else None"""
    if isinstance(x, (bytes, bytearray)):
        return bytes(x)
    if isinstance(x, dict) and "raw_bytes" in x:
        v = x["raw_bytes"]
        return bytes(v) if isinstance(v, (bytes, bytearray)) else bytes.fromhex(v)
    return None


def _u16(v):
    return struct.pack(">H", int(v) & 0xFFFF)


def _u32(v):
    return struct.pack(">I", int(v) & 0xFFFFFFFF)


def pua_cmap(num_glyphs):
    """U+E000 -> glyph 1, U+E001 -> glyph 2, ... (glyph 0 stays unmapped)."""
    return {PUA + g - 1: g for g in range(1, num_glyphs)}


class _Blk:
    """A byte block with child blocks referenced by offsets relative to the start of this block.
    Children are laid out after the fixed part, in order of first reference; a child object referenced
    twice is emitted once."""

    def __init__(self, what=""):
        self.parts = []
        self.what = what

    def raw(self, b):
        self.parts.append(("b", bytes(b)))
        return self

    def u8(self, v):
        return self.raw(bytes([int(v) & 0xFF]))

    def u16(self, v):
        return self.raw(_u16(v))

    def u24(self, v):
        return self.raw(struct.pack(">I", int(v) & 0xFFFFFF)[1:])

    def u32(self, v):
        return self.raw(_u32(v))

    def tag(self, t):
        return self.raw(_tag(t))

    def u16s(self, vs):
        return self.raw(b"".join(_u16(v) for v in vs))

    def off16(self, child):
        self.parts.append(("o2", child))
        return self

    def off32(self, child):
        self.parts.append(("o4", child))
        return self

    def build(self):
        head = 0
        for k, v in self.parts:
            head += len(v) if k == "b" else (2 if k == "o2" else 4)
        out, tail, pos, seen = [], [], head, {}
        for k, v in self.parts:
            if k == "b":
                out.append(v)
                continue
            if v is None:
                off = 0
            elif isinstance(v, int):
                off = v
            else:
                key = id(v)
                if key in seen:
                    off = seen[key]
                else:
                    data = v if isinstance(v, bytes) else v.build()
                    off = pos
                    seen[key] = off
                    tail.append(data)
                    pos += len(data)
            if k == "o2":
                if not 0 <= off <= 0xFFFF:
                    raise FontBuildError("Offset16 overflow (%d) in %s; use extension lookups" % (off, self.what))
                out.append(_u16(off))
            else:
                if not 0 <= off <= 0xFFFFFFFF:
                    raise FontBuildError("Offset32 overflow in %s" % self.what)
                out.append(_u32(off))
        return b"".join(out + tail)


def _child(x, conv):
    """None -> null offset, {"offset": n} -> literal, raw bytes -> verbatim, else conv(x)."""
    if x is None:
        return None
    rb = _rawbytes(x)
    if rb is not None:
        return rb
    if isinstance(x, dict) and set(x.keys()) == {"offset"}:
        return int(x["offset"])
    return conv(x)


# --------------------------------------------------------------------------------------------------
# coverage / classdef

def _runs(glyphs):
    """consecutive ascending runs of a glyph list, in order: [(first, last), ...]"""
    runs = []
    for g in glyphs:
        if runs and g == runs[-1][1] + 1:
            runs[-1][1] = g
        else:
            runs.append([g, g])
    return [(a, b) for a, b in runs]


def _coverage(c):
    """-> (child, perm, n).  child: _Blk | bytes | int | None.  perm: list mapping the *new* coverage index
    to the index in the glyph order written in the recipe (None = identity).  n = number of covered glyphs
    as written (length parallel arrays are expected to have)."""
    if c is None:
        return None, None, 0
    rb = _rawbytes(c)
    if rb is not None:
        return rb, None, 0
    if isinstance(c, dict) and set(c.keys()) == {"offset"}:
        return int(c["offset"]), None, 0
    raw = False
    fmt = None
    ranges = None
    if isinstance(c, dict):
        raw = bool(c.get("raw", False))
        fmt = c.get("format")
        if "ranges" in c:
            ranges = [tuple(int(x) for x in r) for r in c["ranges"]]
            flat = []
            for r in ranges:
                flat.extend(range(r[0], r[1] + 1))
            if fmt is None:
                fmt = 2
        else:
            flat = [int(g) for g in c.get("glyphs", [])]
            if fmt is None:
                fmt = 1
    else:
        flat = [int(g) for g in c]
        fmt = 1
    b = _Blk("coverage")
    if raw:
        if ranges is not None and fmt == 2:
            b.u16(2).u16(len(ranges))
            idx = 0
            for r in ranges:
                start = r[2] if len(r) > 2 else idx
                b.u16(r[0]).u16(r[1]).u16(start)
                idx += max(0, r[1] - r[0] + 1)
        elif fmt == 2:
            rs = _runs(flat)
            b.u16(2).u16(len(rs))
            idx = 0
            for a, z in rs:
                b.u16(a).u16(z).u16(idx)
                idx += z - a + 1
        else:
            b.u16(fmt).u16(len(flat)).u16s(flat)
        return b, None, len(flat)
    # cooked
    first = {}
    for i, g in enumerate(flat):
        first.setdefault(g, i)
    order = sorted(first)
    perm = [first[g] for g in order]
    if perm == list(range(len(flat))):
        perm = None
    if fmt == 2:
        valid = ranges is not None and all(len(r) == 2 and r[0] <= r[1] for r in ranges) and \
            all(ranges[i][1] < ranges[i + 1][0] for i in range(len(ranges) - 1))
        rs = [(r[0], r[1]) for r in ranges] if valid else _runs(order)
        b.u16(2).u16(len(rs))
        idx = 0
        for a, z in rs:
            b.u16(a).u16(z).u16(idx)
            idx += z - a + 1
    else:
        b.u16(fmt).u16(len(order)).u16s(order)
    return b, perm, len(flat)


def coverage_order(c):
    """Glyph ids of a recipe coverage in coverage-index order, as build() serialises it (cooked: sorted and
    de-duplicated; raw: as written; format-2 ranges expanded).  For model-side flatteners of recipes."""
    if c is None or _rawbytes(c) is not None or (isinstance(c, dict) and set(c.keys()) == {"offset"}):
        return []
    if isinstance(c, dict):
        if "ranges" in c:
            flat = [g for r in c["ranges"] for g in range(int(r[0]), int(r[1]) + 1)]
        else:
            flat = [int(g) for g in c.get("glyphs", [])]
        if c.get("raw"):
            return flat
    else:
        flat = [int(g) for g in c]
    return sorted(set(flat))


def parallel(c, arr):
    """An array written parallel to recipe coverage `c` (in the recipe's glyph order) reordered to coverage-index
    order, exactly as build() does: parallel(c, arr)[i] belongs to coverage_order(c)[i]."""
    _, perm, n = _coverage(c)
    return _permute(arr, perm, n)


def _permute(arr, perm, n):
    """reorder an array given in recipe-coverage order into final coverage order"""
    arr = list(arr or [])
    if perm is None:
        return arr
    out = [arr[p] for p in perm if p < len(arr)]
    out.extend(arr[n:])
    return out


def _classdef_blk(cd):
    b = _Blk("classdef")
    if isinstance(cd, dict) and ("format" in cd or "map" in cd or "ranges" in cd or "classes" in cd):
        fmt = cd.get("format")
        if "classes" in cd and "map" not in cd:
            cl = list(cd["classes"])
            return b.u16(1 if fmt is None else fmt).u16(cd.get("start", 0)).u16(len(cl)).u16s(cl)
        if "ranges" in cd and "map" not in cd:
            rs = [tuple(r) for r in cd["ranges"]]
            b.u16(2 if fmt is None else fmt).u16(len(rs))
            for r in rs:
                b.u16(r[0]).u16(r[1]).u16(r[2] if len(r) > 2 else 0)
            return b
        m = _imap(cd.get("map", {}))
    else:
        m = _imap(cd)
        fmt = None
    items = sorted((g, int(c)) for g, c in m.items())
    nz = [(g, c) for g, c in items if c != 0]
    ranges = []
    for g, c in nz:
        if ranges and ranges[-1][1] + 1 == g and ranges[-1][2] == c:
            ranges[-1][1] = g
        else:
            ranges.append([g, g, c])
    if fmt is None:
        if not nz:
            fmt = 2
        else:
            s1 = 6 + 2 * (nz[-1][0] - nz[0][0] + 1)
            s2 = 4 + 6 * len(ranges)
            fmt = 1 if s1 <= s2 else 2
    if fmt == 1:
        if not items:
            return b.u16(1).u16(0).u16(0)
        src = nz if nz else items
        lo, hi = src[0][0], src[-1][0]
        d = dict(items)
        return b.u16(1).u16(lo).u16(hi - lo + 1).u16s([d.get(g, 0) for g in range(lo, hi + 1)])
    b.u16(fmt).u16(len(ranges))
    for a, z, c in ranges:
        b.u16(a).u16(z).u16(c)
    return b


def _classdef(cd):
    return _child(cd, _classdef_blk)


# --------------------------------------------------------------------------------------------------
# GSUB / GPOS common

def _seq_lookups(b, recs):
    for r in recs or []:
        b.u16(r[0]).u16(r[1])


def _rule(r):
    """SequenceRule / ClassSequenceRule"""
    inp = list(r.get("input", []))
    lk = list(r.get("lookups", []))
    b = _Blk("rule").u16(r.get("glyph_count", len(inp) + 1)).u16(len(lk)).u16s(inp)
    _seq_lookups(b, lk)
    return b


def _chain_rule(r):
    bt, inp, la = list(r.get("backtrack", [])), list(r.get("input", [])), list(r.get("lookahead", []))
    lk = list(r.get("lookups", []))
    b = _Blk("chainrule").u16(len(bt)).u16s(bt).u16(r.get("glyph_count", len(inp) + 1)).u16s(inp)
    b.u16(len(la)).u16s(la).u16(len(lk))
    _seq_lookups(b, lk)
    return b


def _ruleset(rs, rulefn):
    def conv(rules):
        b = _Blk("ruleset").u16(len(rules))
        for r in rules:
            b.off16(_child(r, rulefn))
        return b
    return _child(rs, conv)


def _context(st, chain):
    fmt = st.get("format")
    if fmt is None:
        fmt = 1 if "rulesets" in st else 2 if "classsets" in st else 3
    rulefn = _chain_rule if chain else _rule
    b = _Blk("context")
    if fmt == 3:
        inputs = list(st.get("coverages", st.get("input", [])))
        lk = list(st.get("lookups", []))
        b.u16(3)
        if chain:
            bt = list(st.get("backtrack", []))
            la = list(st.get("lookahead", []))
            b.u16(len(bt))
            for c in bt:
                b.off16(_coverage(c)[0])
            b.u16(st.get("glyph_count", len(inputs)))
            for c in inputs:
                b.off16(_coverage(c)[0])
            b.u16(len(la))
            for c in la:
                b.off16(_coverage(c)[0])
            b.u16(len(lk))
        else:
            b.u16(st.get("glyph_count", len(inputs))).u16(len(lk))
            for c in inputs:
                b.off16(_coverage(c)[0])
        _seq_lookups(b, lk)
        return b
    cov, perm, n = _coverage(st.get("coverage"))
    b.u16(fmt).off16(cov)
    if fmt == 1:
        sets = _permute(st.get("rulesets", []), perm, n)
    else:
        if chain:
            b.off16(_classdef(st.get("backtrack_classdef")))
            b.off16(_classdef(st.get("input_classdef", st.get("classdef"))))
            b.off16(_classdef(st.get("lookahead_classdef")))
        else:
            b.off16(_classdef(st.get("classdef", st.get("input_classdef"))))
        sets = list(st.get("classsets", []))
    b.u16(len(sets))
    for s in sets:
        b.off16(_ruleset(s, rulefn))
    return b


def _gid_list_blk(gids, what):
    return _Blk(what).u16(len(gids)).u16s(gids)


def _gsub_subtable(typ, st):
    rb = _rawbytes(st)
    if rb is not None:
        return rb
    b = _Blk("gsub%s" % typ)
    if typ == 1:
        fmt = st.get("format", 1 if "delta" in st else 2)
        cov, perm, n = _coverage(st.get("coverage"))
        b.u16(fmt).off16(cov)
        if fmt == 1:
            b.u16(st.get("delta", 0))
        else:
            subst = _permute(st.get("subst", []), perm, n)
            b.u16(len(subst)).u16s(subst)
        return b
    if typ in (2, 3):
        key = "sequences" if typ == 2 else "alternates"
        cov, perm, n = _coverage(st.get("coverage"))
        seqs = _permute(st.get(key, []), perm, n)
        b.u16(st.get("format", 1)).off16(cov).u16(len(seqs))
        for s in seqs:
            b.off16(_child(s, lambda x: _gid_list_blk(list(x), key)))
        return b
    if typ == 4:
        cov, perm, n = _coverage(st.get("coverage"))
        sets = _permute(st.get("ligsets", []), perm, n)
        b.u16(st.get("format", 1)).off16(cov).u16(len(sets))

        def lig(l):
            comps = list(l.get("components", []))
            return _Blk("lig").u16(l.get("glyph", 0)).u16(l.get("comp_count", len(comps) + 1)).u16s(comps)

        def ligset(ls):
            sb = _Blk("ligset").u16(len(ls))
            for l in ls:
                sb.off16(_child(l, lig))
            return sb
        for s in sets:
            b.off16(_child(s, ligset))
        return b
    if typ == 5:
        return _context(st, False)
    if typ == 6:
        return _context(st, True)
    if typ == 7:
        return _extension(st, _gsub_subtable)
    if typ == 8:
        cov, perm, n = _coverage(st.get("coverage"))
        bt, la = list(st.get("backtrack", [])), list(st.get("lookahead", []))
        subst = _permute(st.get("subst", []), perm, n)
        b.u16(st.get("format", 1)).off16(cov).u16(len(bt))
        for c in bt:
            b.off16(_coverage(c)[0])
        b.u16(len(la))
        for c in la:
            b.off16(_coverage(c)[0])
        b.u16(len(subst)).u16s(subst)
        return b
    raise ValueError("GSUB lookup type %r has no serialiser (use raw_bytes)" % (typ,))


def _extension(st, fn):
    et = st.get("ext_type", 1)
    inner = st.get("extension")
    child = _child(inner, lambda x: fn(et, x))
    return _Blk("extension").u16(st.get("format", 1)).u16(et).off32(child)


# ---- GPOS

_VR_KEYS = ["xPlacement", "yPlacement", "xAdvance", "yAdvance", "xPlaDevice", "yPlaDevice", "xAdvDevice", "yAdvDevice"]


def _vr_format(vrs, forced=None):
    if forced is not None:
        return int(forced)
    f = 0
    for vr in vrs:
        for i, k in enumerate(_VR_KEYS):
            if vr and k in vr:
                f |= 1 << i
    return f


def _vr_bytes(vr, fmt):
    out = []
    for i, k in enumerate(_VR_KEYS):
        if fmt & (1 << i):
            out.append(_u16((vr or {}).get(k, 0)))
    # bits 8..15 are reserved: ttf-parser ignores them, so no data for them
    return b"".join(out)


def _anchor(a):
    def conv(a):
        if isinstance(a, dict):
            fmt = a.get("format", 1)
            b = _Blk("anchor").u16(fmt).u16(a.get("x", 0)).u16(a.get("y", 0))
            if fmt == 2:
                b.u16(a.get("point", 0))
            elif fmt == 3:
                b.u16(0).u16(0)
            return b
        return _Blk("anchor").u16(1).u16(a[0]).u16(a[1])
    return _child(a, conv)


def _mark_array(marks):
    b = _Blk("markarray").u16(len(marks))
    for m in marks:
        b.u16(m[0]).off16(_anchor(m[1]))
    return b


def _anchor_matrix(rows, k):
    b = _Blk("anchormatrix").u16(len(rows))
    for row in rows:
        row = list(row or [])
        row = row + [None] * (k - len(row))     # short rows are padded; over-long rows are written in full
        for a in row:
            b.off16(_anchor(a))
    return b


def _class_count(st, rows_of_rows):
    if "class_count" in st:
        return int(st["class_count"])
    k = 0
    for rows in rows_of_rows:
        for row in rows:
            k = max(k, len(row or []))
    for m in st.get("marks", []):
        k = max(k, int(m[0]) + 1)
    return k


def _gpos_subtable(typ, st):
    rb = _rawbytes(st)
    if rb is not None:
        return rb
    b = _Blk("gpos%s" % typ)
    if typ == 1:
        fmt = st.get("format", 1 if "value" in st else 2)
        cov, perm, n = _coverage(st.get("coverage"))
        b.u16(fmt).off16(cov)
        if fmt == 1:
            vr = st.get("value") or {}
            vf = _vr_format([vr], st.get("value_format"))
            b.u16(vf).raw(_vr_bytes(vr, vf))
        else:
            vals = _permute(st.get("values", []), perm, n)
            vf = _vr_format(vals, st.get("value_format"))
            b.u16(vf).u16(len(vals))
            for vr in vals:
                b.raw(_vr_bytes(vr, vf))
        return b
    if typ == 2:
        fmt = st.get("format", 1 if "pairsets" in st else 2)
        cov, perm, n = _coverage(st.get("coverage"))
        b.u16(fmt).off16(cov)
        if fmt == 1:
            sets = _permute(st.get("pairsets", []), perm, n)
            allp = [p for s in sets if isinstance(s, (list, tuple)) for p in s]
            vf1 = _vr_format([p[1] if len(p) > 1 else None for p in allp], st.get("value_format1"))
            vf2 = _vr_format([p[2] if len(p) > 2 else None for p in allp], st.get("value_format2"))
            b.u16(vf1).u16(vf2).u16(len(sets))

            def pairset(s):
                ps = [tuple(p) for p in s]
                if not st.get("raw"):
                    ps = sorted(ps, key=lambda p: int(p[0]) & 0xFFFF)
                sb = _Blk("pairset").u16(len(ps))
                for p in ps:
                    sb.u16(p[0]).raw(_vr_bytes(p[1] if len(p) > 1 else None, vf1))
                    sb.raw(_vr_bytes(p[2] if len(p) > 2 else None, vf2))
                return sb
            for s in sets:
                b.off16(_child(s, pairset))
        else:
            matrix = [list(row or []) for row in st.get("matrix", [])]
            cells = [c for row in matrix for c in row if c]
            vf1 = _vr_format([c[0] for c in cells], st.get("value_format1"))
            vf2 = _vr_format([c[1] if len(c) > 1 else None for c in cells], st.get("value_format2"))
            c1 = st.get("class1_count", len(matrix))
            c2 = st.get("class2_count", max([len(r) for r in matrix] or [0]))
            b.u16(vf1).u16(vf2)
            b.off16(_classdef(st.get("classdef1"))).off16(_classdef(st.get("classdef2")))
            b.u16(c1).u16(c2)
            for row in matrix:
                row = row + [None] * (c2 - len(row))
                for cell in row:
                    cell = cell or (None, None)
                    b.raw(_vr_bytes(cell[0], vf1)).raw(_vr_bytes(cell[1] if len(cell) > 1 else None, vf2))
        return b
    if typ == 3:
        cov, perm, n = _coverage(st.get("coverage"))
        ee = _permute(st.get("entry_exit", []), perm, n)
        b.u16(st.get("format", 1)).off16(cov).u16(len(ee))
        for e in ee:
            e = e or (None, None)
            b.off16(_anchor(e[0])).off16(_anchor(e[1] if len(e) > 1 else None))
        return b
    if typ in (4, 5, 6):
        mk, bk, rk = {4: ("mark_coverage", "base_coverage", "bases"),
                      5: ("mark_coverage", "lig_coverage", "ligs"),
                      6: ("mark1_coverage", "mark2_coverage", "mark2")}[typ]
        mcov, mperm, mn = _coverage(st.get(mk))
        bcov, bperm, bn = _coverage(st.get(bk))
        marks = _permute(st.get("marks", []), mperm, mn)
        rows = _permute(st.get(rk, []), bperm, bn)
        k = _class_count(st, rows if typ == 5 else [rows])
        b.u16(st.get("format", 1)).off16(mcov).off16(bcov).u16(k)
        b.off16(_child(marks, _mark_array))
        if typ == 5:
            def ligarray(ligs):
                lb = _Blk("ligarray").u16(len(ligs))
                for comps in ligs:
                    lb.off16(_child(comps, lambda c: _anchor_matrix(c, k)))
                return lb
            b.off16(_child(rows, ligarray))
        else:
            b.off16(_child(rows, lambda r: _anchor_matrix(r, k)))
        return b
    if typ == 7:
        return _context(st, False)
    if typ == 8:
        return _context(st, True)
    if typ == 9:
        return _extension(st, _gpos_subtable)
    raise ValueError("GPOS lookup type %r has no serialiser (use raw_bytes)" % (typ,))


def _langsys(ls):
    feats = list(ls.get("features", []))
    req = ls.get("required")
    return _Blk("langsys").u16(ls.get("lookup_order", 0)).u16(0xFFFF if req is None else req).u16(len(feats)).u16s(feats)


def _layout_table(t, subfn):
    rb = _rawbytes(t)
    if rb is not None:
        return rb
    raw = bool(t.get("raw", False))
    features = list(t.get("features", []))
    lookups = list(t.get("lookups", []))
    scripts = t.get("scripts")
    if scripts is None:
        scripts = [{"tag": "DFLT", "default": {"required": None, "features": list(range(len(features)))}, "langs": []}]
    scripts = list(scripts)
    if not raw:
        scripts = sorted(scripts, key=lambda s: _tag(s.get("tag", "DFLT")))

    sl = _Blk("scriptlist").u16(len(scripts))
    for s in scripts:
        langs = list(s.get("langs", []))
        if not raw:
            langs = sorted(langs, key=lambda l: _tag(l.get("tag", "dflt")))
        sb = _Blk("script").off16(_child(s.get("default"), _langsys)).u16(len(langs))
        for l in langs:
            sb.tag(l.get("tag", "dflt")).off16(_child(l, _langsys))
        sl.tag(s.get("tag", "DFLT")).off16(sb)

    fl = _Blk("featurelist").u16(len(features))
    for f in features:
        lk = list(f.get("lookups", []))
        fl.tag(f.get("tag", "test")).off16(_Blk("feature").u16(f.get("params", 0)).u16(len(lk)).u16s(lk))

    ll = _Blk("lookuplist").u16(len(lookups))
    for l in lookups:
        def conv(l):
            typ = l.get("type", 1)
            flag = int(l.get("flag", 0))
            ms = l.get("mark_set")
            if ms is not None:
                flag |= 0x10
            subs = list(l.get("subtables", []))
            lb = _Blk("lookup").u16(typ).u16(flag).u16(len(subs))
            for st in subs:
                lb.off16(_child(st, lambda x: subfn(typ, x)))
            if flag & 0x10:
                lb.u16(ms or 0)
            return lb
        ll.off16(_child(l, conv))

    minor = t.get("minor", 0)
    b = _Blk("layout").u16(t.get("major", 1)).u16(minor).off16(sl).off16(fl).off16(ll)
    if minor >= 1:
        b.off32(None)
    return b.build()


def _gdef(g):
    rb = _rawbytes(g)
    if rb is not None:
        return rb
    sets = g.get("mark_sets")
    version = g.get("version", 0x00010002 if sets is not None else 0x00010000)
    b = _Blk("GDEF").u32(version)
    b.off16(_classdef(g.get("classes")))
    b.off16(None).off16(None)
    b.off16(_classdef(g.get("mark_attach")))
    if version >= 0x00010002:
        def conv(sets):
            sb = _Blk("markglyphsets").u16(g.get("mark_sets_format", 1)).u16(len(sets))
            for c in sets:
                sb.off32(_coverage(c)[0])
            return sb
        b.off16(_child(sets, conv))
    if version >= 0x00010003:
        b.off32(None)
    return b.build()


# --------------------------------------------------------------------------------------------------
# kern

def _kern(subs):
    rb = _rawbytes(subs)
    if rb is not None:
        return rb
    out = [_u16(0), _u16(len(subs))]
    for s in subs:
        r = _rawbytes(s)
        if r is not None:
            out.append(r)
            continue
        pairs = [tuple(p) for p in s.get("pairs", [])]
        if not s.get("raw"):
            pairs = sorted(pairs, key=lambda p: ((int(p[0]) & 0xFFFF) << 16) | (int(p[1]) & 0xFFFF))
        n = len(pairs)
        es = 0
        while (2 << es) <= n:
            es += 1
        sr = (1 << es) * 6 if n else 0
        cov = s.get("coverage")
        if cov is None:
            cov = (1 if s.get("horizontal", True) else 0) | (2 if s.get("minimum") else 0) | \
                  (4 if s.get("cross") else 0) | (8 if s.get("override") else 0)
        body = [_u16(n), _u16(sr), _u16(es), _u16(max(0, n * 6 - sr))]
        for p in pairs:
            body.append(_u16(p[0]) + _u16(p[1]) + _u16(p[2] if len(p) > 2 else 0))
        body = b"".join(body)
        length = s.get("length", 6 + len(body))
        out.append(_u16(s.get("version", 0)) + _u16(length) + bytes([s.get("format", 0) & 0xFF, cov & 0xFF]) + body)
    return b"".join(out)


# --------------------------------------------------------------------------------------------------
# AAT: lookup tables, morx, feat

def _binsrch_header(unit, n):
    es = 0
    while (2 << es) <= n:
        es += 1
    sr = (1 << es) * unit if n else 0
    return _u16(unit) + _u16(n) + _u16(sr) + _u16(es) + _u16(max(0, n * unit - sr))


def _aat_lookup(mapping, fmt=None, fill=None, num_glyphs=0, terminator=False):
    """AAT lookup table for {gid: u16}.  fill(gid) gives the value for holes of array formats."""
    rb = _rawbytes(mapping)
    if rb is not None:
        return rb
    if isinstance(mapping, dict) and ("map" in mapping or "format" in mapping):
        if fmt is None or "format" in mapping:
            fmt = mapping.get("format", fmt)
        terminator = mapping.get("terminator", terminator)
        mapping = mapping.get("map", {})
    m = sorted((g & 0xFFFF, int(v)) for g, v in _imap(mapping).items())
    if fill is None:
        fill = lambda g: 0
    if fmt is None:
        fmt = 6 if m else 8
    d = dict(m)
    if fmt == 0:
        return _u16(0) + b"".join(_u16(d.get(g, fill(g))) for g in range(num_glyphs))
    if fmt in (2, 4):
        segs = []
        for g, v in m:
            if segs and segs[-1][1] + 1 == g and (fmt == 4 or segs[-1][2] == v):
                segs[-1][1] = g
            else:
                segs.append([g, g, v])
        n = len(segs) + (1 if terminator else 0)
        out = [_u16(fmt), _binsrch_header(6, n)]
        if fmt == 2:
            for a, z, v in segs:
                out.append(_u16(z) + _u16(a) + _u16(v))
            if terminator:
                out.append(b"\xff\xff\xff\xff\x00\x00")
            return b"".join(out)
        off = 2 + 10 + 6 * n
        vals = []
        for a, z, _ in segs:
            out.append(_u16(z) + _u16(a) + _u16(off))
            for g in range(a, z + 1):
                vals.append(_u16(d[g]))
            off += 2 * (z - a + 1)
        if terminator:
            out.append(b"\xff\xff\xff\xff\x00\x00")
        return b"".join(out + vals)
    if fmt == 6:
        n = len(m) + (1 if terminator else 0)
        out = [_u16(6), _binsrch_header(4, n)]
        for g, v in m:
            out.append(_u16(g) + _u16(v))
        if terminator:
            out.append(b"\xff\xff\x00\x00")
        return b"".join(out)
    if fmt in (8, 10):
        if m:
            lo, hi = m[0][0], m[-1][0]
            vals = [d.get(g, fill(g)) for g in range(lo, hi + 1)]
        else:
            lo, vals = 0, []
        head = _u16(fmt) + (_u16(2) if fmt == 10 else b"") + _u16(lo) + _u16(len(vals))
        return head + b"".join(_u16(v) for v in vals)
    raise ValueError("unsupported AAT lookup format %r" % (fmt,))


_MORX_KINDS = {"rearrangement": 0, "contextual": 1, "ligature": 2, "noncontextual": 4, "insertion": 5}


def _morx_subtable(s, num_glyphs):
    rb = _rawbytes(s)
    if rb is not None:
        return rb
    kind = s.get("kind", "noncontextual")
    kind = _MORX_KINDS.get(kind, kind)
    term = bool(s.get("terminator", False))
    if kind == 4:
        body = _aat_lookup(s.get("map", {}), s.get("format"), lambda g: g, num_glyphs, term)
    else:
        classes = s.get("classes", {})
        cm = _imap(classes.get("map", {}) if isinstance(classes, dict) and "map" in classes else
                   (classes if isinstance(classes, dict) and "format" not in classes else {}))
        ncls = s.get("nclasses")
        if ncls is None:
            ncls = max([4] + [int(v) + 1 for v in cm.values()])
        classtab = _aat_lookup(classes, s.get("class_format"), lambda g: 1, num_glyphs, term)
        rows = []
        for row in s.get("states", []):
            row = list(row)
            if not s.get("raw") and len(row) < ncls:
                row = row + [0] * (ncls - len(row))
            rows.append(b"".join(_u16(e) for e in row))
        states = b"".join(rows)
        ents = []
        for e in s.get("entries", []):
            r = _rawbytes(e)
            if r is not None:
                ents.append(r)
                continue
            x = _u16(e.get("new_state", 0)) + _u16(e.get("flags", 0))
            if kind == 1:
                x += _u16(e.get("mark_index", 0xFFFF)) + _u16(e.get("current_index", 0xFFFF))
            elif kind == 2:
                x += _u16(e.get("action_index", 0))
            elif kind == 5:
                x += _u16(e.get("current_insert_index", 0xFFFF)) + _u16(e.get("marked_insert_index", 0xFFFF))
            ents.append(x)
        entries = b"".join(ents)
        payload = []
        if kind == 1:
            tabs = [_aat_lookup(t, None, lambda g: g, num_glyphs, term) for t in s.get("substitutions", [])]
            off = 4 * len(tabs)
            offs = []
            for t in tabs:
                offs.append(_u32(off))
                off += len(t)
            payload = [b"".join(offs) + b"".join(tabs)]
        elif kind == 2:
            payload = [b"".join(_u32(a) for a in s.get("lig_actions", [])),
                       b"".join(_u16(c) for c in s.get("components", [])),
                       b"".join(_u16(g) for g in s.get("ligatures", []))]
        elif kind == 5:
            payload = [b"".join(_u16(g) for g in s.get("insert_glyphs", []))]
        nextra = len(payload)
        pos = 16 + 4 * nextra
        head = [_u32(ncls), _u32(pos)]
        pos += len(classtab)
        head.append(_u32(pos))
        pos += len(states)
        head.append(_u32(pos))
        pos += len(entries)
        for p in payload:
            head.append(_u32(pos))
            pos += len(p)
        body = b"".join(head) + classtab + states + entries + b"".join(payload)
    cov = s.get("coverage")
    if cov is None:
        cov = (0x80 if s.get("vertical") else 0) | (0x40 if s.get("descending") else 0) | \
              (0x20 if s.get("all_directions") else 0) | (0x10 if s.get("logical") else 0)
    length = s.get("length", 12 + len(body))
    return _u32(length) + bytes([cov & 0xFF, 0, 0, int(kind) & 0xFF]) + _u32(s.get("feature_flags", 1)) + body


def _morx(m, num_glyphs):
    rb = _rawbytes(m)
    if rb is not None:
        return rb
    chains = list(m.get("chains", []))
    out = [_u16(m.get("version", 2)), _u16(0), _u32(m.get("nchains", len(chains)))]
    for c in chains:
        r = _rawbytes(c)
        if r is not None:
            out.append(r)
            continue
        feats = list(c.get("features", []))
        subs = [_morx_subtable(s, num_glyphs) for s in c.get("subtables", [])]
        fb = b"".join(_u16(f.get("type", 0)) + _u16(f.get("setting", 0)) + _u32(f.get("enable", 0)) +
                      _u32(f.get("disable", 0xFFFFFFFF)) for f in feats)
        sb = b"".join(subs)
        length = c.get("length", 16 + len(fb) + len(sb))
        out.append(_u32(c.get("default_flags", 1)) + _u32(length) + _u32(len(feats)) + _u32(len(subs)) + fb + sb)
    return b"".join(out)


def _feat(f):
    rb = _rawbytes(f)
    if rb is not None:
        return rb
    raw = False
    if isinstance(f, dict):
        raw = bool(f.get("raw", False))
        f = f.get("names", [])
    names = list(f)
    if not raw:
        names = sorted(names, key=lambda n: int(n.get("type", 0)) & 0xFFFF)
    head = _u32(0x00010000) + _u16(len(names)) + _u16(0) + _u32(0)
    off = len(head) + 12 * len(names)
    recs, tail = [], []
    for i, n in enumerate(names):
        settings = []
        for j, s in enumerate(n.get("settings", [])):
            if isinstance(s, (list, tuple)):
                settings.append((s[0], s[1]))
            else:
                settings.append((s, 300 + 16 * i + j))
        di = n.get("default_index")
        flags = (0x8000 if n.get("exclusive") else 0) | ((0x4000 | (di & 0xFF)) if di is not None else 0)
        flags = n.get("flags", flags)
        recs.append(_u16(n.get("type", 0)) + _u16(len(settings)) + _u32(off) + _u16(flags) +
                    _u16(n.get("name_index", 256 + i)))
        sb = b"".join(_u16(a) + _u16(b) for a, b in settings)
        tail.append(sb)
        off += len(sb)
    return head + b"".join(recs) + b"".join(tail)


# --------------------------------------------------------------------------------------------------
# cmap

def _cmap_runs(items, same_gid=False):
    """[(cp, gid)] sorted -> [[start, end, startGid]]"""
    runs = []
    for cp, g in items:
        if runs and runs[-1][1] + 1 == cp and \
                (g == runs[-1][2] if same_gid else g - cp == runs[-1][2] - runs[-1][0]):
            runs[-1][1] = cp
        else:
            runs.append([cp, cp, g])
    return runs


def _cmap_subtable(st):
    rb = _rawbytes(st)
    if rb is not None:
        return rb
    fmt = st.get("format", 4)
    lang = st.get("language", 0)
    m = _imap(st.get("map", {}))
    items = sorted((cp, int(g)) for cp, g in m.items())
    if fmt == 0:
        arr = bytearray(256)
        for cp, g in items:
            if 0 <= cp < 256:
                arr[cp] = g & 0xFF
        return _u16(0) + _u16(262) + _u16(lang) + bytes(arr)
    if fmt == 4:
        runs = _cmap_runs([(cp, g) for cp, g in items if 0 <= cp < 0xFFFF])
        segs = [(a, z, (g - a) & 0xFFFF) for a, z, g in runs]
        last = dict(items).get(0xFFFF)
        segs.append((0xFFFF, 0xFFFF, ((last - 0xFFFF) & 0xFFFF) if last is not None else 1))
        n = len(segs)
        es = 0
        while (2 << es) <= n:
            es += 1
        sr = 2 << es
        body = _u16(2 * n) + _u16(sr) + _u16(es) + _u16(2 * n - sr)
        body += b"".join(_u16(s[1]) for s in segs) + _u16(0)
        body += b"".join(_u16(s[0]) for s in segs)
        body += b"".join(_u16(s[2]) for s in segs)
        body += b"".join(_u16(0) for _ in segs)
        return _u16(4) + _u16(6 + len(body)) + _u16(lang) + body
    if fmt == 6:
        items6 = [(cp, g) for cp, g in items if 0 <= cp <= 0xFFFF]
        if items6:
            lo, hi = items6[0][0], items6[-1][0]
            d = dict(items6)
            arr = [d.get(cp, 0) for cp in range(lo, hi + 1)]
        else:
            lo, arr = 0, []
        return _u16(6) + _u16(10 + 2 * len(arr)) + _u16(lang) + _u16(lo) + _u16(len(arr)) + b"".join(_u16(g) for g in arr)
    if fmt in (12, 13):
        runs = _cmap_runs(items, same_gid=(fmt == 13))
        body = b"".join(_u32(a) + _u32(z) + _u32(g) for a, z, g in runs)
        return _u16(fmt) + _u16(0) + _u32(16 + len(body)) + _u32(lang) + _u32(len(runs)) + body
    if fmt == 14:
        by_vs = {}
        for rec in st.get("uvs", []):
            cp, vs, g = int(rec[0]), int(rec[1]), rec[2]
            by_vs.setdefault(vs, ([], []))[0 if g is None else 1].append((cp, g))
        sels = sorted(by_vs)
        head_len = 10 + 11 * len(sels)
        recs, tail, off = [], [], head_len
        for vs in sels:
            dflt, nond = by_vs[vs]
            doff = noff = 0
            if dflt:
                rs = _runs(sorted(cp for cp, _ in dflt))
                # ranges hold startUnicodeValue (u24) + additionalCount (u8)
                chunks = []
                for a, z in rs:
                    while z - a > 255:
                        chunks.append((a, 255))
                        a += 256
                    chunks.append((a, z - a))
                t = _u32(len(chunks)) + b"".join(struct.pack(">I", a & 0xFFFFFF)[1:] + bytes([c]) for a, c in chunks)
                doff = off
                off += len(t)
                tail.append(t)
            if nond:
                nd = sorted(nond)
                t = _u32(len(nd)) + b"".join(struct.pack(">I", cp & 0xFFFFFF)[1:] + _u16(g) for cp, g in nd)
                noff = off
                off += len(t)
                tail.append(t)
            recs.append(struct.pack(">I", vs & 0xFFFFFF)[1:] + _u32(doff) + _u32(noff))
        body = b"".join(recs) + b"".join(tail)
        return _u16(14) + _u32(10 + len(body)) + _u32(len(sels)) + body
    raise ValueError("unsupported cmap format %r (use raw_bytes)" % (fmt,))


def _cmap(recipe):
    subs = recipe.get("cmap_subtables")
    if subs is None:
        cm = recipe.get("cmap")
        rb = _rawbytes(cm)
        if rb is not None:
            return rb
        if cm == "pua":
            cm = pua_cmap(int(recipe["num_glyphs"]))
        if not cm:
            return None
        cm = _imap(cm)
        if all(cp <= 0xFFFF for cp in cm):
            subs = [{"platform": 3, "encoding": 1, "format": 4, "map": cm}]
        else:
            subs = [{"platform": 3, "encoding": 10, "format": 12, "map": cm}]
    b = _Blk("cmap").u16(0).u16(len(subs))
    for st in subs:
        plat = st.get("platform", 3) if isinstance(st, dict) else 3
        enc = st.get("encoding", 1) if isinstance(st, dict) else 1
        sub = st.get("subtable", st) if isinstance(st, dict) else st
        b.u16(plat).u16(enc).off32(_child(sub, _cmap_subtable))
    return b.build()


# --------------------------------------------------------------------------------------------------
# metrics and the sfnt wrapper

def _mtx(advances, bearings, num_glyphs):
    adv = list(advances)
    bearings = list(bearings or [])
    nm = len(adv)
    out = []
    for i, a in enumerate(adv):
        out.append(_u16(a) + _u16(bearings[i] if i < len(bearings) else 0))
    for i in range(nm, num_glyphs):
        out.append(_u16(bearings[i] if i < len(bearings) else 0))
    return nm, b"".join(out)


def _xhea(asc, desc, gap, adv_max, nmetrics, version=0x00010000):
    return (_u32(version) + _u16(asc) + _u16(desc) + _u16(gap) + _u16(adv_max) +
            _u16(0) * 3 + _u16(1) + _u16(0) * 2 + _u16(0) * 4 + _u16(0) + _u16(nmetrics))


def _checksum(data):
    data = data + b"\0" * (-len(data) % 4)
    return sum(struct.unpack(">%dI" % (len(data) // 4), data)) & 0xFFFFFFFF


def _sfnt(tables, version=0x00010000):
    tags = sorted(tables)
    n = len(tags)
    es = 0
    while (2 << es) <= n:
        es += 1
    sr = (1 << es) * 16 if n else 0
    header = _u32(version) + _u16(n) + _u16(sr) + _u16(es) + _u16(max(0, n * 16 - sr))
    pos = 12 + 16 * n
    recs, blobs = [], []
    head_pos = None
    for t in tags:
        data = tables[t]
        if t == b"head":
            head_pos = pos
        recs.append(t + _u32(_checksum(data)) + _u32(pos) + _u32(len(data)))
        pad = -len(data) % 4
        blobs.append(data + b"\0" * pad)
        pos += len(data) + pad
    font = bytearray(header + b"".join(recs) + b"".join(blobs))
    if head_pos is not None and len(tables[b"head"]) >= 12:
        adj = (0xB1B0AFBA - _checksum(bytes(font))) & 0xFFFFFFFF
        font[head_pos + 8:head_pos + 12] = _u32(adj)
    return bytes(font)


def build(recipe):
    """Serialise a recipe (see the module docstring) to sfnt bytes."""
    ng = int(recipe["num_glyphs"])
    upem = recipe.get("upem", 1000)
    tables = {}

    extents = recipe.get("extents")
    loc_format = 1 if extents is not None else 0
    tables[b"head"] = (_u32(0x00010000) + _u32(0x00010000) + _u32(0) + _u32(0x5F0F3CF5) + _u16(0x0003) + _u16(upem) +
                       b"\0" * 16 + _u16(0) * 4 + _u16(0) + _u16(8) + _u16(2) + _u16(loc_format) + _u16(0))

    adv = recipe.get("advances", [500] * ng)
    if adv is not None:
        nm, hmtx = _mtx(adv, recipe.get("lsbs"), ng)
        tables[b"hmtx"] = hmtx
    else:
        nm = 0
    tables[b"hhea"] = _xhea(recipe.get("ascender", 800), recipe.get("descender", -200), recipe.get("line_gap", 0),
                            max([int(a) & 0xFFFF for a in (adv or [])] or [0]), nm)

    if extents is not None:
        ext = _imap(extents)
        glyf, loca = b"", []
        for g in range(ng):
            loca.append(len(glyf))
            if g in ext:
                e = ext[g]
                glyf += _u16(0) + _u16(e[0]) + _u16(e[1]) + _u16(e[2]) + _u16(e[3]) + _u16(0)
        loca.append(len(glyf))
        tables[b"glyf"] = glyf
        tables[b"loca"] = b"".join(_u32(o) for o in loca)
        tables[b"maxp"] = _u32(0x00010000) + _u16(ng) + _u16(0) * 13
    else:
        tables[b"maxp"] = _u32(0x00005000) + _u16(ng)

    vadv = recipe.get("vadvances")
    if vadv is not None:
        nvm, vmtx = _mtx(vadv, recipe.get("tsbs"), ng)
        tables[b"vmtx"] = vmtx
        tables[b"vhea"] = _xhea(recipe.get("vascender", upem // 2), recipe.get("vdescender", -(upem // 2)),
                                recipe.get("vline_gap", 0), max([int(a) & 0xFFFF for a in vadv] or [0]), nvm,
                                version=0x00011000)
    vorg = recipe.get("vorg")
    if vorg is not None:
        rb = _rawbytes(vorg)
        if rb is None:
            recs = [(g, y) for g, y in _imap(vorg.get("glyphs", {})).items()]
            if not vorg.get("raw"):
                recs.sort()
            rb = _u32(0x00010000) + _u16(vorg.get("default", 0)) + _u16(len(recs)) + \
                b"".join(_u16(g) + _u16(y) for g, y in recs)
        tables[b"VORG"] = rb

    cm = _cmap(recipe)
    if cm is not None:
        tables[b"cmap"] = cm
    if recipe.get("post"):
        tables[b"post"] = _u32(0x00030000) + b"\0" * 28
    if recipe.get("gdef") is not None:
        tables[b"GDEF"] = _gdef(recipe["gdef"])
    if recipe.get("gsub") is not None:
        tables[b"GSUB"] = _layout_table(recipe["gsub"], _gsub_subtable)
    if recipe.get("gpos") is not None:
        tables[b"GPOS"] = _layout_table(recipe["gpos"], _gpos_subtable)
    if recipe.get("kern") is not None:
        tables[b"kern"] = _kern(recipe["kern"])
    if recipe.get("morx") is not None:
        tables[b"morx"] = _morx(recipe["morx"], ng)
    if recipe.get("feat") is not None:
        tables[b"feat"] = _feat(recipe["feat"])
    for t, data in (recipe.get("tables") or {}).items():
        tables[_tag(t)] = data if isinstance(data, (bytes, bytearray)) else bytes.fromhex(data)
    return _sfnt(tables, recipe.get("sfnt_version", 0x00010000))


def hexfont(recipe):
    return build(recipe).hex()


if __name__ == "__main__":
    import json
    if len(sys.argv) < 2:
        print("usage: fontbuild.py recipe.json [out.ttf]   (without out.ttf: prints hex)")
        sys.exit(2)
    rec = json.load(open(sys.argv[1]))
    data = build(rec)
    if len(sys.argv) > 2:
        open(sys.argv[2], "wb").write(data)
    else:
        print(data.hex())
