"""Texts for the C01 stream `mark-run-lengths`: runs of k combining marks around every length at which some stage of the
pipeline changes its behaviour (the normalizer's MAX_COMBINING_MARKS cap, 64 / 128 / 256, a long run) under EVERY shaper.

Nothing about which script goes to which shaper, which characters are marks of which class, or which marks a shaper treats
specially is written down here:
  * `dispatch(shim)` asks the compiled crate (`segprops`, `scripttags`, `shaper` requests — the same ones tools/syllabic.py
    uses) for the shaper of every (script, chosen GSUB script tag | none) and keeps, per shaper, a few scripts;
  * the modified combining class of every mark is asked from the crate (`norm props`);
  * `source_marks(name)` parses the literal code-point lists of the shaper's own source file(s) (`const X: &[u32] = &[0x.., ..]`,
    `&[char] = &['\\u{..}', ..]`): the marks a shaper names explicitly (Arabic MODIFIER_COMBINING_MARKS, Hebrew dagesh forms,
    …) get runs of their own, next to the marks of the script.
"""
import glob, os, re, struct, unicodedata
import vlib, fontbuild

LENGTHS = [1, 2, 31, 32, 33, 34, 63, 64, 65, 127, 128, 129, 255, 256, 257, 1000]
SPACE, DOTTED = 0x20, 0x25CC
# well-known scripts are preferred as the representative of a shaper (only an ORDER: the shaper of each is asked from the crate)
PREFER = ["Latn", "Arab", "Syrc", "Hebr", "Thai", "Hang", "Deva", "Beng", "Khmr", "Mymr", "Tibt", "Mong", "Nkoo", "Adlm", "Java"]


def tagnum(s):
    return struct.unpack(">I", s.encode("latin-1"))[0]


def _cat(c):
    return unicodedata.category(chr(c))


_dispatch = {}


def dispatch(shim, per_shaper=2):
    """{shaper name: [(script iso tag, GSUB script tag | None, [code points of the script])]} — at most `per_shaper` scripts each"""
    if shim in _dispatch:
        return _dispatch[shim]
    cps = [c for c in range(0x20, 0x20000) if not (0xD800 <= c <= 0xDFFF)]
    outs = vlib.run_lines(shim, [f"segprops - - {c:x}" for c in cps])
    by = {}
    for c, o in zip(cps, outs):
        t = o.split()
        if len(t) == 2 and t[1] != "-" and len(t[1]) == 4:
            by.setdefault(t[1], []).append(c)
    names = sorted(by, key=lambda s: (PREFER.index(s) if s in PREFER else len(PREFER), s))
    tg = vlib.run_lines(shim, [f"scripttags {tagnum(s)}" for s in names], nproc=1)
    q, idx = [], []
    # first every script on a font without a matching GSUB script, then with each of its OpenType script tags
    for s in names:
        q.append(f"shaper {tagnum(s)} 0 -"); idx.append((s, None))
    for s, o in zip(names, tg):
        tags = [int(x) for x in o.split(",")] if o not in ("-", "") and not o.startswith("panic") else []
        for t in tags:
            q.append(f"shaper {tagnum(s)} 0 {t}"); idx.append((s, t))
    sh = vlib.run_lines(shim, q, nproc=1)
    res = {}
    for (s, t), name in zip(idx, sh):
        if not name or name.startswith("panic") or " " in name:
            continue
        ent = res.setdefault(name, [])
        # (the hook names a record by a few of its fields: Hebrew's record is reported as `default`; the well-known scripts
        # are therefore all kept, whatever the number of scripts their shaper already has)
        if (len(ent) < per_shaper or (t is None and s in PREFER)) and all(e[0] != s for e in ent):
            ent.append((s, struct.pack(">I", t).decode("latin-1") if t is not None else None, by[s]))
    _dispatch[shim] = res
    return res


def source_files(name):
    d = os.path.join(vlib.REPO, "src", "hb")
    stem = {"zawgyi": "myanmar", "dumber": None, "default": None}.get(name, name)
    if stem is None:
        return []
    return sorted(p for p in glob.glob(os.path.join(d, f"ot_shaper_{stem}*.rs")) if not p.endswith("_machine.rs"))


_LIST = re.compile(r"(?:const|static)\s+([A-Z][A-Z0-9_]*)\s*:\s*&?\[\s*(?:u32|char|u16)\s*(?:;\s*\w+\s*)?\]\s*=\s*&?\[(.*?)\]\s*;", re.S)


def source_marks(name):
    """{constant name: [marks]} — literal code-point lists of the shaper's source that contain combining marks"""
    out = {}
    for p in source_files(name):
        src = re.sub(r"//[^\n]*", "", open(p, encoding="utf-8", errors="replace").read())
        for m in _LIST.finditer(src):
            cps = [int(a or b, 16) for a, b in re.findall(r"0x([0-9A-Fa-f]{3,6})\b|\\u\{([0-9A-Fa-f]{3,6})\}", m.group(2))]
            marks = [c for c in cps if c < 0x110000 and _cat(c) in ("Mn", "Mc", "Me")]
            if marks:
                out[m.group(1)] = marks
    return out


def classes(shim, marks):
    """crate's modified combining class of each mark: {mcc: [marks]} for mcc != 0"""
    outs = vlib.run_lines(shim, [f"norm props {c}" for c in marks], nproc=1)
    by = {}
    for c, o in zip(marks, outs):
        t = o.split()
        if len(t) == 6 and t[0] == "1" and t[2] != "0":
            by.setdefault(int(t[2]), []).append(c)
    return by


def cache_dir():
    d = os.path.join(vlib.HARN, "target", "c01fonts", "markruns")
    os.makedirs(d, exist_ok=True)
    return d


def gen_font(name, cps, tag):
    """cmap + hmtx over `cps`; with `tag` a GSUB whose only script record is `tag` and one inert lookup (the syllabic shapers
    are selected by the chosen GSUB script)"""
    allc = []
    for c in cps:
        if c not in allc:
            allc.append(c)
    cmap = {cp: i + 1 for i, cp in enumerate(allc)}
    n = len(allc) + 1
    rec = {"num_glyphs": n + 1, "cmap": cmap, "advances": [600] + [0 if _cat(c) in ("Mn", "Me") else 600 for c in allc] + [600]}
    if tag is not None:
        rec["gsub"] = {"scripts": [{"tag": tag, "default": {"required": None, "features": [0]}, "langs": []}],
                       "features": [{"tag": "ccmp", "lookups": [0]}],
                       "lookups": [{"type": 1, "flag": 0, "subtables": [{"format": 1, "coverage": [n], "delta": 0}]}]}
    data = fontbuild.build(rec)
    p = os.path.join(cache_dir(), name + ".ttf")
    if not os.path.exists(p) or open(p, "rb").read() != data:
        open(p, "wb").write(data)
    return p


def corpus_font(own, cps):
    """smallest corpus font one of whose fixture texts has a character of the script"""
    s = set(cps)
    best = None
    for f, texts in sorted(own.items()):
        if any(any(c in s for c in t) for _, t in texts):
            sz = os.path.getsize(f)
            if sz <= 600_000 and (best is None or sz < best[0]):
                best = (sz, f, next(i for i, t in texts if any(c in s for c in t)))
    return (best[1], best[2]) if best else None


def run_shapes(by_class, listed):
    """[(label, generator k -> [marks])] for one script: per class `same` (one mark repeated; up to 2 marks a source list names
    and up to 2 others), `cycle` (different marks of the class: the listed ones, all of them), `alt` (the class alternating with
    another one: 230 <-> 220 where present, else the next class); once `desc` (all classes, descending, cycled) and `asc`"""
    out = []
    cls = sorted(by_class)
    for cc in cls:
        ms = by_class[cc]
        named = [m for m in ms if m in listed]
        other = [m for m in ms if m not in listed]
        for m in named[:2] + other[:2]:
            out.append((f"same:{cc}:{m:04X}", lambda k, m=m: [(m, k)]))
        for lab, pool in (("cycle-listed", named[:6]), ("cycle", (named[:3] + other[:3]))):
            if len(pool) >= 2 and not (lab == "cycle" and not other):
                out.append((f"{lab}:{cc}", lambda k, pool=pool: [pool[i % len(pool)] for i in range(k)]))
        partner = 220 if cc == 230 and 220 in by_class else 230 if cc != 230 and 230 in by_class else next((x for x in cls if x != cc), None)
        if partner is not None:
            a = (named or other)[0]
            pm = by_class[partner]
            b = next((m for m in pm if m in listed), pm[0])
            out.append((f"alt:{cc}/{partner}", lambda k, a=a, b=b: [(a, b)[i % 2] for i in range(k)]))
            # two blocks: half the run of one class, then the other (a long run of ONE class inside a longer run)
            out.append((f"blocks:{partner}+{cc}", lambda k, a=a, b=b: [(b, k // 2), (a, k - k // 2)] if k >= 2 else [(a, k)]))
    if len(cls) >= 2:
        firsts = [next((m for m in by_class[c] if m in listed), by_class[c][0]) for c in cls]
        out.append(("desc", lambda k, f=firsts[::-1]: [f[i % len(f)] for i in range(k)]))
        out.append(("asc", lambda k, f=firsts: [f[i % len(f)] for i in range(k)]))
    return out


POSITIONS = ["after-base", "text-start", "after-space", "between-bases"]


def place(pos, base, run):
    if pos == "after-base": return [base] + run
    if pos == "text-start": return run
    if pos == "after-space": return [base, SPACE] + run
    return [base] + run + [base]


def lines(shim, r, own, rle, spec, full, stat):
    """c01 request lines.  full = False (quick tier): every (shaper, script, shape, length) with the position / font / flags /
    direction / cluster level taken in rotation; full = True: the whole product of shape x length x position x font x flags."""
    table = dispatch(shim)
    L = []
    stat.update({"shapers": {}, "lengths": LENGTHS, "source_lists": {}, "lines": 0})
    rot = r.below(1 << 20)
    for name in sorted(table):
        listed_by = source_marks(name)
        listed = [m for ms in listed_by.values() for m in ms]
        if listed_by:
            stat["source_lists"][name] = {k: len(v) for k, v in listed_by.items()}
        for iso, tag, cps in table[name]:
            known = [c for c in cps if _cat(c) != "Cn"]
            letters = [c for c in known if _cat(c) in ("Lo", "Ll", "Lu", "Lm")]
            base = letters[0] if letters else (known[0] if known else 0x61)
            marks = [c for c in known if _cat(c) in ("Mn", "Mc", "Me")]
            cand = []
            for c in listed + marks + [0x301, 0x323, 0x327, 0x345]:
                if c not in cand:
                    cand.append(c)
            by_class = classes(shim, cand)
            if not by_class:
                continue
            shapes = run_shapes(by_class, set(listed))
            used = [base, SPACE, DOTTED] + [m for ms in by_class.values() for m in ms]
            fonts = [(gen_font(f"mr-{name}-{iso}", used, tag), 0)]
            cf = corpus_font(own, cps)
            if cf:
                fonts.append(cf)
            n0 = len(L)
            for si, (label, gen) in enumerate(shapes):
                for ki, k in enumerate(LENGTHS):
                    combos = ([(p, f, fl) for p in POSITIONS for f in fonts for fl in (0, 3)] if full else
                              [(POSITIONS[(rot + si + ki + j) % 4], fonts[(rot + si + ki // 4 + j) % len(fonts)], (0, 3)[(rot + ki + j) % 2])
                               for j in range(2)])
                    for j, (pos, (fp, fidx), fl) in enumerate(combos):
                        d = ("-", "l", "r", "t")[(rot + si + ki + j) % 4]
                        lvl = (rot + si + j) % 3
                        L.append(f"c01 {spec(fp, fidx)} {d} {iso} - {fl} {lvl} - - - {rle(place(pos, base, gen(k)))} ser=1")
            stat["shapers"].setdefault(name, {})[iso] = {"gsub_script": tag, "classes": sorted(by_class), "shapes": len(shapes),
                                                       "fonts": len(fonts), "lines": len(L) - n0}
    stat["lines"] = len(L)
    return L
