#!/usr/bin/env python3
"""seedprep.py <seed-name> <property-id> [extra constraint text]  — scratch worktree /tmp/seed/<name>/repo + blind prompt /tmp/seed/prompt_<name>.md"""
import json, os, subprocess, sys
name, pid = sys.argv[1], sys.argv[2]
extra = sys.argv[3] if len(sys.argv) > 3 else ""
S = f"/tmp/seed/{name}"
os.makedirs(f"{S}/out", exist_ok=True)
subprocess.check_call(["git", "-C", "/repo", "worktree", "add", "--detach", f"{S}/repo", "HEAD"], stdout=subprocess.DEVNULL, stderr=subprocess.DEVNULL)
p = [json.loads(l) for l in open("/verif/properties.jsonl") if l.strip()]
p = [x for x in p if x["id"] == pid][0]
prompt = f"""You are testing how robust a text-shaping library's correctness checks are. You work ONLY in your own scratch git worktree of the library
(rustybuzz, a Rust port of HarfBuzz): {S}/repo   (a git worktree; build with `cargo build --offline`, test with `cargo test --workspace --offline`; no network).
Do not look at or touch any directory outside {S}/repo and {S}/out (in particular nothing under /verif or /repo).

THE PROPERTY that the library is supposed to satisfy:
  Title: {p['title']}
  Statement: {p['statement']}
  Quantified over: {p['quantifier']['text']}

YOUR TASK: make ONE small, realistic source change to the library (the kind of slip a maintainer could make in a refactoring or a "harmless" optimisation:
an off-by-one, a swapped operand, a dropped update, a wrong constant or table entry, a reordered step, a missing case, two sites that each look fine alone)
that BREAKS this property, while
  (1) the crate still compiles and the entire existing test-suite still passes (`cargo test --workspace --offline`: 2315 tests, 0 failures — verify this!), and
  (2) the breakage needs something specific to manifest — a particular unusual input, font feature, flag combination, buffer history, multi-step sequence or
      interaction — NOT something that ordinary use or the first random input would expose at once.
Then write a DEMONSTRATION: a small Rust test or example program using only the crate's PUBLIC API (put it at {S}/repo/tests/seed_demo.rs or examples/seed_demo.rs,
fonts from tests/fonts/ may be used; or a font built byte-by-byte in the demo) that FAILS (or shows the wrong result) with your change and PASSES without it.
Confirm both: run it with the change, then take the change out (`git diff -- src > ../out/p.diff && git apply -R ../out/p.diff`), run again, put it back (`git apply ../out/p.diff`). Do NOT use `git stash`: the stash is shared between worktrees and other people work in sibling worktrees.
Do not modify anything inside `#[cfg(rb_verif)]` blocks or `verif_hooks` modules (that is unrelated instrumentation) and do not edit existing tests or fonts.

DELIVER into {S}/out/ :
  patch.diff   = `git -C {S}/repo diff -- src` (only the source change, not the demo)
  the demo file(s) (name it seed_demo.rs)
  notes.md     = what you changed and why it breaks the property, exactly what is needed for it to manifest, the commands you ran and their outcome (test-suite
                 totals with the change; demo result with and without the change).
Your final message: a short summary of notes.md.
{('Extra constraint for you: ' + extra) if extra else ''}
"""
open(f"/tmp/seed/prompt_{name}.md", "w").write(prompt)
print(f"/tmp/seed/prompt_{name}.md")
