"""Random GSUB/GDEF font recipes (fontbuild format), their flattening to the token form the Lean driver
reads (`gsub … FONT <numbers>`), and buffer states for the lookup-interpreter streams."""
import fontbuild, bufgen

FEATURE_TAGS = ["ccmp", "liga", "calt", "rlig", "locl", "ss01", "ss02", "aalt", "salt", "dlig"]


def tag_hex(t):
    return "".join(f"{ord(c):02x}" for c in t)


# ------------------------------------------------------------------------------------------------
# recipe generation (well-formed tables: the property quantifies over well-formed GSUB/GDEF)


def rand_cov(r, n, kmin=1, kmax=5, must=None):
    k = r.range(kmin, min(kmax, n - 1))
    gs = set(r.sample(list(range(1, n)), k))
    if must is not None:
        gs.add(must)
    return sorted(gs)


def rand_gid(r, n):
    return r.range(1, n - 1)


def rand_recs(r, ninput, nlookups, self_idx):
    recs = []
    for _ in range(r.below(3)):
        # nested lookups may point anywhere (also at contextual ones, also at themselves: the nesting and
        # operation budgets must stop that), sequence indices sometimes out of range
        recs.append((r.below(ninput + 1 + (1 if r.chance(1, 8) else 0)), r.below(nlookups)))
    return recs


def rand_subtable(r, ltype, n, nlookups, self_idx, classdefs):
    if ltype == 1:
        cov = rand_cov(r, n)
        if r.chance(1, 2):
            return {"format": 1, "coverage": cov, "delta": r.choice([1, 2, -1, n - 1, 65535 - 3, 3])}
        return {"format": 2, "coverage": cov, "subst": [rand_gid(r, n) for _ in cov]}
    if ltype == 2:
        cov = rand_cov(r, n)
        return {"coverage": cov, "sequences": [[rand_gid(r, n) for _ in range(r.choice([0, 1, 2, 2, 3]))] for _ in cov]}
    if ltype == 3:
        cov = rand_cov(r, n)
        return {"coverage": cov, "alternates": [[rand_gid(r, n) for _ in range(r.range(0, 3))] for _ in cov]}
    if ltype == 4:
        cov = rand_cov(r, n, 1, 3)
        sets = []
        for _ in cov:
            sets.append([{"components": [rand_gid(r, n) for _ in range(r.choice([0, 1, 1, 2, 3]))],
                          "glyph": rand_gid(r, n)} for _ in range(r.range(1, 3))])
        return {"coverage": cov, "ligsets": sets}
    if ltype == 5:
        f = r.range(1, 3)
        if f == 1:
            cov = rand_cov(r, n, 1, 3)
            sets = []
            for _ in cov:
                rules = []
                for _ in range(r.range(1, 2)):
                    inp = [rand_gid(r, n) for _ in range(r.range(0, 2))]
                    rules.append({"input": inp, "lookups": rand_recs(r, len(inp), nlookups, self_idx)})
                sets.append(rules)
            return {"format": 1, "coverage": cov, "rulesets": sets}
        if f == 2:
            cd = r.choice(classdefs)
            ncls = max(cd.values(), default=0) + 1
            cov = rand_cov(r, n, 2, 6)
            sets = []
            for _ in range(ncls):
                if r.chance(1, 4):
                    sets.append(None); continue
                rules = []
                for _ in range(r.range(1, 2)):
                    inp = [r.below(ncls) for _ in range(r.range(0, 2))]
                    rules.append({"input": inp, "lookups": rand_recs(r, len(inp), nlookups, self_idx)})
                sets.append(rules)
            return {"format": 2, "coverage": cov, "classdef": dict(cd), "classsets": sets}
        covs = [rand_cov(r, n, 1, 5) for _ in range(r.range(1, 3))]
        return {"format": 3, "coverages": covs, "lookups": rand_recs(r, len(covs) - 1, nlookups, self_idx)}
    if ltype == 6:
        f = r.range(1, 3)
        if f == 1:
            cov = rand_cov(r, n, 1, 3)
            sets = []
            for _ in cov:
                rules = []
                for _ in range(r.range(1, 2)):
                    inp = [rand_gid(r, n) for _ in range(r.range(0, 2))]
                    rules.append({"backtrack": [rand_gid(r, n) for _ in range(r.range(0, 2))], "input": inp,
                                  "lookahead": [rand_gid(r, n) for _ in range(r.range(0, 2))],
                                  "lookups": rand_recs(r, len(inp), nlookups, self_idx)})
                sets.append(rules)
            return {"format": 1, "coverage": cov, "rulesets": sets}
        if f == 2:
            bc, ic, lc = (r.choice(classdefs) for _ in range(3))
            ncls = max(ic.values(), default=0) + 1
            cov = rand_cov(r, n, 2, 6)
            sets = []
            for _ in range(ncls):
                if r.chance(1, 4):
                    sets.append(None); continue
                rules = []
                for _ in range(r.range(1, 2)):
                    inp = [r.below(ncls) for _ in range(r.range(0, 2))]
                    rules.append({"backtrack": [r.below(max(bc.values(), default=0) + 1) for _ in range(r.range(0, 2))],
                                  "input": inp,
                                  "lookahead": [r.below(max(lc.values(), default=0) + 1) for _ in range(r.range(0, 2))],
                                  "lookups": rand_recs(r, len(inp), nlookups, self_idx)})
                sets.append(rules)
            return {"format": 2, "coverage": cov, "backtrack_classdef": dict(bc), "input_classdef": dict(ic),
                    "lookahead_classdef": dict(lc), "classsets": sets}
        inp = [rand_cov(r, n, 1, 5) for _ in range(r.range(1, 3))]
        return {"format": 3, "backtrack": [rand_cov(r, n, 1, 6) for _ in range(r.range(0, 2))], "coverages": inp,
                "lookahead": [rand_cov(r, n, 1, 6) for _ in range(r.range(0, 2))],
                "lookups": rand_recs(r, len(inp) - 1, nlookups, self_idx)}
    if ltype == 8:
        cov = rand_cov(r, n)
        return {"coverage": cov, "backtrack": [rand_cov(r, n, 1, 6) for _ in range(r.range(0, 2))],
                "lookahead": [rand_cov(r, n, 1, 6) for _ in range(r.range(0, 2))],
                "subst": [rand_gid(r, n) for _ in cov]}
    raise ValueError(ltype)


def rand_recipe(r, types=(1, 2, 3, 4, 5, 6, 8), max_lookups=5, with_gdef=None, flags=True, expansion=None):
    """`expansion=(num, den)`: that share of the recipes comes from the expansion profile (`expansion_recipe`)."""
    if expansion is not None and r.chance(*expansion):
        return expansion_recipe(r)
    n = r.range(8, 20)
    rec = {"num_glyphs": n, "cmap": "pua", "advances": [500 + 10 * g for g in range(n)]}
    with_gdef = r.chance(2, 3) if with_gdef is None else with_gdef
    nsets = 0
    # mark-heavy profile: half of the glyphs are marks, every mark has an attachment class, there are mark filtering
    # sets, and lookups combine attachment-type and filtering-set flags (the interplay of the skipping rules)
    heavy = bool(with_gdef and flags and r.chance(1, 4))
    if with_gdef:
        classes = {}
        for g in range(1, n):
            k = r.below(6)
            if heavy:
                classes[g] = 3 if k < 3 else (1 if k < 5 else 2)
            elif k < 3: classes[g] = 1
            elif k == 3: classes[g] = 2
            elif k == 4: classes[g] = 3
        marks = [g for g, c in classes.items() if c == 3]
        gd = {"classes": classes}
        if marks and (heavy or r.chance(1, 2)):
            gd["mark_attach"] = {g: r.range(1, 3 if heavy else 2) for g in marks if heavy or r.chance(2, 3)}
        if marks and (heavy or r.chance(1, 2)):
            gd["mark_sets"] = [sorted(set(r.sample(marks, r.range(1, len(marks))))) for _ in range(r.range(1, 2))]
            nsets = len(gd["mark_sets"])
        if r.chance(1, 6) and not heavy:
            gd = {"classes": {}}      # GDEF present but no glyph classes
        rec["gdef"] = gd
    classdefs = [{g: r.range(1, 2) for g in range(1, n) if r.chance(1, 2)} for _ in range(2)] + [{}]
    nl = r.range(1, max_lookups)
    lookups = []
    for li in range(nl):
        t = r.choice(list(types))
        flag = 0
        mark_set = None
        if heavy and r.chance(3, 4):
            flag = r.choice([0x100, 0x200, 0x300, 0x100 | 2, 0x200 | 4, 0, 0, 8])
            if nsets and r.chance(1, 2):
                mark_set = r.below(nsets)
        elif flags and r.chance(1, 2):
            flag = r.choice([2, 4, 8, 6, 0x100, 0x200, 8 | 2, 0])
            if nsets and r.chance(1, 3):
                mark_set = r.below(nsets)
        lk = {"type": t, "flag": flag, "subtables": [rand_subtable(r, t, n, nl, li, classdefs) for _ in range(r.range(1, 2))]}
        if mark_set is not None:
            lk["mark_set"] = mark_set
        lookups.append(lk)
    tags = r.sample(FEATURE_TAGS, r.range(1, min(4, len(FEATURE_TAGS))))
    feats = []
    pool = list(range(nl))
    for t in tags:
        feats.append({"tag": t, "lookups": sorted(set(r.sample(pool, r.range(1, nl))))})
    rec["gsub"] = {"features": feats, "lookups": lookups}
    return rec


# ------------------------------------------------------------------------------------------------
# "expansion" profile: contextual and chained rules (all three formats) whose sequence-lookup records CHANGE THE LENGTH of
# the matched sequence while later records of the same rule still address it.  OpenType: the sequenceIndex of a record
# refers to the glyph sequence as the earlier records left it, so after a 1 -> k multiple substitution the k-1 added glyphs
# are positions of their own and the original glyphs behind them have moved up by k-1.  The generator keeps a symbolic copy
# of the matched sequence while it writes the records of a rule, so that later records can be aimed at every place of the
# grown sequence: the first / middle / LAST added glyph, the shifted originals, one past the end.  Every nested lookup that
# follows a growth covers all glyphs of the sequence as it then stands and gives each a target of its own (fresh glyph ids),
# so the output tells which position a record really hit.  Record orders: grow-mark, grow-mark-mark, grow-grow-mark (the
# second growth may start from an added glyph), mark-grow-mark, and — outside the specification's domain, for the
# interpreter model only — delete / ligate before or after a growth.

EXP_MAIN_TAGS = ["ccmp", "liga", "calt", "rlig", "locl"]           # on by default in the default shaper
EXP_ORDERS = ["GS", "GS", "GSS", "GGS", "GSGS", "SGS", "GSSS"]
EXP_ORDERS_SHRINK = ["DGS", "GDS", "LGS", "GLS", "GSDS", "GSLS"]


def expansion_recipe(r, shrink=None, alternates=True):
    nb = r.range(4, 6)
    base = list(range(1, nb + 1))
    nxt = [nb + 1]

    def fresh():
        nxt[0] += 1
        return nxt[0] - 1

    shrink = r.chance(1, 3) if shrink is None else shrink
    nmain = r.range(1, 2)
    helpers = []                         # nested lookups; index in the lookup list = nmain + position here
    seqs = []

    def add_helper(lk):
        helpers.append(lk)
        return nmain + len(helpers) - 1

    def grow(cur, i):
        """a multiple substitution 1 -> 3..5 (sometimes 2) for cur[i] and a few other glyphs; returns (lookup index, sequence)"""
        srcs = sorted(set([cur[i]] + r.sample(base, r.range(0, 2)) + r.sample(cur, r.range(0, min(2, len(cur))))))
        seqmap = {g: [fresh() for _ in range(r.choice([3, 3, 3, 4, 4, 5, 2]))] for g in srcs}
        li = add_helper({"type": 2, "flag": 0, "subtables": [{"coverage": srcs, "sequences": [seqmap[g] for g in srcs]}]})
        return li, seqmap[cur[i]]

    def marker(cur):
        """a single / alternate / 1->1 or 1->2 multiple substitution covering EVERY glyph of the current sequence (and the
        other base glyphs), each with targets of its own; returns (lookup index, {glyph: [targets]})"""
        srcs = sorted(set(cur) | set(r.sample(base, r.range(0, len(base)))))
        kind = r.choice(["single2", "single2", "single1", "alt", "multi"])
        if kind == "alt" and not alternates:
            kind = "single2"
        if kind == "single1":
            delta = nxt[0] - srcs[0]
            tm = {g: [g + delta] for g in srcs}
            nxt[0] = srcs[-1] + delta + 1
            st, t = {"format": 1, "coverage": srcs, "delta": delta}, 1
        elif kind == "single2":
            tm = {g: [fresh()] for g in srcs}
            st, t = {"format": 2, "coverage": srcs, "subst": [tm[g][0] for g in srcs]}, 1
        elif kind == "alt":
            alts = {g: [fresh() for _ in range(r.range(1, 3))] for g in srcs}
            tm = {g: [alts[g][0]] for g in srcs}                  # feature value 1 selects the first alternate
            st, t = {"coverage": srcs, "alternates": [alts[g] for g in srcs]}, 3
        else:
            tm = {g: [fresh() for _ in range(r.choice([1, 1, 2]))] for g in srcs}
            st, t = {"coverage": srcs, "sequences": [tm[g] for g in srcs]}, 2
        return add_helper({"type": t, "flag": 0, "subtables": [st]}), tm

    def records(inp):
        cur = list(inp)
        recs = []
        added = []                        # positions of the glyphs the last growth added
        order = r.choice(EXP_ORDERS_SHRINK if shrink and r.chance(2, 3) else EXP_ORDERS)
        for step in order:
            if step == "G":
                cands = list(range(len(cur)))
                i = r.choice(added) if added and r.chance(1, 3) else r.choice(cands)
                li, seq = grow(cur, i)
                recs.append((i, li))
                cur[i:i + 1] = seq
                added = list(range(i + 1, i + len(seq)))
            elif step == "S":
                li, tm = marker(cur)
                k = r.below(10)
                if added and k < 5:
                    # one of the added glyphs, the later ones (second, ..., LAST) preferred
                    i = added[-1] if k < 2 else r.choice(added[1:] or added)
                elif added and k < 7 and added[-1] + 1 < len(cur):
                    i = r.range(added[-1] + 1, len(cur) - 1)      # an original glyph behind the growth (moved up)
                elif k == 9:
                    i = len(cur) + r.below(2)                      # one / two past the end: ignored
                else:
                    i = r.below(len(cur))
                recs.append((i, li))
                if i < len(cur):
                    t = tm[cur[i]]
                    cur[i:i + 1] = t
                    if len(t) > 1:
                        added = list(range(i + 1, i + len(t)))
            elif step == "D" and len(cur) >= 2:
                i = r.below(len(cur))
                recs.append((i, add_helper({"type": 2, "flag": 0, "subtables": [{"coverage": [cur[i]], "sequences": [[]]}]})))
                del cur[i]
                added = [p - 1 if p > i else p for p in added if p != i]
            elif step == "L" and len(cur) >= 2:
                i = r.below(len(cur) - 1)
                lig = fresh()
                recs.append((i, add_helper({"type": 4, "flag": 0, "subtables": [
                    {"coverage": [cur[i]], "ligsets": [[{"components": [cur[i + 1]], "glyph": lig}]]}]})))
                cur[i:i + 2] = [lig]
                added = [p - 1 if p > i + 1 else p for p in added if p != i + 1]
            if helpers and r.chance(1, 12):
                recs.append((r.below(len(cur) + 1), nmain + r.below(len(helpers))))     # any helper, anywhere
        return recs

    def cov_with(g):
        return sorted(set([g] + r.sample(base, r.range(0, 2))))

    def subtable(chain):
        inp = [r.choice(base) for _ in range(r.choice([1, 2, 2, 3, 3]))]
        bt = [r.choice(base) for _ in range(r.choice([0, 0, 1, 2]))] if chain else []
        la = [r.choice(base) for _ in range(r.choice([0, 0, 1, 2]))] if chain else []
        seqs.append(list(reversed(bt)) + inp + la)
        recs = records(inp)
        f = r.range(1, 3)
        if f == 1:
            ru = {"input": inp[1:], "lookups": recs}
            if chain:
                ru["backtrack"], ru["lookahead"] = bt, la
            return {"format": 1, "coverage": [inp[0]], "rulesets": [[ru]]}
        if f == 2:
            cds = [{g: r.range(1, 3) for g in base if r.chance(3, 4)} for _ in range(3)]
            icd = cds[0]
            ncls = max(icd.values(), default=0) + 1
            ru = {"input": [icd.get(g, 0) for g in inp[1:]], "lookups": recs}
            sets = [None] * ncls
            sets[icd.get(inp[0], 0)] = [ru]
            if not chain:
                return {"format": 2, "coverage": cov_with(inp[0]), "classdef": icd, "classsets": sets}
            bcd, lcd = r.choice(cds), r.choice(cds)
            ru["backtrack"] = [bcd.get(g, 0) for g in bt]
            ru["lookahead"] = [lcd.get(g, 0) for g in la]
            return {"format": 2, "coverage": cov_with(inp[0]), "backtrack_classdef": bcd, "input_classdef": icd,
                    "lookahead_classdef": lcd, "classsets": sets}
        st = {"format": 3, "coverages": [cov_with(g) for g in inp], "lookups": recs}
        if chain:
            st["backtrack"] = [cov_with(g) for g in bt]
            st["lookahead"] = [cov_with(g) for g in la]
        return st

    mains = []
    for _ in range(nmain):
        chain = r.chance(1, 2)
        mains.append({"type": 6 if chain else 5, "flag": 0, "subtables": [subtable(chain) for _ in range(r.range(1, 2))]})
    n = nxt[0] + 1
    rec = {"num_glyphs": n, "cmap": "pua", "advances": [500 + (g % 50) for g in range(n)], "seqs": seqs, "text_glyphs": base,
           "profile": "expansion"}
    if r.chance(1, 3):
        # GDEF: a base glyph or two and some of the produced glyphs are marks; the contextual lookups may ignore marks (the
        # added glyphs are positions of the sequence whether or not the lookup would have skipped them)
        marks = set(r.sample(base, r.range(0, 2))) | {g for g in range(nb + 1, n) if r.chance(1, 5)}
        rec["gdef"] = {"classes": {g: (3 if g in marks else r.choice([1, 1, 2])) for g in range(1, n) if g in marks or r.chance(5, 6)}}
        for lk in mains:
            if r.chance(1, 2):
                lk["flag"] = 8
    tags = r.sample(EXP_MAIN_TAGS, nmain) if r.chance(2, 3) else [r.choice(EXP_MAIN_TAGS)]
    feats = [{"tag": t, "lookups": [i for i in range(nmain) if len(tags) == 1 or i == k]} for k, t in enumerate(tags)]
    extra = [i for i in range(nmain, nmain + len(helpers)) if r.chance(1, 8)]
    if extra:
        feats.append({"tag": r.choice(["ss01", "ss02", "salt"]), "lookups": extra})     # some helpers also run on their own
    rec["gsub"] = {"features": feats, "lookups": mains + helpers}
    return rec


# ------------------------------------------------------------------------------------------------
# "chain" profile: lookups that FEED each other.  Uniformly random coverages almost never line up across lookups, so a
# glyph produced by one lookup is rarely the input of the next; here every stage draws its inputs from sample words as the
# earlier stages left them (the generator rewrites the words as it goes — a guide for the generator, not an oracle):
#   ligature      over adjacent glyphs of the current words (so also ligatures OF ligatures and of multiplied glyphs),
#   multiple      1 -> 2..4 / 1 -> 1 / 1 -> 0 (deletion) of glyphs of the current words, ligature outputs preferred (a
#                 ligature glyph expanded again keeps its ligature id; every output is a "ligature base" of that id),
#                 the source glyph itself may be among its outputs,
#   single        1 -> 1 renaming,
#   context       a chained format-3 rule over a current word that calls one of the earlier lookups.
# The recipe records the text words (`seqs`), the words after the last stage (`final_words`) and the adjacent glyph pairs
# of those (`final_pairs`): a positioning table generated next to it can aim at glyphs and pairs that really occur.

CHAIN_TAGS = ["ccmp", "liga", "calt", "rlig", "locl", "clig", "rclt"]      # on by default in the default shaper
CHAIN_KINDS = ["lig", "lig", "lig", "mult", "mult", "mult", "single", "ctx"]


def chain_recipe(r, gdef=None):
    nb = r.range(4, 7)
    base = list(range(1, nb + 1))
    nxt = [nb + 1]

    def fresh():
        nxt[0] += 1
        return nxt[0] - 1

    words = [[r.choice(base) for _ in range(r.range(2, 5))] for _ in range(r.range(3, 6))]
    seqs = [list(w) for w in words]
    ligs, mults = set(), set()
    lookups = []

    def rewrite(fn):
        for k, w in enumerate(words):
            out, i = [], 0
            while i < len(w):
                rep, used = fn(w, i)
                out += rep
                i += used
            words[k] = out

    def live():
        return sorted({g for w in words for g in w})

    nstages = r.range(2, 5)
    for stage in range(nstages):
        kind = r.choice(CHAIN_KINDS) if stage else r.choice(["lig", "lig", "lig", "mult"])
        lv = live()
        if not lv:
            break
        flag = r.choice([0, 0, 0, 0, 8, 2, 4])
        if kind == "lig":
            cands = [tuple(w[i:i + k]) for w in words for k in (2, 2, 3) for i in range(len(w) - k + 1)]
            if not cands:
                continue
            rules = {}
            for sq in r.sample(sorted(set(cands)), min(r.range(1, 3), len(set(cands)))):
                tgt = fresh() if r.chance(5, 6) else r.choice(lv)
                rules.setdefault(sq[0], []).append((list(sq[1:]), tgt))
                ligs.add(tgt)
            for f in rules:
                rules[f].sort(key=lambda x: -len(x[0]))                   # longest first, as font compilers write them
            cov = sorted(rules)
            lookups.append({"type": 4, "flag": flag, "subtables": [{"coverage": cov, "ligsets": [
                [{"components": c, "glyph": g} for c, g in rules[f]] for f in cov]}]})

            def fn(w, i, rules=rules):
                for c, g in rules.get(w[i], []):
                    if w[i + 1:i + 1 + len(c)] == c:
                        return [g], 1 + len(c)
                return [w[i]], 1
            rewrite(fn)
        elif kind == "mult":
            pref = [g for g in lv if g in ligs]
            srcs = set()
            for _ in range(r.range(1, 3)):
                srcs.add(r.choice(pref) if pref and r.chance(2, 3) else r.choice(lv))
            seqmap = {}
            for g in sorted(srcs):
                ln = r.choice([2, 2, 2, 3, 3, 4, 1, 0])
                sq = [(g if r.chance(1, 4) else r.choice(lv) if r.chance(1, 4) else fresh()) for _ in range(ln)]
                seqmap[g] = sq
                if ln > 1:
                    mults.update(sq)
                    if g in ligs: ligs.update(sq)
            cov = sorted(seqmap)
            lookups.append({"type": 2, "flag": flag, "subtables": [{"coverage": cov, "sequences": [seqmap[g] for g in cov]}]})
            rewrite(lambda w, i: (list(seqmap[w[i]]) if w[i] in seqmap else [w[i]], 1))
        elif kind == "single":
            srcs = sorted(set(r.sample(lv, min(len(lv), r.range(1, 3)))))
            sm = {g: (fresh() if r.chance(2, 3) else r.choice(lv)) for g in srcs}
            for g in srcs:
                if g in ligs: ligs.add(sm[g])
            lookups.append({"type": 1, "flag": flag, "subtables": [{"format": 2, "coverage": srcs, "subst": [sm[g] for g in srcs]}]})
            rewrite(lambda w, i: ([sm.get(w[i], w[i])], 1))
        else:
            # a chained context over a whole current word (or a piece of it) calling earlier lookups at its positions
            w = r.choice([w for w in words if w] or [[r.choice(lv)]])
            a = r.below(len(w)); b = r.range(a + 1, min(len(w), a + 3))
            inp = w[a:b]
            recs = [(r.below(len(inp)), r.below(len(lookups))) for _ in range(r.range(1, 2))] if lookups else []
            lookups.append({"type": 6, "flag": flag, "subtables": [{
                "format": 3, "backtrack": [[g] for g in reversed(w[max(0, a - 1):a])] if r.chance(1, 2) else [],
                "coverages": [sorted(set([g] + r.sample(lv, r.range(0, 1)))) for g in inp],
                "lookahead": [[g] for g in w[b:b + 1]] if r.chance(1, 2) else [], "lookups": recs}]})
            # (the words are left as they are: what the nested lookup does there is not tracked)
    if not lookups:
        lookups.append({"type": 1, "flag": 0, "subtables": [{"format": 1, "coverage": [1], "delta": 1}]})
    n = nxt[0] + 1 + r.below(3)
    rec = {"num_glyphs": n, "cmap": "pua", "advances": [500 + 10 * (g % 40) for g in range(n)], "seqs": seqs, "text_glyphs": base,
           "profile": "chain", "final_words": [list(w) for w in words],
           "final_pairs": sorted({(w[i], w[i + 1]) for w in words for i in range(len(w) - 1)}),
           "lig_glyphs": sorted(ligs), "mult_glyphs": sorted(mults)}
    # GDEF: none / agreeing with what the lookups make (ligature outputs are ligatures, a few text glyphs are marks) /
    # drawn at random (so ligature outputs and multiplied glyphs may be marks, text marks may be bases)
    gdef = r.choice(["none", "agree", "random"]) if gdef is None else gdef
    if gdef == "agree":
        marks = set(r.sample(base, r.range(0, 2)))
        cls = {g: 3 if g in marks else 2 if g in ligs else 1 for g in range(1, n) if g in marks or r.chance(7, 8)}
        rec["gdef"] = {"classes": cls}
    elif gdef == "random":
        cls = {g: r.choice([1, 1, 2, 3, 3]) for g in range(1, n) if r.chance(3, 4)}
        rec["gdef"] = {"classes": cls}
        mk = [g for g, c in cls.items() if c == 3]
        if mk and r.chance(1, 3):
            rec["gdef"]["mark_attach"] = {g: r.range(1, 2) for g in mk if r.chance(2, 3)}
    if "gdef" not in rec:
        for lk in lookups:
            lk["flag"] = 0 if r.chance(2, 3) else lk["flag"]
    # features: the stages run in lookup order; one or two default-on tags share them
    tags = r.sample(CHAIN_TAGS, r.range(1, 2))
    nl = len(lookups)
    mains = [i for i, lk in enumerate(lookups)]
    if len(tags) == 1:
        feats = [{"tag": tags[0], "lookups": mains}]
    else:
        cut = r.range(0, nl)
        feats = [{"tag": tags[0], "lookups": mains[:cut] or mains}, {"tag": tags[1], "lookups": mains[cut:] or mains}]
    rec["gsub"] = {"features": feats, "lookups": lookups}
    return rec


def rand_glyphs(r, rec, k):
    """k glyph ids for a text over the font: uniform, or — when the recipe names the sequences its rules wait for — those
    sequences strung together with the recipe's text glyphs in between"""
    n = rec["num_glyphs"]
    if not rec.get("seqs"):
        return [r.range(1, n - 1) for _ in range(k)]
    alpha = rec.get("text_glyphs") or list(range(1, n))
    gl = []
    while len(gl) < k:
        if r.chance(3, 4):
            gl += r.choice(rec["seqs"])
        if r.chance(1, 2):
            gl.append(r.choice(alpha))
        if r.chance(1, 12):
            gl.append(r.range(1, n - 1))
    return gl[:max(k, 1)]


# ------------------------------------------------------------------------------------------------
# flattening for the Lean driver


def cov_list(c):
    return fontbuild.coverage_order(c)


def T_cov(c):
    g = cov_list(c)
    return [len(g)] + g


def T_list(xs):
    return [len(xs)] + list(xs)


def T_cd(cd):
    if cd is None:
        cd = {}
    if isinstance(cd, dict) and "map" in cd:
        cd = cd["map"]
    items = sorted((int(g), int(c)) for g, c in cd.items() if int(c) != 0)
    out = [len(items)]
    for g, c in items:
        out += [g, c]
    return out


def T_recs(recs):
    out = [len(recs)]
    for s, l in recs:
        out += [s, l]
    return out


def T_rule(ru):
    return T_list(ru["input"]) + T_recs(ru["lookups"])


def T_crule(ru):
    return T_list(ru.get("backtrack", [])) + T_list(ru["input"]) + T_list(ru.get("lookahead", [])) + T_recs(ru["lookups"])


def par(cov, arr):
    return fontbuild.parallel(cov, arr)


def T_subtable(ltype, st):
    if ltype == 7:
        return T_subtable(st["ext_type"], st["extension"])
    if ltype == 1:
        fmt = st.get("format", 1 if "delta" in st else 2)
        if fmt == 1:
            return [1] + T_cov(st["coverage"]) + [st["delta"] % 65536]
        return [2] + T_cov(st["coverage"]) + T_list(par(st["coverage"], st["subst"]))
    if ltype in (2, 3):
        key = "sequences" if ltype == 2 else "alternates"
        seqs = par(st["coverage"], st[key])
        out = [3 if ltype == 2 else 4] + T_cov(st["coverage"]) + [len(seqs)]
        for s in seqs:
            out += T_list(s)
        return out
    if ltype == 4:
        sets = par(st["coverage"], st["ligsets"])
        out = [5] + T_cov(st["coverage"]) + [len(sets)]
        for ls in sets:
            out.append(len(ls))
            for lg in ls:
                out += T_list(lg["components"]) + [lg["glyph"]]
        return out
    if ltype == 5:
        fmt = st["format"]
        if fmt == 1:
            sets = par(st["coverage"], st["rulesets"])
            out = [6] + T_cov(st["coverage"]) + [len(sets)]
            for rs in sets:
                rs = rs or []
                out.append(len(rs))
                for ru in rs:
                    out += T_rule(ru)
            return out
        if fmt == 2:
            out = [7] + T_cov(st["coverage"]) + T_cd(st["classdef"]) + [len(st["classsets"])]
            for rs in st["classsets"]:
                if rs is None:
                    out.append(0)
                else:
                    out += [1, len(rs)]
                    for ru in rs:
                        out += T_rule(ru)
            return out
        out = [8, len(st["coverages"])]
        for c in st["coverages"]:
            out += T_cov(c)
        return out + T_recs(st["lookups"])
    if ltype == 6:
        fmt = st["format"]
        if fmt == 1:
            sets = par(st["coverage"], st["rulesets"])
            out = [9] + T_cov(st["coverage"]) + [len(sets)]
            for rs in sets:
                rs = rs or []
                out.append(len(rs))
                for ru in rs:
                    out += T_crule(ru)
            return out
        if fmt == 2:
            out = ([10] + T_cov(st["coverage"]) + T_cd(st.get("backtrack_classdef")) + T_cd(st.get("input_classdef"))
                   + T_cd(st.get("lookahead_classdef")) + [len(st["classsets"])])
            for rs in st["classsets"]:
                if rs is None:
                    out.append(0)
                else:
                    out += [1, len(rs)]
                    for ru in rs:
                        out += T_crule(ru)
            return out
        inp = st.get("coverages", st.get("input"))
        out = [11, len(st.get("backtrack", []))]
        for c in st.get("backtrack", []):
            out += T_cov(c)
        out.append(len(inp))
        for c in inp:
            out += T_cov(c)
        out.append(len(st.get("lookahead", [])))
        for c in st.get("lookahead", []):
            out += T_cov(c)
        return out + T_recs(st["lookups"])
    if ltype == 8:
        out = [12] + T_cov(st["coverage"]) + [len(st.get("backtrack", []))]
        for c in st.get("backtrack", []):
            out += T_cov(c)
        out.append(len(st.get("lookahead", [])))
        for c in st.get("lookahead", []):
            out += T_cov(c)
        return out + T_list(par(st["coverage"], st["subst"]))
    raise ValueError(ltype)


def glyph_props(rec):
    """face.glyph_props(g) for every glyph with a non-zero value; (has_gdef, has_glyph_classes)"""
    gd = rec.get("gdef")
    if gd is None:
        return False, False, {}
    classes = gd.get("classes") or {}
    if isinstance(classes, dict) and "map" in classes:
        classes = classes["map"]
    att = gd.get("mark_attach") or {}
    props = {}
    for g, c in classes.items():
        g, c = int(g), int(c)
        if c == 1: props[g] = 0x02
        elif c == 2: props[g] = 0x04
        elif c == 3: props[g] = 0x08 | (int(att.get(g, att.get(str(g), 0))) << 8)
    # ttf-parser: has_glyph_classes() = the GlyphClassDef offset is non-null; fontbuild writes the table when
    # "classes" is given (even empty)
    return True, ("classes" in gd and gd["classes"] is not None), props


def flatten(rec):
    hg, hc, props = glyph_props(rec)
    out = [int(hg), int(hc), len(props)]
    for g in sorted(props):
        out += [g, props[g]]
    sets = (rec.get("gdef") or {}).get("mark_sets") or []
    out.append(len(sets))
    for s in sets:
        out += T_cov(s)
    lookups = (rec.get("gsub") or {}).get("lookups", [])
    out.append(len(lookups))
    for lk in lookups:
        p = lk.get("flag", 0)
        if lk.get("mark_set") is not None:
            p = (p | 0x10) | (lk["mark_set"] << 16)
        out += [p, len(lk["subtables"])]
        for st in lk["subtables"]:
            out += T_subtable(lk["type"], st)
    return " ".join(str(x) for x in out)


# ------------------------------------------------------------------------------------------------
# buffers


def rand_buffer(r, rec, length=None):
    n = rec["num_glyphs"]
    k = r.range(1, 10) if length is None else length
    # bias towards glyphs that occur in coverages
    items = []
    cl = 0
    hinted = rand_glyphs(r, rec, k) if rec.get("seqs") else None
    for i in range(k):
        g = hinted[i] if hinted is not None else r.range(1, n - 1)
        mask = 0xFFFFFFF8 if r.chance(3, 4) else (r.next() & 0xFFFFFFF8)
        uprops = 0
        if r.chance(1, 10):
            uprops = r.choice([0x21, 0x121, 0x221, 0x61, 0x2c])      # DI format / ZWJ / ZWNJ / hidden DI / DI mark
        elif r.chance(1, 6):
            uprops = 12 | (r.choice([230, 220, 1]) << 8) | 0x80        # non-spacing mark, continuation
        else:
            uprops = r.choice([5, 7, 9, 3])
        items.append((g, mask, cl, 0, uprops))
        if r.chance(3, 4):
            cl += 1
    slack = r.below(2)
    info = items + [(0, 0, 0, 0, 0)] * slack
    return {"L": r.below(3), "F": r.choice([0, 0x40]), "M": max(64 * k, 16384), "O": max(1024 * k, 16384),
            "h": 0, "s": 0, "i": 0, "n": k, "o": 0, "I": info, "U": [(0, 0, 0, 0, 0)] * len(info)}


def user_features(r, rec):
    feats = []
    for f in rec["gsub"]["features"]:
        if r.chance(2, 3):
            v = r.choice([1, 1, 1, 2, 3, 0])
            if r.chance(1, 5):
                a = r.below(6); feats.append((f["tag"], v, a, a + r.range(0, 5)))
            else:
                feats.append((f["tag"], v, 0, 0xFFFFFFFF))
    return ",".join(f"{tag_hex(t)}:{v}:{s}:{e}" for t, v, s, e in feats) or "-"


# ------------------------------------------------------------------------------------------------
# "malformed but accepted" tables: coverage and class-definition tables written in ways the OpenType text forbids and
# no parser rejects — glyph arrays that are not sorted or hold duplicates, range records that are unsorted, overlap, repeat
# or have start > end.  `Coverage::get` / `ClassDef::get` are binary searches: on such a table they still find SOME of the
# entries, and whatever they find decides where a lookup acts.  Everything derived from the tables by another route (the
# lookup digests built by `collect`, caches) has to agree with what the searches find.  The functions rewrite a fontbuild
# recipe in place into "raw" coverages / class definitions of the same glyph sets (arrays parallel to a coverage keep
# their length; which entry a glyph then gets is whatever the font says — the streams that use this compare the crate
# with itself, never with a model of well-formed fonts).

COV_KEYS = ("coverage", "mark_coverage", "base_coverage", "lig_coverage", "mark1_coverage", "mark2_coverage")
COVLIST_KEYS = ("coverages", "input", "backtrack", "lookahead")
CLASSDEF_KEYS = ("classdef", "backtrack_classdef", "input_classdef", "lookahead_classdef", "classdef1", "classdef2")
MALFORMED_KINDS = ["array-shuffled", "array-rotated", "array-reversed", "array-duplicates", "array-one-descent",
                   "ranges-shuffled", "ranges-overlapping", "ranges-inverted", "ranges-nested-duplicate", "well-formed"]


def _runs(gs):
    runs = []
    for g in gs:
        if runs and g == runs[-1][1] + 1:
            runs[-1][1] = g
        else:
            runs.append([g, g])
    return [tuple(x) for x in runs]


def malformed_coverage(r, c, stats=None, maxgid=65535):
    """the glyph set of recipe coverage `c` written in one of MALFORMED_KINDS (a recipe coverage with "raw": True)"""
    gs = fontbuild.coverage_order(c)
    if not gs or (isinstance(c, dict) and c.get("raw")):
        return c
    kind = r.choice(MALFORMED_KINDS)
    if stats is not None:
        stats[kind] = stats.get(kind, 0) + 1
    arr = lambda xs: {"glyphs": list(xs), "format": 1, "raw": True}
    rng = lambda rs: {"ranges": [tuple(x) for x in rs], "format": 2, "raw": True}
    if kind == "well-formed":
        return c
    if kind == "array-shuffled":
        return arr(r.shuffle(gs))
    if kind == "array-rotated":
        j = r.range(1, len(gs)) % len(gs)
        return arr(gs[j:] + gs[:j])
    if kind == "array-reversed":
        return arr(gs[::-1])
    if kind == "array-duplicates":
        out = list(gs)
        for _ in range(r.range(1, 3)):
            out.insert(r.below(len(out) + 1), r.choice(gs))
        return arr(out)
    if kind == "array-one-descent":
        out = list(gs)
        g = out.pop(r.below(len(out)))
        out.insert(r.choice([0, len(out), r.below(len(out) + 1)]), g)
        return arr(out)
    runs = _runs(gs)
    if kind == "ranges-shuffled":
        return rng(r.shuffle(runs))
    if kind == "ranges-overlapping":
        return rng([(a, min(maxgid, b + r.range(0, 3))) for a, b in runs] + ([(runs[0][0], runs[-1][1])] if r.chance(1, 3) else []))
    if kind == "ranges-inverted":
        out = list(runs)
        for _ in range(r.range(1, 2)):
            a, b = r.choice(gs), r.choice(gs)
            a, b = max(a, b) + r.below(2), min(a, b)
            out.insert(r.below(len(out) + 1), (a, b))          # start > end (or a one-glyph range when equal)
        return rng(out)
    out = list(runs)
    a, b = r.choice(runs)
    out.insert(r.below(len(out) + 1), (a, b))                  # the same range twice
    c0 = r.range(a, b)
    out.insert(r.below(len(out) + 1), (c0, r.range(c0, b)))     # a range inside another
    return rng(out)


def malformed_classdef(r, cd, stats=None):
    """{gid: class} written as format-2 range records that are shuffled / overlap with different classes / are inverted, or
    as a format-1 array; other class definitions are returned unchanged"""
    if not isinstance(cd, dict) or not cd or any(k in cd for k in ("format", "map", "ranges", "classes")):
        return cd
    items = sorted((int(g), int(c)) for g, c in cd.items() if int(c) != 0)
    if not items:
        return cd
    rs = []
    for g, c in items:
        if rs and rs[-1][1] + 1 == g and rs[-1][2] == c:
            rs[-1][1] = g
        else:
            rs.append([g, g, c])
    rs = [tuple(x) for x in rs]
    kind = r.choice(["cd-shuffled", "cd-overlapping", "cd-inverted", "cd-format1", "cd-well-formed", "cd-well-formed"])
    if stats is not None:
        stats[kind] = stats.get(kind, 0) + 1
    if kind == "cd-shuffled":
        return {"format": 2, "ranges": r.shuffle(rs)}
    if kind == "cd-overlapping":
        return {"format": 2, "ranges": [(a, b + r.range(0, 3), c) for a, b, c in rs] + [(rs[0][0], rs[-1][1], r.range(1, 3))]}
    if kind == "cd-inverted":
        out = list(rs)
        a, b, c = r.choice(rs)
        out.insert(r.below(len(out) + 1), (b + 1, a, c))
        return {"format": 2, "ranges": out}
    if kind == "cd-format1":
        return {"format": 1, "map": dict(items)}
    return cd


def malform_subtable(r, st, stats=None):
    if not isinstance(st, dict):
        return
    if isinstance(st.get("extension"), dict):
        malform_subtable(r, st["extension"], stats)
        return
    for k in COV_KEYS:
        if st.get(k) is not None:
            st[k] = malformed_coverage(r, st[k], stats)
    for k in COVLIST_KEYS:
        v = st.get(k)
        if isinstance(v, list) and v and all(isinstance(e, (list, tuple, dict)) for e in v):
            st[k] = [malformed_coverage(r, e, stats) for e in v]
    for k in CLASSDEF_KEYS:
        if st.get(k) is not None:
            st[k] = malformed_classdef(r, st[k], stats)


def malform_recipe(r, rec, stats=None, extension=(1, 5)):
    """rewrites every coverage / class definition of the recipe's GSUB, GPOS and GDEF (see above); a share of the lookups is
    wrapped into extension lookups (GSUB type 7 / GPOS type 9)"""
    for key, ext in (("gsub", 7), ("gpos", 9)):
        t = rec.get(key)
        if not t:
            continue
        for lk in t["lookups"]:
            for st in lk["subtables"]:
                malform_subtable(r, st, stats)
            if lk["type"] != ext and r.chance(*extension):
                lk["subtables"] = [{"extension": st, "ext_type": lk["type"]} for st in lk["subtables"]]
                lk["type"] = ext
                if stats is not None:
                    stats["extension-lookup"] = stats.get("extension-lookup", 0) + 1
    gd = rec.get("gdef")
    if gd:
        if gd.get("mark_sets"):
            gd["mark_sets"] = [malformed_coverage(r, c, stats) for c in gd["mark_sets"]]
        for k in ("classes", "mark_attach"):
            if gd.get(k):
                gd[k] = malformed_classdef(r, gd[k], stats)
    return rec
