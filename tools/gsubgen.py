"""Random GSUB/GDEF font recipes (fontbuild format), their flattening to the token form the Lean driver
reads (`gsub … FONT <numbers>`), and buffer states for the lookup-interpreter streams."""
import fontbuild, bufgen

FEATURE_TAGS = ["ccmp", "liga", "calt", "rlig", "locl", "ss01", "ss02", "aalt", "salt", "dlig"]


def tag_hex(t):
    return "".join(f"{ord(c):02x}" for c in t)


# ------------------------------------------------------------------------------------------------
# recipe generation (well-formed tables: the property quantifies over well-formed GSUB/GDEF)


def rand_cov(r, n, kmin=1, kmax=5, must=None):
    k = r.range(kmin, min(kmax, n - 1))
    gs = set(r.sample(list(range(1, n)), k))
    if must is not None:
        gs.add(must)
    return sorted(gs)


def rand_gid(r, n):
    return r.range(1, n - 1)


def rand_recs(r, ninput, nlookups, self_idx):
    recs = []
    for _ in range(r.below(3)):
        # nested lookups may point anywhere (also at contextual ones, also at themselves: the nesting and
        # operation budgets must stop that), sequence indices sometimes out of range
        recs.append((r.below(ninput + 1 + (1 if r.chance(1, 8) else 0)), r.below(nlookups)))
    return recs


def rand_subtable(r, ltype, n, nlookups, self_idx, classdefs):
    if ltype == 1:
        cov = rand_cov(r, n)
        if r.chance(1, 2):
            return {"format": 1, "coverage": cov, "delta": r.choice([1, 2, -1, n - 1, 65535 - 3, 3])}
        return {"format": 2, "coverage": cov, "subst": [rand_gid(r, n) for _ in cov]}
    if ltype == 2:
        cov = rand_cov(r, n)
        return {"coverage": cov, "sequences": [[rand_gid(r, n) for _ in range(r.choice([0, 1, 2, 2, 3]))] for _ in cov]}
    if ltype == 3:
        cov = rand_cov(r, n)
        return {"coverage": cov, "alternates": [[rand_gid(r, n) for _ in range(r.range(0, 3))] for _ in cov]}
    if ltype == 4:
        cov = rand_cov(r, n, 1, 3)
        sets = []
        for _ in cov:
            sets.append([{"components": [rand_gid(r, n) for _ in range(r.choice([0, 1, 1, 2, 3]))],
                          "glyph": rand_gid(r, n)} for _ in range(r.range(1, 3))])
        return {"coverage": cov, "ligsets": sets}
    if ltype == 5:
        f = r.range(1, 3)
        if f == 1:
            cov = rand_cov(r, n, 1, 3)
            sets = []
            for _ in cov:
                rules = []
                for _ in range(r.range(1, 2)):
                    inp = [rand_gid(r, n) for _ in range(r.range(0, 2))]
                    rules.append({"input": inp, "lookups": rand_recs(r, len(inp), nlookups, self_idx)})
                sets.append(rules)
            return {"format": 1, "coverage": cov, "rulesets": sets}
        if f == 2:
            cd = r.choice(classdefs)
            ncls = max(cd.values(), default=0) + 1
            cov = rand_cov(r, n, 2, 6)
            sets = []
            for _ in range(ncls):
                if r.chance(1, 4):
                    sets.append(None); continue
                rules = []
                for _ in range(r.range(1, 2)):
                    inp = [r.below(ncls) for _ in range(r.range(0, 2))]
                    rules.append({"input": inp, "lookups": rand_recs(r, len(inp), nlookups, self_idx)})
                sets.append(rules)
            return {"format": 2, "coverage": cov, "classdef": dict(cd), "classsets": sets}
        covs = [rand_cov(r, n, 1, 5) for _ in range(r.range(1, 3))]
        return {"format": 3, "coverages": covs, "lookups": rand_recs(r, len(covs) - 1, nlookups, self_idx)}
    if ltype == 6:
        f = r.range(1, 3)
        if f == 1:
            cov = rand_cov(r, n, 1, 3)
            sets = []
            for _ in cov:
                rules = []
                for _ in range(r.range(1, 2)):
                    inp = [rand_gid(r, n) for _ in range(r.range(0, 2))]
                    rules.append({"backtrack": [rand_gid(r, n) for _ in range(r.range(0, 2))], "input": inp,
                                  "lookahead": [rand_gid(r, n) for _ in range(r.range(0, 2))],
                                  "lookups": rand_recs(r, len(inp), nlookups, self_idx)})
                sets.append(rules)
            return {"format": 1, "coverage": cov, "rulesets": sets}
        if f == 2:
            bc, ic, lc = (r.choice(classdefs) for _ in range(3))
            ncls = max(ic.values(), default=0) + 1
            cov = rand_cov(r, n, 2, 6)
            sets = []
            for _ in range(ncls):
                if r.chance(1, 4):
                    sets.append(None); continue
                rules = []
                for _ in range(r.range(1, 2)):
                    inp = [r.below(ncls) for _ in range(r.range(0, 2))]
                    rules.append({"backtrack": [r.below(max(bc.values(), default=0) + 1) for _ in range(r.range(0, 2))],
                                  "input": inp,
                                  "lookahead": [r.below(max(lc.values(), default=0) + 1) for _ in range(r.range(0, 2))],
                                  "lookups": rand_recs(r, len(inp), nlookups, self_idx)})
                sets.append(rules)
            return {"format": 2, "coverage": cov, "backtrack_classdef": dict(bc), "input_classdef": dict(ic),
                    "lookahead_classdef": dict(lc), "classsets": sets}
        inp = [rand_cov(r, n, 1, 5) for _ in range(r.range(1, 3))]
        return {"format": 3, "backtrack": [rand_cov(r, n, 1, 6) for _ in range(r.range(0, 2))], "coverages": inp,
                "lookahead": [rand_cov(r, n, 1, 6) for _ in range(r.range(0, 2))],
                "lookups": rand_recs(r, len(inp) - 1, nlookups, self_idx)}
    if ltype == 8:
        cov = rand_cov(r, n)
        return {"coverage": cov, "backtrack": [rand_cov(r, n, 1, 6) for _ in range(r.range(0, 2))],
                "lookahead": [rand_cov(r, n, 1, 6) for _ in range(r.range(0, 2))],
                "subst": [rand_gid(r, n) for _ in cov]}
    raise ValueError(ltype)


def rand_recipe(r, types=(1, 2, 3, 4, 5, 6, 8), max_lookups=5, with_gdef=None, flags=True):
    n = r.range(8, 20)
    rec = {"num_glyphs": n, "cmap": "pua", "advances": [500 + 10 * g for g in range(n)]}
    with_gdef = r.chance(2, 3) if with_gdef is None else with_gdef
    nsets = 0
    # mark-heavy profile: half of the glyphs are marks, every mark has an attachment class, there are mark filtering
    # sets, and lookups combine attachment-type and filtering-set flags (the interplay of the skipping rules)
    heavy = bool(with_gdef and flags and r.chance(1, 4))
    if with_gdef:
        classes = {}
        for g in range(1, n):
            k = r.below(6)
            if heavy:
                classes[g] = 3 if k < 3 else (1 if k < 5 else 2)
            elif k < 3: classes[g] = 1
            elif k == 3: classes[g] = 2
            elif k == 4: classes[g] = 3
        marks = [g for g, c in classes.items() if c == 3]
        gd = {"classes": classes}
        if marks and (heavy or r.chance(1, 2)):
            gd["mark_attach"] = {g: r.range(1, 3 if heavy else 2) for g in marks if heavy or r.chance(2, 3)}
        if marks and (heavy or r.chance(1, 2)):
            gd["mark_sets"] = [sorted(set(r.sample(marks, r.range(1, len(marks))))) for _ in range(r.range(1, 2))]
            nsets = len(gd["mark_sets"])
        if r.chance(1, 6) and not heavy:
            gd = {"classes": {}}      # GDEF present but no glyph classes
        rec["gdef"] = gd
    classdefs = [{g: r.range(1, 2) for g in range(1, n) if r.chance(1, 2)} for _ in range(2)] + [{}]
    nl = r.range(1, max_lookups)
    lookups = []
    for li in range(nl):
        t = r.choice(list(types))
        flag = 0
        mark_set = None
        if heavy and r.chance(3, 4):
            flag = r.choice([0x100, 0x200, 0x300, 0x100 | 2, 0x200 | 4, 0, 0, 8])
            if nsets and r.chance(1, 2):
                mark_set = r.below(nsets)
        elif flags and r.chance(1, 2):
            flag = r.choice([2, 4, 8, 6, 0x100, 0x200, 8 | 2, 0])
            if nsets and r.chance(1, 3):
                mark_set = r.below(nsets)
        lk = {"type": t, "flag": flag, "subtables": [rand_subtable(r, t, n, nl, li, classdefs) for _ in range(r.range(1, 2))]}
        if mark_set is not None:
            lk["mark_set"] = mark_set
        lookups.append(lk)
    tags = r.sample(FEATURE_TAGS, r.range(1, min(4, len(FEATURE_TAGS))))
    feats = []
    pool = list(range(nl))
    for t in tags:
        feats.append({"tag": t, "lookups": sorted(set(r.sample(pool, r.range(1, nl))))})
    rec["gsub"] = {"features": feats, "lookups": lookups}
    return rec


# ------------------------------------------------------------------------------------------------
# flattening for the Lean driver


def cov_list(c):
    return fontbuild.coverage_order(c)


def T_cov(c):
    g = cov_list(c)
    return [len(g)] + g


def T_list(xs):
    return [len(xs)] + list(xs)


def T_cd(cd):
    if cd is None:
        cd = {}
    if isinstance(cd, dict) and "map" in cd:
        cd = cd["map"]
    items = sorted((int(g), int(c)) for g, c in cd.items() if int(c) != 0)
    out = [len(items)]
    for g, c in items:
        out += [g, c]
    return out


def T_recs(recs):
    out = [len(recs)]
    for s, l in recs:
        out += [s, l]
    return out


def T_rule(ru):
    return T_list(ru["input"]) + T_recs(ru["lookups"])


def T_crule(ru):
    return T_list(ru.get("backtrack", [])) + T_list(ru["input"]) + T_list(ru.get("lookahead", [])) + T_recs(ru["lookups"])


def par(cov, arr):
    return fontbuild.parallel(cov, arr)


def T_subtable(ltype, st):
    if ltype == 7:
        return T_subtable(st["ext_type"], st["extension"])
    if ltype == 1:
        fmt = st.get("format", 1 if "delta" in st else 2)
        if fmt == 1:
            return [1] + T_cov(st["coverage"]) + [st["delta"] % 65536]
        return [2] + T_cov(st["coverage"]) + T_list(par(st["coverage"], st["subst"]))
    if ltype in (2, 3):
        key = "sequences" if ltype == 2 else "alternates"
        seqs = par(st["coverage"], st[key])
        out = [3 if ltype == 2 else 4] + T_cov(st["coverage"]) + [len(seqs)]
        for s in seqs:
            out += T_list(s)
        return out
    if ltype == 4:
        sets = par(st["coverage"], st["ligsets"])
        out = [5] + T_cov(st["coverage"]) + [len(sets)]
        for ls in sets:
            out.append(len(ls))
            for lg in ls:
                out += T_list(lg["components"]) + [lg["glyph"]]
        return out
    if ltype == 5:
        fmt = st["format"]
        if fmt == 1:
            sets = par(st["coverage"], st["rulesets"])
            out = [6] + T_cov(st["coverage"]) + [len(sets)]
            for rs in sets:
                rs = rs or []
                out.append(len(rs))
                for ru in rs:
                    out += T_rule(ru)
            return out
        if fmt == 2:
            out = [7] + T_cov(st["coverage"]) + T_cd(st["classdef"]) + [len(st["classsets"])]
            for rs in st["classsets"]:
                if rs is None:
                    out.append(0)
                else:
                    out += [1, len(rs)]
                    for ru in rs:
                        out += T_rule(ru)
            return out
        out = [8, len(st["coverages"])]
        for c in st["coverages"]:
            out += T_cov(c)
        return out + T_recs(st["lookups"])
    if ltype == 6:
        fmt = st["format"]
        if fmt == 1:
            sets = par(st["coverage"], st["rulesets"])
            out = [9] + T_cov(st["coverage"]) + [len(sets)]
            for rs in sets:
                rs = rs or []
                out.append(len(rs))
                for ru in rs:
                    out += T_crule(ru)
            return out
        if fmt == 2:
            out = ([10] + T_cov(st["coverage"]) + T_cd(st.get("backtrack_classdef")) + T_cd(st.get("input_classdef"))
                   + T_cd(st.get("lookahead_classdef")) + [len(st["classsets"])])
            for rs in st["classsets"]:
                if rs is None:
                    out.append(0)
                else:
                    out += [1, len(rs)]
                    for ru in rs:
                        out += T_crule(ru)
            return out
        inp = st.get("coverages", st.get("input"))
        out = [11, len(st.get("backtrack", []))]
        for c in st.get("backtrack", []):
            out += T_cov(c)
        out.append(len(inp))
        for c in inp:
            out += T_cov(c)
        out.append(len(st.get("lookahead", [])))
        for c in st.get("lookahead", []):
            out += T_cov(c)
        return out + T_recs(st["lookups"])
    if ltype == 8:
        out = [12] + T_cov(st["coverage"]) + [len(st.get("backtrack", []))]
        for c in st.get("backtrack", []):
            out += T_cov(c)
        out.append(len(st.get("lookahead", [])))
        for c in st.get("lookahead", []):
            out += T_cov(c)
        return out + T_list(par(st["coverage"], st["subst"]))
    raise ValueError(ltype)


def glyph_props(rec):
    """face.glyph_props(g) for every glyph with a non-zero value; (has_gdef, has_glyph_classes)"""
    gd = rec.get("gdef")
    if gd is None:
        return False, False, {}
    classes = gd.get("classes") or {}
    if isinstance(classes, dict) and "map" in classes:
        classes = classes["map"]
    att = gd.get("mark_attach") or {}
    props = {}
    for g, c in classes.items():
        g, c = int(g), int(c)
        if c == 1: props[g] = 0x02
        elif c == 2: props[g] = 0x04
        elif c == 3: props[g] = 0x08 | (int(att.get(g, att.get(str(g), 0))) << 8)
    # ttf-parser: has_glyph_classes() = the GlyphClassDef offset is non-null; fontbuild writes the table when
    # "classes" is given (even empty)
    return True, ("classes" in gd and gd["classes"] is not None), props


def flatten(rec):
    hg, hc, props = glyph_props(rec)
    out = [int(hg), int(hc), len(props)]
    for g in sorted(props):
        out += [g, props[g]]
    sets = (rec.get("gdef") or {}).get("mark_sets") or []
    out.append(len(sets))
    for s in sets:
        out += T_cov(s)
    lookups = (rec.get("gsub") or {}).get("lookups", [])
    out.append(len(lookups))
    for lk in lookups:
        p = lk.get("flag", 0)
        if lk.get("mark_set") is not None:
            p = (p | 0x10) | (lk["mark_set"] << 16)
        out += [p, len(lk["subtables"])]
        for st in lk["subtables"]:
            out += T_subtable(lk["type"], st)
    return " ".join(str(x) for x in out)


# ------------------------------------------------------------------------------------------------
# buffers


def rand_buffer(r, rec, length=None):
    n = rec["num_glyphs"]
    k = r.range(1, 10) if length is None else length
    # bias towards glyphs that occur in coverages
    items = []
    cl = 0
    for i in range(k):
        g = r.range(1, n - 1)
        mask = 0xFFFFFFF8 if r.chance(3, 4) else (r.next() & 0xFFFFFFF8)
        uprops = 0
        if r.chance(1, 10):
            uprops = r.choice([0x21, 0x121, 0x221, 0x61, 0x2c])      # DI format / ZWJ / ZWNJ / hidden DI / DI mark
        elif r.chance(1, 6):
            uprops = 12 | (r.choice([230, 220, 1]) << 8) | 0x80        # non-spacing mark, continuation
        else:
            uprops = r.choice([5, 7, 9, 3])
        items.append((g, mask, cl, 0, uprops))
        if r.chance(3, 4):
            cl += 1
    slack = r.below(2)
    info = items + [(0, 0, 0, 0, 0)] * slack
    return {"L": r.below(3), "F": r.choice([0, 0x40]), "M": max(64 * k, 16384), "O": max(1024 * k, 16384),
            "h": 0, "s": 0, "i": 0, "n": k, "o": 0, "I": info, "U": [(0, 0, 0, 0, 0)] * len(info)}


def user_features(r, rec):
    feats = []
    for f in rec["gsub"]["features"]:
        if r.chance(2, 3):
            v = r.choice([1, 1, 1, 2, 3, 0])
            if r.chance(1, 5):
                a = r.below(6); feats.append((f["tag"], v, a, a + r.range(0, 5)))
            else:
                feats.append((f["tag"], v, 0, 0xFFFFFFFF))
    return ",".join(f"{tag_hex(t)}:{v}:{s}:{e}" for t, v, s, e in feats) or "-"
