"""Shared machinery for ./check: regenerate -> prove -> correspond -> search -> decide."""
import hashlib, json, os, re, subprocess, sys, time, tempfile, shutil
from concurrent.futures import ThreadPoolExecutor

ROOT = os.path.dirname(os.path.dirname(os.path.abspath(__file__)))
REPO = os.environ.get("VERIF_REPO", "/repo")
LEAN = os.path.join(ROOT, "lean")
HARN = os.path.join(ROOT, "harness")
NPROC = int(os.environ.get("VERIF_NPROC", "16"))
ALLOWED_AXIOMS = {"propext", "Classical.choice", "Quot.sound"}
FORBIDDEN = re.compile(r"\b(sorry|admit|native_decide|bv_decide|implemented_by|unsafe)\b|^\s*axiom\s|maxHeartbeats\s+0")

MASK64 = (1 << 64) - 1


class Rng:
    """splitmix64; every random choice of a run derives from VERIF_SEED through named sub-streams."""

    def __init__(self, seed, name=""):
        h = hashlib.sha256(f"{seed}/{name}".encode()).digest()
        self.s = int.from_bytes(h[:8], "little")
        self.name = name

    def next(self):
        self.s = (self.s + 0x9E3779B97F4A7C15) & MASK64
        z = self.s
        z = ((z ^ (z >> 30)) * 0xBF58476D1CE4E5B9) & MASK64
        z = ((z ^ (z >> 27)) * 0x94D049BB133111EB) & MASK64
        return z ^ (z >> 31)

    def below(self, n):
        return self.next() % n if n > 0 else 0

    def range(self, a, b):  # inclusive
        return a + self.below(b - a + 1)

    def chance(self, num, den):
        return self.below(den) < num

    def choice(self, xs):
        return xs[self.below(len(xs))]

    def shuffle(self, xs):
        xs = list(xs)
        for i in range(len(xs) - 1, 0, -1):
            j = self.below(i + 1)
            xs[i], xs[j] = xs[j], xs[i]
        return xs

    def sample(self, xs, k):
        return self.shuffle(xs)[:k]

    def fork(self, name):
        return Rng(self.next(), name)


def sh(cmd, cwd=None, timeout=None, env=None, input=None):
    e = dict(os.environ)
    e.setdefault("CARGO_NET_OFFLINE", "true")
    if env:
        e.update(env)
    p = subprocess.run(cmd, cwd=cwd, shell=isinstance(cmd, str), capture_output=True, text=True,
                       timeout=timeout, env=e, input=input)
    return p.returncode, p.stdout, p.stderr


# ----------------------------------------------------------------------------------------------
# building

_built = {}


def build_harness(profile="release"):
    """cargo build of rbshim against /repo's *current working tree* (path dependency, hook cfg on)."""
    if profile in _built:
        return _built[profile]
    args = ["cargo", "build", "--offline", "--profile", profile]
    rc, out, err = sh(args, cwd=HARN, timeout=1800)
    exe = os.path.join(HARN, "target", "release" if profile == "release" else profile, "rbshim")
    if rc != 0 or not os.path.exists(exe):
        raise BuildError("cargo build of rbshim failed (does /repo still compile with --cfg rb_verif?)\n" + err[-4000:])
    _built[profile] = exe
    return exe


class BuildError(Exception):
    pass


def lake_build(targets, timeout=3600):
    if isinstance(targets, str):
        targets = [targets]
    rc, out, err = sh(["lake", "build"] + targets, cwd=LEAN, timeout=timeout)
    return rc == 0, (out + err)


def build_model():
    ok, log = lake_build(["rbmodel"])
    exe = os.path.join(LEAN, ".lake", "build", "bin", "rbmodel")
    if not ok or not os.path.exists(exe):
        raise BuildError("lake build rbmodel failed\n" + log[-4000:])
    return exe


# ----------------------------------------------------------------------------------------------
# running line-protocol processes


def _run_proc(exe, lines, timeout, flush=False):
    """Run one process over `lines`; survive aborts/timeouts by restarting after the offending line.
    Returns one output string per input line; `abort:<rc>` / `timeout` mark lines that killed it."""
    outs = []
    i = 0
    env = dict(os.environ)
    if flush:
        env["RBSHIM_FLUSH"] = "1"
    while i < len(lines):
        chunk = lines[i:]
        data = "\n".join(chunk) + "\n"
        try:
            p = subprocess.run([exe], input=data, capture_output=True, text=True, timeout=timeout, env=env)
            got = p.stdout.split("\n")
            if got and got[-1] == "":
                got.pop()
            rc = p.returncode
            timed = False
        except subprocess.TimeoutExpired as ex:
            so = ex.stdout or b""
            if isinstance(so, bytes):
                so = so.decode("utf-8", "replace")
            got = so.split("\n")
            if got and got[-1] == "":
                got.pop()
            # last line may be partial; only trust complete lines if flushed
            rc = None
            timed = True
        if len(got) >= len(chunk) and not timed:
            outs.extend(got[:len(chunk)])
            break
        if not flush:
            # re-run with per-line flushing to locate the offending line exactly
            flush = True
            env["RBSHIM_FLUSH"] = "1"
            continue
        outs.extend(got[:len(chunk)])
        if len(got) < len(chunk):
            outs.append("timeout" if timed else f"abort:{rc}")
        i = len(outs)
    return outs[:len(lines)]


def run_groups(exe, groups, timeout=600, nproc=None, flush=False):
    """groups: list of lists of lines (a group shares state, e.g. a `font` registration followed by
    its `shape` requests). Groups are distributed over processes; output keeps the group structure."""
    nproc = nproc or NPROC
    if not groups:
        return []
    buckets = [[] for _ in range(min(nproc, len(groups)))]
    for gi, g in enumerate(groups):
        buckets[gi % len(buckets)].append(gi)

    def work(b):
        lines = []
        for gi in b:
            lines.extend(groups[gi])
        outs = _run_proc(exe, lines, timeout, flush)
        res = {}
        k = 0
        for gi in b:
            n = len(groups[gi])
            res[gi] = outs[k:k + n]
            k += n
        return res

    result = [None] * len(groups)
    with ThreadPoolExecutor(max_workers=len(buckets)) as ex:
        for res in ex.map(work, buckets):
            for gi, o in res.items():
                result[gi] = o
    return result


def run_lines(exe, lines, timeout=600, nproc=None, flush=False):
    """Stateless lines: chunk freely."""
    nproc = nproc or NPROC
    if not lines:
        return []
    n = max(1, min(nproc, len(lines) // 200 + 1))
    size = (len(lines) + n - 1) // n
    groups = [lines[i:i + size] for i in range(0, len(lines), size)]
    outs = run_groups(exe, groups, timeout, nproc, flush)
    flat = []
    for o in outs:
        flat.extend(o)
    return flat


# ----------------------------------------------------------------------------------------------
# Lean: theorem inventory + axiom audit


def theorems_of(module):
    """(fully qualified theorem names, source path) of a Props module, by a line scan
    (`namespace X` / `end X` / `theorem name`)."""
    path = os.path.join(LEAN, *module.split(".")) + ".lean"
    names = []
    ns = []
    src = open(path).read()
    for line in src.split("\n"):
        m = re.match(r"^namespace\s+(\S+)", line)
        if m:
            ns.append(m.group(1))
            continue
        m = re.match(r"^end\s+(\S+)", line)
        if m and ns and ns[-1] == m.group(1):
            ns.pop()
            continue
        m = re.match(r"^(?:private\s+|protected\s+)?theorem\s+(\S+)", line)
        if m:
            names.append(".".join(ns + [m.group(1)]))
    return names, path


def module_cone(module):
    """Source files of `module` and of every RbModel module it imports (transitively)."""
    seen = {}
    todo = [module]
    while todo:
        m = todo.pop()
        if m in seen:
            continue
        path = os.path.join(LEAN, *m.split(".")) + ".lean"
        if not os.path.exists(path):
            continue
        seen[m] = path
        for line in open(path):
            mm = re.match(r"^import\s+(RbModel\.\S+)", line)
            if mm:
                todo.append(mm.group(1))
    return seen


def strip_comments(src):
    src = re.sub(r"/-.*?-/", "", src, flags=re.S)
    src = re.sub(r"--.*", "", src)
    return src


def forbidden_tokens(module):
    hits = []
    for m, path in module_cone(module).items():
        src = strip_comments(open(path).read())
        for ln, line in enumerate(src.split("\n"), 1):
            if FORBIDDEN.search(line):
                hits.append(f"{m}: {line.strip()[:120]}")
    return hits


def audit_axioms(module, names):
    """`#print axioms` for every property theorem; returns {name: [axioms]} and failures."""
    body = f"import {module}\n" + "\n".join(f"#print axioms {n}" for n in names) + "\n"
    d = os.path.join(LEAN, ".lake", "audit")
    os.makedirs(d, exist_ok=True)
    f = os.path.join(d, module.replace(".", "_") + "_audit.lean")
    open(f, "w").write(body)
    rc, out, err = sh(["lake", "env", "lean", f], cwd=LEAN, timeout=1800)
    res = {}
    text = out + err
    # messages look like: 'X' depends on axioms: [propext, Quot.sound]   or   'X' does not depend on any axioms
    for m in re.finditer(r"'([^']+)' depends on axioms: \[([^\]]*)\]", text, flags=re.S):
        res[m.group(1)] = [a.strip() for a in m.group(2).replace("\n", " ").split(",") if a.strip()]
    for m in re.finditer(r"'([^']+)' does not depend on any axioms", text):
        res[m.group(1)] = []
    bad = []
    for n in names:
        if n not in res:
            bad.append(f"{n}: no axiom report (missing theorem?)")
        else:
            extra = [a for a in res[n] if a not in ALLOWED_AXIOMS]
            if extra:
                bad.append(f"{n}: uses {extra}")
    if rc != 0 and not bad:
        bad.append("audit file failed to elaborate: " + text[-500:])
    return res, bad


# ----------------------------------------------------------------------------------------------
# check context


class Ctx:
    def __init__(self, prop, tier, seed):
        self.prop = prop
        self.tier = tier
        self.seed = seed
        self.t0 = time.time()
        self.cov = {
            "obligations": 0, "discharged": 0, "checker_cmd": "", "trusted_base": [],
            "samples": [], "streams": {}, "search": {}, "fingerprint_changes": [],
        }
        self.assumptions = []
        self.violations = []      # (message, replay_path, found_input)
        self.known_hits = []
        self.broken = []          # names of proofs/correspondences that no longer check
        self.kf = load_known_findings()
        self.quick = tier == "quick"

    def rng(self, name):
        return Rng(self.seed, f"{self.prop}/{name}")

    def budget(self, quick, thorough):
        return quick if self.quick else thorough

    # -- stage 1: regenerate ------------------------------------------------------------
    def regen(self):
        from gen_lean import regenerate
        changes = regenerate(self)
        self.cov["regenerated"] = changes
        return changes

    # -- stage 2: prove -------------------------------------------------------------------
    def prove(self, module, extra_obligations=0):
        names, path = theorems_of(module)
        ok, log = lake_build([module])
        checker = f"cd {LEAN} && lake build {module} && lake env lean <audit: #print axioms of {len(names)} theorems>"
        self.cov["checker_cmd"] = checker
        self.cov["obligations"] += len(names) + extra_obligations
        self.cov.setdefault("theorems", []).extend(names)
        if not ok:
            failed = sorted(set(re.findall(r"error: (\S+\.lean:\d+)", log)))
            self.broken.append({"stage": "prove", "module": module, "failed_at": failed[:20],
                                "log_tail": log[-3000:]})
            return False
        hits = forbidden_tokens(module)
        axioms, bad = audit_axioms(module, names)
        self.cov["axioms"] = {k.split(".")[-1]: v for k, v in axioms.items()}
        if hits or bad:
            self.broken.append({"stage": "prove-audit", "module": module, "forbidden": hits, "axioms": bad})
            return False
        if self.tier == "thorough":
            rc, out, err = sh(["lake", "env", "leanchecker", module], cwd=LEAN, timeout=3600)
            self.cov["leanchecker"] = "ok" if rc == 0 else (out + err)[-500:]
            if rc != 0:
                self.broken.append({"stage": "leanchecker", "module": module, "log": (out + err)[-2000:]})
                return False
        self.cov["discharged"] += len(names) + extra_obligations
        return True

    # -- stage 3: correspond -----------------------------------------------------------------
    def correspond(self, stream, lines=None, groups=None, classify=None, canon=None, profile="release",
                   timeout=600):
        """Runs the same request lines through rbshim (real crate) and rbmodel (Lean) and diffs."""
        shim = build_harness(profile)
        model = build_model()
        if groups is None:
            a = run_lines(shim, lines, timeout)
            b = run_lines(model, lines, timeout)
            flat = lines
        else:
            ga = run_groups(shim, groups, timeout)
            gb = run_groups(model, groups, timeout)
            a = [x for g in ga for x in g]
            b = [x for g in gb for x in g]
            flat = [x for g in groups for x in g]
        st = self.cov["streams"].setdefault(stream, {"cases": 0, "distinct": 0, "disagreements": 0,
                                                      "distribution": {}})
        seen = set()
        dis = []
        for ln, x, y in zip(flat, a, b):
            st["cases"] += 1
            if canon:
                x, y = canon(x), canon(y)
            seen.add(ln)
            if classify:
                for k in classify(ln, x):
                    st["distribution"][k] = st["distribution"].get(k, 0) + 1
            if x != y:
                dis.append({"request": ln, "impl": x, "model": y})
        st["distinct"] += len(seen)
        st["disagreements"] += len(dis)
        if flat and len(self.cov["samples"]) < 6:
            self.cov["samples"].append({"stream": stream, "request": flat[0][:300], "reply": a[0][:300]})
        if dis:
            dis.sort(key=lambda d: len(d["request"]))
            self.broken.append({"stage": "correspond", "stream": stream, "count": len(dis),
                                "smallest": dis[:5]})
        return dis

    # -- stage 4: search -----------------------------------------------------------------------
    def note_search(self, name, cases, nontrivial=None, **extra):
        s = self.cov["search"].setdefault(name, {"cases": 0, "nontrivial": 0})
        s["cases"] += cases
        s["nontrivial"] += nontrivial if nontrivial is not None else cases
        for k, v in extra.items():
            s[k] = v

    def violation(self, what, replay, found_input=True):
        """Record a violation unless it matches a known finding (then it is a KNOWN-FINDING)."""
        for k in self.kf:
            if k.get("status") == "known" and k.get("property") == self.prop and matches_known(k, replay):
                if k["id"] not in [h["id"] for h in self.known_hits]:
                    self.known_hits.append(k)
                return
        if len([v for v in self.violations if v[2]]) >= 5 and found_input:
            self.cov["violations_suppressed"] = self.cov.get("violations_suppressed", 0) + 1
            return
        h = hashlib.sha256(json.dumps(replay, sort_keys=True, default=str).encode()).hexdigest()[:12]
        path = os.path.join(ROOT, "replays", f"{self.prop}-{h}.json")
        os.makedirs(os.path.dirname(path), exist_ok=True)
        replay = dict(replay)
        replay.update({"property": self.prop, "what": what, "seed": self.seed, "tier": self.tier})
        json.dump(replay, open(path, "w"), indent=1, default=str)
        self.violations.append((what, path, found_input))

    # -- stage 5: decide --------------------------------------------------------------------------
    def finish(self, level="proof", level_text=""):
        # a broken proof / correspondence with no failing input found is still a violation
        if self.broken and not any(v[2] for v in self.violations):
            names = []
            for b in self.broken:
                names.append(b.get("module") or b.get("stream"))
            self.violation("proof or correspondence no longer checks: " + ", ".join(map(str, names)),
                           {"stage": "prove/correspond", "broken": self.broken}, found_input=False)
        elif self.broken:
            # attach the broken obligations to the first replay for context
            pass
        wall = time.time() - self.t0
        cov = self.cov
        cov["trusted_base"] = cov["trusted_base"] or default_trusted_base()
        corr_cases = sum(s["cases"] for s in cov["streams"].values())
        corr_distinct = sum(s["distinct"] for s in cov["streams"].values())
        search_cases = sum(s["cases"] for s in cov["search"].values())
        search_nontriv = sum(s["nontrivial"] for s in cov["search"].values())
        cov["evaluations"] = corr_cases + search_cases
        cov["distinct_nontrivial"] = corr_distinct + search_nontriv
        cov["rule"] = ("correspondence cases are distinct request lines run through both the crate and the Lean "
                       "model; search cases are oracle evaluations on the crate, non-trivial per the stream's own "
                       "rule (see coverage.search.*.rule)")
        cov["traces_validated_against_impl"] = corr_cases
        cov["broken"] = self.broken
        cov["known_findings_hit"] = [k["id"] for k in self.known_hits]
        if not cov["samples"]:
            cov["samples"] = [{"note": "no sample recorded"}]
        ev = {
            "property_id": self.prop, "tier": self.tier, "seed": self.seed, "level": level,
            "coverage": cov, "assumptions": self.assumptions, "wall_s": round(wall, 2),
            "violations": len(self.violations),
        }
        os.makedirs(os.path.join(ROOT, "evidence"), exist_ok=True)
        json.dump(ev, open(os.path.join(ROOT, "evidence", f"{self.prop}.json"), "w"), indent=1, default=str)
        for k in self.known_hits:
            print(f"KNOWN-FINDING: property={self.prop} {k['what']}")
        for what, path, found in self.violations:
            tail = "" if found else " no-failing-input-found"
            print(f"# {what}")
            print(f"VIOLATION property={self.prop} replay={path}{tail}")
        print(f"[{self.prop}] tier={self.tier} seed={self.seed} obligations={cov['obligations']} "
              f"discharged={cov['discharged']} corr={corr_cases} search={search_cases} "
              f"violations={len(self.violations)} known={len(self.known_hits)} wall={wall:.1f}s")
        return 1 if self.violations else 0


def default_trusted_base():
    return [
        "Lean 4.33 kernel; axioms limited to propext, Classical.choice, Quot.sound (audited per theorem)",
        "tools/gen_lean.py + rustybuzz::verif hooks transcribe constants/tables of the compiled crate into RbModel/Gen",
        "correspondence harness (rbshim/rbmodel/check): differential, bounded by the generators",
        "ttf-parser, unicode-* crates, rustc integer semantics are modelled as data/parameters, not verified",
    ]


def load_known_findings():
    p = os.path.join(ROOT, "known_findings.json")
    if not os.path.exists(p):
        return []
    return json.load(open(p)).get("findings", [])


def matches_known(k, replay):
    """A known finding matches only on its specific signature: every key of `signature` must be
    present in the replay with an equal value (or, for `*_re` keys, match as a regex)."""
    sig = k.get("signature") or {}
    if not sig:
        return False
    for key, val in sig.items():
        if key.endswith("_re"):
            got = replay.get(key[:-3])
            if got is None or not re.search(val, str(got)):
                return False
        else:
            if replay.get(key) != val:
                return False
    return True
