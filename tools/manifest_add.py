#!/usr/bin/env python3
"""manifest_add.py <ID> <technique> <level text> <level note>  — register / replace one check in MANIFEST.json"""
import json, subprocess, sys
pid, technique, text, note = sys.argv[1:5]
m = json.load(open('/verif/MANIFEST.json'))
m['checks'] = [c for c in m['checks'] if c['property_id'] != pid]
m['checks'].append({
    "property_id": pid, "quick_cmd": f"./check {pid} --tier quick", "thorough_cmd": f"./check {pid} --tier thorough",
    "evidence_file": f"evidence/{pid}.json", "replay_cmd_template": f"./check {pid} --replay {{path}}", "engine": "lean-model",
    "level_claimed": {"category": "proof", "text": text, "design_ref": f"DESIGN.md §5 {pid}"},
    "level_note": note, "technique": technique})
m['checks'].sort(key=lambda c: c['property_id'])
m['not_applicable'] = [x for x in m.get('not_applicable', []) if x['property_id'] != pid]
for e in m['engines']:
    e['serves_properties'] = sorted(set(e['serves_properties'] + [pid]))
m['hooks']['source_commits'] = [l.split()[0] for l in subprocess.check_output(
    ['git', '-C', '/repo', 'log', '--format=%H %s'], text=True).strip().split('\n') if 'verif hooks' in l][::-1]
json.dump(m, open('/verif/MANIFEST.json', 'w'), indent=1, ensure_ascii=False)
print("registered", pid, "checks:", [c['property_id'] for c in m['checks']])
