#!/bin/bash
# seedtest.sh <seed-name> <property ids...>   — confirm a seeded change (suite passes, demo fails with / passes without), then run our checks against it
# layout: /tmp/seed/<name>/repo (worktree with the change applied), /tmp/seed/<name>/out/{patch.diff,seed_demo.rs,notes.md}
set -u
name=$1; shift
S=/tmp/seed/$name
W=$S/repo
cd $W || exit 2
demo=$S/out/seed_demo.rs; [ -f "$demo" ] || demo=$(ls $S/out/*.rs 2>/dev/null | head -1)
where=tests
grep -q "fn main" "$demo" 2>/dev/null && ! grep -q "#\[test\]" "$demo" && where=examples
rm -f tests/seed_demo.rs examples/seed_demo.rs
git checkout -q -- . 2>/dev/null
echo "== baseline (no change): demo"
cp "$demo" $where/seed_demo.rs
if [ $where = tests ]; then cargo test --offline --test seed_demo 2>&1 | grep -E "^test result|panicked|error" | head -5; else cargo run --offline --example seed_demo 2>&1 | tail -3; fi
rm -f $where/seed_demo.rs
echo "== with change: existing suite"
git apply $S/out/patch.diff || { echo "PATCH DOES NOT APPLY"; exit 3; }
cargo test --workspace --no-fail-fast --offline 2>&1 | grep -E "^test result|FAILED|failed" | head -6
echo "== with change: demo"
cp "$demo" $where/seed_demo.rs
if [ $where = tests ]; then cargo test --offline --test seed_demo 2>&1 | grep -E "^test result|panicked|error" | head -5; else cargo run --offline --example seed_demo 2>&1 | tail -3; fi
rm -f $where/seed_demo.rs
git checkout -q -- .
echo "== our checks against the change (applied to /repo)"
cd /verif
git -C /repo apply $S/out/patch.diff || { echo "PATCH DOES NOT APPLY TO /repo"; exit 3; }
for p in "$@"; do
  ./check $p > /tmp/seed/$name/check_$p.log 2>&1; rc=$?
  echo "check $p rc=$rc: $(grep -c '^VIOLATION' /tmp/seed/$name/check_$p.log) violation lines; $(grep '^VIOLATION' /tmp/seed/$name/check_$p.log | grep -c no-failing-input-found) without input"
  grep "^#" /tmp/seed/$name/check_$p.log | head -3 | cut -c1-200
done
git -C /repo checkout -- .
git -C /repo status --short | head -3
