#!/usr/bin/env python3
"""seedtable.py — regenerate the table of DESIGN.md §6 from seeded/*/meta.json (fields: summary, first, now)"""
import json, glob, re, sys
SUM = {
 "C01a": "apply_stch guard `w_repeating > 0` replaced by `n_repeating > 0`: a zero-advance repeating tile divides by zero",
 "C01b": "Arabic joining table: last (Adlam) segment guard extended past the table: index out of bounds on U+1E94C..1E95F",
 "C02a": "reorder_marks_arabic merges `[start, i+1)` instead of `[start, j)`: non-monotone clusters (RTL, level 1, two modifier marks)",
 "C02b": "Kannada Ra+H+ZWJ special case: merge_clusters range one short, swap without merge",
 "C03a": "delete_glyph backward merge passes mask 0: the deleted glyph's UNSAFE_TO_BREAK is lost",
 "C03b": "setup_masks_fraction flags `[start+1, end)` instead of `[start, end)`",
 "C04a": "CursivePos early exit flags `[prev, idx)` instead of `[prev, idx+1)` UNSAFE_TO_CONCAT (C04b: same change)",
 "C05a": "trailing `leave()` removed from shape_with_plan (empty buffer keeps max_len)",
 "C05b": "clear() no longer resets context_len",
 "C06a": "check_glyph_property tests the mark attachment type before the mark filtering set (C06b: same change)",
 "C06b": "same as C06a (second agent)",
 "C07a": "MarkToBase / MarkToLigature `last_base_until` cache bound +1: a non-mark glyph in mark coverage is never examined as a base",
 "C07b": "CursivePos RightToLeft arm: `x_advance = entry_x` drops the glyph's earlier x_offset",
 "C08a": "Hangul is_combining_t lower bound off by one (U+11A7/11A8)",
 "C08b": "Hangul trailing-jamo range off by one at the upper end",
 "C09a": "MODIFIED_COMBINING_CLASS[202] = Below instead of AttachedBelow",
 "C09b": "MODIFIED_COMBINING_CLASS[232] = Above instead of AboveRight",
 "C10a": "buffer digest not refreshed after a dotted-circle insertion (apply_layout_table)",
 "C10b": "same area as C10a (insert_dotted_circles in ot_shaper_syllabic.rs)",
 "C11a": "enclosing marks (gc=Me) no longer transparent for joining",
 "C11b": "post-context scan skipped for state 5 (fin2/fin3 ALAPH)",
 "C12a": "non-composable <L,V[,T]>: merge_clusters instead of merge_out_clusters (wrong array once the out-buffer is separate)",
 "C12b": "is_combining_t `..=` became `..`: U+11C2 no longer combining",
 "C13a": "delete_glyphs_inplace backward merge stops after one glyph (dropped `old_cluster`)",
 "C13b": "is_default_ignorable: `0x1D173..=0x1D17A` became `..` (U+1D17A shown)",
 "C14a": "setup_masks: user range masks written before the shaper's masks",
 "C14b": "absent features consume mask bits in collect_feature_maps",
 "C15a": "Hangul: syllable extent `end` updated only at level 0: tone-mark reordering depends on the cluster level",
 "C15b": "morx non-contextual range walk `>=` instead of `>` (same change as C17b)",
 "C16a": "glyph_v_origin: `diff >> 1` became `diff / 2` (differs for negative odd diff; needs glyf extents, no vmtx/VORG) (C16b: same change)",
 "C17a": "morx ligature: duplicate-push guard reads the stale slot above the stack top",
 "C17b": "morx non-contextual range walk `>=` instead of `>`",
 "C18a": "tags_from_language: 3-digit region subtags treated as extended-language subtags (`es-419` loses its language) (C18b: same change)",
 "C01c": "apply_string's empty-buffer test moved to apply_layout_table: a buffer emptied by deletions reaches a reverse-chaining lookup (`len - 1` underflow)",
 "C02c": "Hangul tone-mark reordering: merge_out_clusters one glyph short (non-monotone at level 1)",
 "C03c": "apply_stch: unsafe_to_break over the tiles only (`start..end`) instead of the word that decides the tiling (`context..end`)",
 "C04c": "delete_glyphs_inplace backward merge takes the mask of the kept glyph instead of the deleted one",
 "C05c": "ensure(): length limit only checked when the Vec has to grow (capacity survives clear())",
 "C06c": "apply_backward lost its per-glyph feature-mask test (reverse-chaining lookups ignore feature ranges)",
 "C07c": "kerx driver: early skip of simple subtables removed, the arm-level `continue` leaves the buffer reversed",
 "C08c": "handle_variation_selector_cluster: further variation selectors skipped without copying (dropped)",
 "C09c": "decompose_multi_char_cluster scans for a variation selector to the end of the buffer instead of the cluster",
 "C10c": "AlternateSet::apply bypasses ctx.replace_glyph: the new glyph is missing from the buffer digest",
 "C11c": "USE has_arabic_joining: PSALTER_PAHLAVI replaced by INSCRIPTIONAL_PAHLAVI",
 "C12c": "collect_lookup_stages merges the masks of a shared lookup with `&=` (ljmo/vjmo/tjmo sharing one lookup) — same change as C14c",
 "C13c": "space fallback: `scratch_flags = HAS_SPACE_FALLBACK` instead of `|=` (default-ignorable gate bit lost)",
 "C14c": "collect_lookup_stages merges the masks of a lookup shared by two features with `&=` instead of `|=`",
 "C15c": "AAT trak: tracking applied per cluster instead of per grapheme (level-dependent advances)",
 "C16c": "ValueRecord y_advance device delta applied in horizontal runs too",
 "C17c": "remove_deleted_glyphs for morx + GPOS fonts runs before morx: 0xFFFF records stay in the output",
 "C18c": "required feature scheduled at the GSUB stage of the same tag also for GPOS (`info.stage[0]`): GPOS required feature dropped",
 "C01d": "Hangul <L,V,T?> branch: composed-syllable index computed before the is_combining checks (`v - V_BASE` underflows for U+1160 in checked builds)",
 "C02d": "delete_glyphs_inplace backward-merge test reads `info[i-1]` instead of `info[j-1]` (smallest cluster lost in backward runs)",
 "C03d": "ValueRecord x_advance device branch no longer reports `worked` (PairPos flags nothing when kerning comes only from a device delta)",
 "C04d": "_set_glyph_flags two-sided variant: second min-cluster scan no longer carries the first minimum (wrong cluster left unflagged in descending buffers)",
 "C05d": "clear() no longer truncates info/pos (guess_segment_properties / ensure_native_direction scan stale records)",
 "C06d": "required feature's stage recorded only after the early `continue` (a required feature with a known, unlisted tag runs in stage 0)",
 "C07d": "MarkToLigature component clamp `min(mark_comp-1, n)` instead of `n-1` (mark left unattached)",
 "C08d": "Thai/Lao SARA AM mark shift loop runs forwards again (overlap: mark duplicated / lost with two or more marks)",
 "C09d": "recompose: starter update keyed on `!is_unicode_mark(prev)` instead of combining class 0 (composition across a ccc-0 mark)",
 "C10d": "digest add_range saturation test `> mask_bits()` instead of `>= mask_bits() - 1`",
 "C11d": "Arabic shaper no longer chosen for Arabic script when the font's GSUB has only a DFLT script record",
 "C12d": "planner: downgrade to the dumber shaper keyed on `has_morx` instead of `apply_morx` (vertical Hangul on GSUB+morx fonts)",
 "C13d": "zero_width_default_ignorables skips glyphs whose advance is already zero (stale offsets kept)",
 "C14d": "apply_backward feature-mask test `&` became `|` (ranged features ignored by reverse-chaining lookups)",
 "C15d": "set_cluster ORs the whole mask of the deleted glyph (feature bits leak into neighbours, level-dependent)",
 "C16d": "rotate_chars tests the font for the ORIGINAL code point instead of the mirrored one (.notdef for unmirrorable pairs)",
 "C17d": "morx drive(): state no longer reset to START_OF_TEXT when a switched-off range is skipped",
 "C18d": "F_GLOBAL_SEARCH fallback lost its `!found` guard (vert of another language system wins in vertical text)",
 "C01e": "Indic OT_MPst look-behind lost its `i > start` guard (pre-base matra first in a syllable without dotted circle: index underflow)",
 "C02e": "USE repha reordering merges clusters over (start, i) before the index is adjusted (one glyph short)",
 "C03e": "Khmer reorder pause returns false (stale set digest after dotted-circle insertion / reorder)",
 "C04e": "setup_masks_fraction flags unsafe_to_concat from `start` instead of `start - 1` (reversed buffers)",
 "C05e": "clear() no longer resets `idx` (dotted-circle insertion copies cur(0) from a stale index after reuse)",
 "C06e": "apply_lookup: positions of glyphs inserted by a growing nested lookup all set to `match_positions[idx]+1`",
 "C07e": "MarkToMark back-search masks lookup props with `!IGNORE_MARKS` instead of `!IGNORE_FLAGS`",
 "C08e": "Hebrew presentation-form table: AYIN / FINAL PE dagesh rows swapped",
 "C09e": "normalizer reordering round starts at i = 1 (first mark run of the buffer never reordered)",
 "C10e": "Coverage format-1 collect stops at the first descending glyph id (unsorted coverage: digest misses glyphs)",
 "C11e": "UnicodeBuffer::clear() clears only the pre-context",
 "C12e": "Hangul shaper normalization preference AUTO instead of NONE (jamo composed by the normalizer with no font check for the syllable's features)",
 "C13e": "hide_default_ignorables: PRESERVE|REMOVE flag precedence changed",
 "C14e": "may_match: feature-mask test moved below the match-function early return (context input glyphs outside the range accepted)",
 "C15e": "insert_dotted_circle drops the `cluster` assignment (dotted circle gets cluster 0)",
 "C16e": "fallback SPACE_FIGURE vertical arm writes x_advance instead of y_advance",
 "C17e": "morx ligature action: match_length taken modulo 64 (long ligature stacks wrap)",
 "C18e": "find_language_feature: `?` inside the loop aborts the search on a dangling feature index",
}
rows = []
for f in sorted(glob.glob("/verif/seeded/*/meta.json")):
    m = json.load(open(f))
    oc = m["our_checks"]
    first = "missed" if "MISSED" in oc.split("Strengthened")[0].split("after ")[0] else ("no-input" if "no-failing-input-found" in oc.split("Strengthened")[0] else "input")
    now = "input" if ("now caught with" in oc or first == "input" or re.search(r"exits 1 with|caught by the new|concrete inputs\)", oc)) else first
    how = oc
    rows.append(f"| {m['id']} | {m['breaks_property']} | {SUM.get(m['id'], '')} | {first} | {now} | {how} |")
hdr = "| seed | property | the change | first run | now | what catches it / what was strengthened |\n|---|---|---|---|---|---|\n"
table = hdr + "\n".join(rows)
p = "/verif/DESIGN.md"
s = open(p).read()
if "SEED_TABLE_PLACEHOLDER" in s:
    s = s.replace("SEED_TABLE_PLACEHOLDER", "<!-- seed table begin -->\n" + table + "\n<!-- seed table end -->")
else:
    s = re.sub(r"<!-- seed table begin -->.*?<!-- seed table end -->", lambda _: "<!-- seed table begin -->\n" + table + "\n<!-- seed table end -->", s, flags=re.S)
open(p, "w").write(s)
print(len(rows), "rows")
