"""C07 — the search for the attachment target (which glyph a mark hangs on, which glyph a cursive glyph joins).

Fonts whose GDEF glyph classes are drawn INDEPENDENTLY of the coverages of the attachment subtables: the mark
coverage may hold base / ligature / unclassified / default-ignorable glyphs, the base coverage may hold marks,
lookups carry IgnoreBaseGlyphs / IgnoreLigatures / IgnoreMarks / mark-filtering-set / mark-attachment-type flags,
several subtables per lookup, several lookups per font, MarkToLigature after real GSUB ligatures (marks inside
and after the ligature), default ignorables in the text.

Two users:
  * `expected()` is the python oracle: it computes, from the recipe alone (GDEF + flags + coverages, by the
    OpenType rules as HarfBuzz reads them), which glyph every glyph is attached to and with which anchors.  The
    implementation's attach chain is never read: only the public shape() output is, through the pen model.
  * `model_tokens()` flattens the same recipe for the Lean model (`gp pos …` correspondence stream).
"""
import fontbuild

NG = 20
GEN = list(range(1, 12))          # ordinary glyphs
COMP = [12, 13, 14]               # ligature components (never GDEF marks)
LIGS = [15, 16]                   # ligature glyphs
MULT_SRC = 11                     # the glyph a MultipleSubst lookup expands
DI = {17: 0x2060, 18: 0x200C, 19: 0x00AD}      # default-ignorable characters with glyphs of their own
ALL = list(range(1, NG))

BASE_GLYPH, LIGATURE, MARK = 2, 4, 8
F_RTL, F_IGN_BASE, F_IGN_LIG, F_IGN_MARKS, F_IGN_FLAGS, F_USE_SET, F_ATT_MASK = 1, 2, 4, 8, 0xE, 0x10, 0xFF00
CHAIN_MAX = 32767
PRESERVE_DI = 4                   # BufferFlags::PRESERVE_DEFAULT_IGNORABLES


def cp_of(g):
    return DI.get(g, 0xE000 + g - 1)


def cmap():
    return {cp_of(g): g for g in ALL}


def ra(r):
    return (r.range(-500, 500), r.range(-500, 500))


# ------------------------------------------------------------------------------------------------
# font generator

def rand_flag(r, nsets):
    k = r.below(12)
    if k < 4:
        f = 0
    elif k < 6:
        f = F_IGN_MARKS
    elif k < 7:
        f = F_IGN_BASE
    elif k < 8:
        f = F_IGN_LIG
    elif k < 9:
        f = r.choice([F_IGN_BASE | F_IGN_LIG, F_IGN_BASE | F_IGN_MARKS, F_IGN_LIG | F_IGN_MARKS, F_IGN_FLAGS])
    elif k < 11:
        f = r.range(1, 2) << 8                       # mark attachment type
    else:
        f = 0
    mset = None
    if nsets and r.chance(1, 4):
        mset = r.below(nsets); f |= F_USE_SET
    if r.chance(1, 4):
        f |= F_RTL
    return f, mset


def subset(r, pool, num, den, least=1):
    s = [g for g in pool if r.chance(num, den)]
    while len(s) < least:
        g = r.choice(pool)
        if g not in s: s.append(g)
    return s


def target_font(r, kinds=None, cursive=False):
    """-> (recipe, sem).  sem = {"gdef": {gid: class}|None, "attach": {gid: cls}, "sets": [[gid]], "gsub": {...}|None,
    "lookups": [{"type", "flag", "set", "subs": [...]}]}"""
    adv = [0] + [r.choice([0, r.range(300, 900), r.range(300, 900)]) for _ in range(NG - 1)]
    rec = {"num_glyphs": NG, "cmap": cmap(), "advances": adv}
    if r.chance(1, 2):
        rec["vadvances"] = [0] + [r.range(700, 1200) for _ in range(NG - 1)]
    if r.chance(1, 4):
        rec["vorg"] = {"default": r.range(600, 900), "glyphs": {g: r.range(500, 950) for g in r.sample(ALL, 4)}}
    sem = {"gdef": None, "attach": {}, "sets": [], "gsub": None, "lookups": []}
    if not r.chance(1, 10):
        w = r.choice([(30, 10, 40, 15, 5), (20, 20, 30, 25, 5), (45, 5, 45, 5, 0)])     # base lig mark none component
        cls = {}
        for g in ALL:
            k = r.below(100)
            c = 1 if k < w[0] else 2 if k < w[0] + w[1] else 3 if k < w[0] + w[1] + w[2] else 0 if k < 100 - w[4] else 4
            if g in COMP and c == 3:
                c = r.choice([1, 0, 2])
            if c: cls[g] = c
        gd = {"classes": cls}
        sem["gdef"] = cls
        marks = [g for g in ALL if cls.get(g) == 3]
        if r.chance(2, 3) and marks:
            sem["attach"] = {g: r.range(1, 2) for g in marks if r.chance(3, 4)}
            if sem["attach"]: gd["mark_attach"] = dict(sem["attach"])
        if r.chance(1, 2):
            sem["sets"] = [sorted(subset(r, ALL, 1, 2)) for _ in range(r.range(1, 2))]
            gd["mark_sets"] = [list(s) for s in sem["sets"]]
        rec["gdef"] = gd
    # GSUB: real ligatures under `ccmp` (applied in every direction)
    if r.chance(1, 2):
        flag = F_IGN_MARKS if r.chance(2, 3) else 0
        set12 = r.shuffle([([13, 14], 16), ([13], 15)])
        ligsets = {12: set12}
        if r.chance(1, 2):
            ligsets[13] = [([14], 15)]
        # MultipleSubst (applied first): glyph 11 becomes a sequence of ordinary glyphs
        mult = {MULT_SRC: [r.choice(GEN[:-1]) for _ in range(r.range(2, 3) if r.chance(5, 6) else 1)]} if r.chance(1, 2) else {}
        # MultipleSubst applied AFTER the ligature lookup: a ligature glyph is expanded again.  Every output keeps the
        # ligature id and is a "ligature base" (component number 0) of that id; the ligature glyph itself is often among them
        mult_after = {}
        if r.chance(1, 2):
            for lg in LIGS:
                if r.chance(2, 3):
                    mult_after[lg] = [r.choice([lg, lg] + GEN[:-1]) for _ in range(r.range(2, 3))]
        sem["gsub"] = {"flag": flag, "ligsets": ligsets, "mult": mult, "mult_after": mult_after}
        firsts = sorted(ligsets)
        lks = []
        if mult:
            lks.append({"type": 2, "flag": 0, "subtables": [{"coverage": [MULT_SRC], "sequences": [mult[MULT_SRC]]}]})
        lks.append({"type": 4, "flag": flag, "subtables": [{
            "coverage": firsts,
            "ligsets": [[{"components": c, "glyph": g} for c, g in ligsets[f]] for f in firsts]}]})
        if mult_after:
            srcs = sorted(mult_after)
            lks.append({"type": 2, "flag": 0, "subtables": [{"coverage": srcs, "sequences": [mult_after[g] for g in srcs]}]})
        rec["gsub"] = {"features": [{"tag": "ccmp", "lookups": list(range(len(lks)))}], "lookups": lks}
    lookups = []
    nl = r.range(1, 3) if r.chance(3, 4) else r.range(4, 5)
    for _ in range(nl):
        typ = 3 if cursive else r.choice(kinds or [4, 4, 4, 5, 5, 6, 6])
        flag, mset = rand_flag(r, len(sem["sets"]))
        subs, ssem = [], []
        for _ in range(2 if r.chance(1, 4) else 1):
            if typ == 3:
                cv = subset(r, ALL, 3, 5, 2)
                ee = {g: (ra(r) if r.chance(7, 8) else None, ra(r) if r.chance(7, 8) else None) for g in cv}
                subs.append({"coverage": cv, "entry_exit": [ee[g] for g in cv]})
                ssem.append({"ee": ee})
                continue
            k = r.range(1, 3)
            mk = subset(r, ALL, 9, 20, 1)
            marks = {g: (r.below(k), ra(r)) for g in mk}
            if typ == 4:
                bs = subset(r, ALL, 9, 20, 1)
                bases = {g: [ra(r) if r.chance(7, 8) else None for _ in range(k)] for g in bs}
                subs.append({"mark_coverage": mk, "base_coverage": bs, "class_count": k,
                             "marks": [marks[g] for g in mk], "bases": [bases[g] for g in bs]})
                ssem.append({"marks": marks, "bases": bases})
            elif typ == 5:
                lg = sorted(set(subset(r, GEN + COMP + list(DI), 1, 4, 0) + [g for g in LIGS if r.chance(5, 6)])) or [LIGS[0]]
                ligs = {g: [[ra(r) if r.chance(7, 8) else None for _ in range(k)] for _ in range(r.range(1, 3))] for g in lg}
                subs.append({"mark_coverage": mk, "lig_coverage": lg, "class_count": k,
                             "marks": [marks[g] for g in mk], "ligs": [ligs[g] for g in lg]})
                ssem.append({"marks": marks, "ligs": ligs})
            else:
                m2 = subset(r, ALL, 9, 20, 1)
                mark2 = {g: [ra(r) if r.chance(7, 8) else None for _ in range(k)] for g in m2}
                subs.append({"mark1_coverage": mk, "mark2_coverage": m2, "class_count": k,
                             "marks": [marks[g] for g in mk], "mark2": [mark2[g] for g in m2]})
                ssem.append({"marks": marks, "mark2": mark2})
        lk = {"type": typ, "flag": flag, "subtables": subs}
        if mset is not None: lk["mark_set"] = mset
        lookups.append(lk)
        sem["lookups"].append({"type": typ, "flag": flag, "set": mset, "subs": ssem})
    rec["gpos"] = {"features": [{"tag": "mark", "lookups": list(range(len(lookups)))}], "lookups": lookups}
    return rec, sem


def stripped(rec):
    """the same font with every GPOS subtable removed (GPOS still present: no fallback positioning)"""
    out = dict(rec)
    out["gpos"] = {"features": rec["gpos"]["features"],
                   "lookups": [{"type": lk["type"], "flag": lk["flag"], "subtables": []} for lk in rec["gpos"]["lookups"]]}
    return out


def is_mark_gid(sem, g):
    return sem["gdef"] is not None and sem["gdef"].get(g) == 3


def target_text(r, sem):
    """random glyph strings: every glyph may occur anywhere; glyphs of the mark coverages and GDEF marks are
    favoured after a non-mark glyph; ligature sequences (with marks inside when the GSUB lookup skips marks)"""
    covered = sorted({g for lk in sem["lookups"] for s in lk["subs"] for g in s.get("marks", s.get("ee", {}))})
    gmarks = [g for g in ALL if is_mark_gid(sem, g)]
    t = []
    if r.chance(1, 8):
        t.append(r.choice(covered or ALL))
    for _ in range(r.range(1, 5)):
        k = r.below(10)
        if sem["gsub"] and k < 4:
            seq = r.choice([[12, 13], [12, 13, 14], [13, 14], [12, 13, 13], [12, 12, 13, 14]])
            for c in seq:
                t.append(c)
                if gmarks and r.chance(1, 3):
                    t += [r.choice(gmarks) for _ in range(r.range(1, 2))]
        elif sem["gsub"] and sem["gsub"].get("mult") and k < 6:
            t.append(MULT_SRC)
        else:
            t.append(r.choice(ALL if k < 8 else (GEN + LIGS)))
        for _ in range(r.choice([0, 1, 1, 2, 2, 3, 4])):
            k = r.below(10)
            t.append(r.choice(covered) if k < 5 and covered else r.choice(gmarks) if k < 8 and gmarks
                     else r.choice(list(DI)) if k < 9 else r.choice(ALL))
    # a default ignorable right after a ligature component (only GDEF marks in between) would be skipped by the
    # GSUB matcher and relabelled by ligate_input: outside what the python GSUB model covers — replace it
    # (in both orders: bottom-to-top text is reversed before GSUB)
    if sem["gsub"]:
        for _ in range(2):
            for i, g in enumerate(t):
                if g in DI:
                    j = i - 1
                    while j >= 0 and (is_mark_gid(sem, t[j]) or t[j] in DI or (t[j] == MULT_SRC and sem["gsub"].get("mult"))):
                        j -= 1             # (the MultipleSubst source may expand to marks only)
                    if j >= 0 and t[j] in (12, 13):
                        t[i] = r.choice(GEN[:-1])
            t.reverse()
    return t


# ------------------------------------------------------------------------------------------------
# the reference: GDEF properties, lookup-flag filter, GSUB ligatures, target search

def props_of(sem, g, ligated=False):
    if sem["gdef"] is None:
        return LIGATURE if ligated else BASE_GLYPH      # synthesized classes: no text character here is a mark
    c = sem["gdef"].get(g, 0)
    if c == 1: return BASE_GLYPH
    if c == 2: return LIGATURE
    if c == 3: return MARK | (sem["attach"].get(g, 0) << 8)
    return 0


def passes(sem, g, props, flag, mset):
    """lookup-flag filter (OpenType LookupFlag semantics): False = the lookup does not see this glyph"""
    if props & flag & F_IGN_FLAGS:
        return False
    if props & MARK:
        if flag & F_USE_SET:
            return sem["gdef"] is not None and mset is not None and mset < len(sem["sets"]) and g in sem["sets"][mset]
        if flag & F_ATT_MASK:
            return (flag & F_ATT_MASK) == (props & F_ATT_MASK)
    return True


class G:
    __slots__ = ("g", "props", "lig_id", "comp", "is_lig", "src", "mult")

    def __init__(self, g, props, src):
        self.g, self.props, self.lig_id, self.comp, self.is_lig, self.src, self.mult = g, props, 0, 0, False, src, False


def run_gsub(sem, B):
    """buffer after GSUB: list of G (src = indices of the input glyphs it came from)"""
    buf = [G(g, props_of(sem, g), [i]) for i, g in enumerate(B)]
    gs = sem["gsub"]
    if not gs:
        return buf
    if gs.get("mult"):
        exp = []
        for x in buf:
            seq = gs["mult"].get(x.g)
            if seq is None:
                exp.append(x)
            elif len(seq) == 1:                      # in place, not "multiplied"
                exp.append(G(seq[0], props_of(sem, seq[0]), x.src))
            else:
                for ci, g in enumerate(seq):
                    y = G(g, props_of(sem, g), x.src); y.mult, y.comp = True, ci
                    exp.append(y)
        buf = exp
    flag = gs["flag"]
    out, i, next_id = [], 0, 1
    while i < len(buf):
        cur = buf[i]
        done = False
        if cur.g in gs["ligsets"] and passes(sem, cur.g, cur.props, flag, None):
            for comps, lig in gs["ligsets"][cur.g]:
                pos, j, ok = [i], i, True
                for c in comps:
                    j += 1
                    while j < len(buf) and not passes(sem, buf[j].g, buf[j].props, flag, None):
                        j += 1
                    if j >= len(buf) or buf[j].g != c:
                        ok = False; break
                    pos.append(j)
                if not ok:
                    continue
                lid = next_id; next_id += 1
                L = G(lig, props_of(sem, lig, True), [k for p in pos for k in buf[p].src])
                L.lig_id, L.comp, L.is_lig = lid, 0, True
                out.append(L)
                for ci in range(len(pos) - 1):
                    for k in range(pos[ci] + 1, pos[ci + 1]):
                        m = buf[k]; m.lig_id, m.comp = lid, ci + 1
                        out.append(m)
                i = pos[-1] + 1
                done = True
                break
        if not done:
            out.append(cur); i += 1
    ma = gs.get("mult_after")
    if ma:
        # Sequence::apply: a glyph that carries a ligature id keeps its ligature properties on every output ("if is attached
        # to a ligature, don't disturb that"); otherwise the outputs are numbered 0, 1, 2, ... like any multiplied glyph
        exp = []
        for x in out:
            seq = ma.get(x.g)
            if seq is None:
                exp.append(x); continue
            for ci, g in enumerate(seq):
                y = G(g, props_of(sem, g), x.src); y.mult = True
                if x.lig_id:
                    y.lig_id, y.comp, y.is_lig = x.lig_id, x.comp, x.is_lig
                else:
                    y.comp = ci
                    y.is_lig = x.is_lig
                exp.append(y)
        out = exp
    return out


def later_of_sequence(buf, j):
    """a glyph of a MultipleSubst sequence other than its first: a mark attaches to the first glyph of the
    sequence (unless the font lists the later glyph as a base, or a mark interrupts the sequence)"""
    x = buf[j]
    if not x.mult or x.comp == 0 or j == 0:
        return False
    y = buf[j - 1]
    return not (y.props & MARK) and y.mult and x.lig_id == y.lig_id and x.comp == y.comp + 1


def is_di(x):
    return x.g in DI and not x.is_lig


def _t(a):
    return None if a is None else (a[0], a[1])


def expected(sem, B):
    """-> (buffer after GSUB, att, alt).  att = {index: (target index, own anchor, target anchor, kind)} by the OpenType
    rules: a lookup sees only glyphs its flag does not filter; the attachment point of a mark is the nearest preceding
    glyph that is not a mark by GDEF (default ignorables do not count; of a MultipleSubst sequence only the first
    glyph counts unless the subtable's base coverage lists the later one); mark-to-mark looks at the glyph right
    before (marks the lookup filters and default ignorables do not count) and needs it to be a mark of the same
    ligature component; later lookups override earlier ones, inside a lookup the first subtable that applies wins.
    alt = {index: set of OTHER outcomes (None = unattached)} that the shared last-base cache of a MarkToBase lookup
    with several subtables can produce: there the search may have run under another subtable's base coverage, so the
    target may be any glyph between the nearest one every subtable admits and the current glyph that SOME subtable
    admits (finding class markbase-cache-shared-across-subtables); empty for every other lookup."""
    buf = run_gsub(sem, B)
    n = len(buf)
    att = {}
    poss = {}                     # index -> set of possible final outcomes, once they differ from {att}
    for lk in sem["lookups"]:
        flag, mset, typ = lk["flag"], lk["set"], lk["type"]
        multi4 = typ == 4 and len(lk["subs"]) > 1
        for i in range(n):
            cur = buf[i]
            if not passes(sem, cur.g, cur.props, flag, mset):
                continue
            own = None
            for s in lk["subs"]:
                res = None
                if typ == 3:
                    if cur.g not in s["ee"] or s["ee"][cur.g][0] is None:
                        continue
                    j = i - 1
                    while j >= 0 and (not passes(sem, buf[j].g, buf[j].props, flag, mset) or is_di(buf[j])):
                        j -= 1
                    if j < 0 or buf[j].g not in s["ee"] or s["ee"][buf[j].g][1] is None:
                        continue
                    res = (j, _t(s["ee"][cur.g][0]), _t(s["ee"][buf[j].g][1]), "curs")
                elif cur.g in s["marks"]:
                    cls, ma = s["marks"][cur.g]
                    if typ in (4, 5):
                        j = i - 1
                        while j >= 0 and (buf[j].props & MARK or is_di(buf[j])
                                          or (typ == 4 and later_of_sequence(buf, j) and buf[j].g not in s["bases"])):
                            j -= 1
                        if j < 0:
                            continue
                        t = buf[j]
                        if typ == 4:
                            if t.g not in s["bases"]:
                                continue
                            ba = s["bases"][t.g][cls]
                        else:
                            if t.g not in s["ligs"]:
                                continue
                            rows = s["ligs"][t.g]
                            if t.lig_id and t.lig_id == cur.lig_id and cur.comp > 0:
                                ci = min(cur.comp, len(rows)) - 1
                            else:
                                ci = len(rows) - 1
                            ba = rows[ci][cls]
                    else:
                        f2 = flag & ~F_IGN_FLAGS
                        j = i - 1
                        while j >= 0 and (not passes(sem, buf[j].g, buf[j].props, f2, mset) or is_di(buf[j])):
                            j -= 1
                        if j < 0 or not buf[j].props & MARK:
                            continue
                        t = buf[j]
                        if cur.lig_id == t.lig_id:
                            ok = cur.lig_id == 0 or cur.comp == t.comp
                        else:
                            ok = (cur.lig_id > 0 and cur.comp == 0) or (t.lig_id > 0 and t.comp == 0)
                        if not ok or t.g not in s["mark2"]:
                            continue
                        ba = s["mark2"][t.g][cls]
                    if ba is None or i - j > CHAIN_MAX:
                        continue
                    res = (j, _t(ma), _t(ba), "mark")
                if res:
                    own = res
                    break
            results = {own}
            if multi4 and any(cur.g in s["marks"] for s in lk["subs"]):
                # candidate targets under the shared cache: from the current glyph back to the nearest glyph that
                # every subtable admits, every glyph that some subtable admits; plus "none" when no glyph is admitted
                # by every subtable
                cands, j, closed = [], i - 1, False
                while j >= 0:
                    x = buf[j]
                    if not (x.props & MARK or is_di(x)):
                        if not later_of_sequence(buf, j):
                            cands.append(j); closed = True; break
                        adm = [x.g in s["bases"] for s in lk["subs"]]
                        if any(adm): cands.append(j)
                        if all(adm): closed = True; break
                    j -= 1
                outs = set() if closed else {None}
                for j in cands:
                    r = None
                    for s in lk["subs"]:
                        if cur.g in s["marks"] and buf[j].g in s["bases"]:
                            cls, ma = s["marks"][cur.g]
                            ba = s["bases"][buf[j].g][cls]
                            if ba is not None and i - j <= CHAIN_MAX:
                                r = (j, _t(ma), _t(ba), "mark"); break
                    outs.add(r)
                results |= outs
            if len(results) > 1 or i in poss:
                before = poss.get(i, {att.get(i)})
                poss[i] = {r if r is not None else o for o in before for r in results}
            if own:
                att[i] = own
    alt = {i: {o for o in v if o != att.get(i)} for i, v in poss.items()}
    return buf, att, {i: v for i, v in alt.items() if v}


# ------------------------------------------------------------------------------------------------
# the oracle on shape() output

def shape_req(fid, d, text, flags):
    t = ",".join(f"{cp_of(g):x}:{i}" for i, g in enumerate(text)) or "-"
    return f"shape {fid} {d} - - {flags} 0 - - - {t}"


def parse_out(o):
    t = o.split()
    if not t or t[0] != "ok":
        return None
    out = []
    for x in t[2:]:
        g, cl, fl, xa, ya, xo, yo = x.split(":")
        out.append((int(g), int(xa), int(ya), int(xo), int(yo)))
    return out


CLS_CACHE = "markbase-cache-shared-across-subtables"
CLS_CURS_MARK = "cursive-on-gdef-mark"
CLS_CURS_REUSE = "cursive-exit-reused"
CLASS_TEXT = {
    CLS_CACHE: "the subtables of one MarkToBase lookup share the last-base cache, but whether a later glyph of a MultipleSubst "
               "sequence is a base depends on each subtable's base coverage: a subtable reuses the base found under "
               "another subtable's coverage and the mark hangs on a glyph other than the nearest one the applying "
               "subtable admits (HarfBuzz's c->last_base is shared in the same way; model theorem "
               "known_C07_base_cache_shared)",
    CLS_CURS_MARK: "cursive pair whose advance-carrying glyph (exit side; entry side in right-to-left text) is a mark by GDEF: "
                   "zero_mark_widths_by_gdef zeroes, after the lookup, the advance the lookup computed, so entry and "
                   "exit anchors do not coincide on the main axis (HarfBuzz zeroes mark advances after GPOS as well)",
    CLS_CURS_REUSE: "a default ignorable is never the exit side of a cursive pair but may be the entry side: one exit glyph "
                    "then serves several entries and the later pair overwrites what the earlier one stored on it, the "
                    "earlier pair's anchors no longer coincide (same iterator rules in HarfBuzz)",
}


def check(sem, text, d, flags, so, s0, stats=None):
    """so = reply on the font, s0 = reply on the same font without GPOS subtables.
    -> (why, found): why = description of the first departure from the expected attachments that is NOT one of the
    three upstream-inherited classes (None when there is none); found = [(class, description)] of departures that are:
    each is decided from the concrete glyph pair — the mark sits exactly on one of the alternative targets the shared
    cache allows; the failing axis of a cursive pair is the main axis and the glyph carrying the advance is a GDEF
    mark; the failing cursive pair is not the last one that used its exit glyph."""
    out, out0 = parse_out(so), parse_out(s0)
    if out is None or out0 is None:
        return f"shape() failed on a target-search font: {so[:80]} / {s0[:80]}", []
    B = list(reversed(text)) if d == "b" else list(text)
    buf, att, alt = expected(sem, B)
    keep = [k for k in range(len(buf)) if flags & PRESERVE_DI or not is_di(buf[k])]
    vis = list(reversed(keep)) if d == "r" else keep            # output order -> buffer index
    want = [buf[k].g for k in vis]
    if [x[0] for x in out] != want or [x[0] for x in out0] != want:
        return (f"glyph sequence after GSUB differs from the reference ligature model: got {[x[0] for x in out]}, "
                f"expected {want} (dir {d})"), []
    where = {k: o for o, k in enumerate(vis)}
    x = y = 0
    org = []
    for g, xa, ya, xo, yo in out:
        org.append((x + xo, y + yo)); x += xa; y += ya
    if stats is not None:
        stats["shapes"] += 1; stats["per_dir"][d] += 1
        stats["attached"] += len(att)
        if len(buf) < len(B): stats["with_ligature"] += 1
        if any(x.mult for x in buf): stats["with_multiple_subst"] += 1
        if any(x.mult and x.lig_id for x in buf): stats["with_multiplied_ligature"] = stats.get("with_multiplied_ligature", 0) + 1
        for i, (j, _, _, kind) in att.items():
            if kind == "mark" and buf[i].lig_id and buf[i].lig_id == buf[j].lig_id and buf[i].comp == 0:
                stats["attached_same_ligature_id_component_0"] = stats.get("attached_same_ligature_id_component_0", 0) + 1
        if alt: stats["shared_cache_alternatives_possible"] += 1
        for i, (j, _, _, kind) in att.items():
            if not buf[i].props & MARK: stats["attached_non_mark"] += 1
            if kind == "mark" and any(not (buf[k].props & MARK) for k in range(j + 1, i)): stats["default_ignorable_between"] += 1
            if buf[i].lig_id and not buf[i].is_lig: stats["mark_inside_ligature"] += 1
    has_curs = any(lk["type"] == 3 for lk in sem["lookups"])
    last_user = {}
    for k in sorted(att):
        if att[k][3] == "curs": last_user[att[k][0]] = k
    horiz = d in "lr"
    found = []
    if not has_curs:
        for o, (a, b) in enumerate(zip(out, out0)):
            if a[1:3] != b[1:3]:
                return (f"advance of output glyph {o} (glyph {a[0]}) is {a[1:3]} but {b[1:3]} without the attachment "
                        f"lookups (mark attachment must not change advances), dir {d}"), found

    def holds(k, outcome):
        """does the output show glyph k in this state (None = unattached; else linked to outcome[0])"""
        o = where[k]
        if outcome is None:
            return out[o][3:5] == out0[o][3:5]
        j, ma, ba, _ = outcome
        if j not in where:
            return True
        oj = where[j]
        return (org[o][0] + ma[0], org[o][1] + ma[1]) == (org[oj][0] + ba[0], org[oj][1] + ba[1])

    for k in keep:
        o = where[k]
        if k in att and att[k][3] == "curs":
            j, ma, ba, kind = att[k]
            if j not in where or (is_di(buf[k]) and not flags & PRESERVE_DI):
                continue
            oj = where[j]
            p, q = (org[o][0] + ma[0], org[o][1] + ma[1]), (org[oj][0] + ba[0], org[oj][1] + ba[1])
            # cross axis always; main axis when the glyphs the lookup skipped in between ended with no advance
            lo, hi = min(o, oj), max(o, oj)
            clear = all(out[m][1 if horiz else 2] == 0 for m in range(lo + 1, hi))
            main, cross = (0, 1) if horiz else (1, 0)
            if stats is not None and not clear: stats["cursive_cross_axis_only"] += 1
            bad_cross = p[cross] != q[cross]
            bad_main = clear and p[main] != q[main]
            if not (bad_cross or bad_main):
                continue
            desc = (f"cursive pair, entry side buffer index {k} (glyph {buf[k].g}, GDEF props {buf[k].props}) entry point {p}, "
                    f"exit side index {j} (glyph {buf[j].g}, GDEF props {buf[j].props}) exit point {q}, "
                    f"{'cross' if bad_cross else 'main'} axis, dir {d}")
            carrier = k if d == "r" else j
            if last_user[j] != k:
                found.append((CLS_CURS_REUSE, desc + f"; exit glyph used again by the entry at index {last_user[j]}"))
            elif bad_main and not bad_cross and buf[carrier].props & MARK:
                found.append((CLS_CURS_MARK, desc + f"; the advance is carried by index {carrier}, a mark by GDEF"))
            else:
                return "attached anchors do not coincide: " + desc, found
            continue
        own = att.get(k)
        if has_curs and own is None:
            continue
        if holds(k, own):
            continue
        hits = [a for a in alt.get(k, ()) if holds(k, a)]
        if hits:
            hit = hits[0]
            tgt = "no glyph" if own is None else f"index {own[0]} (glyph {buf[own[0]].g})"
            got = "unattached" if hit is None else f"index {hit[0]} (glyph {buf[hit[0]].g})"
            found.append((CLS_CACHE, f"buffer index {k} (glyph {buf[k].g}) must hang on {tgt}, the nearest glyph the applying "
                                     f"subtable admits, but sits on {got}, a target found under another subtable's base coverage, dir {d}"))
            continue
        if own is not None:
            j, ma, ba, _ = own
            oj = where[j]
            p, q = (org[o][0] + ma[0], org[o][1] + ma[1]), (org[oj][0] + ba[0], org[oj][1] + ba[1])
            return (f"attached anchors do not coincide: buffer index {k} (glyph {buf[k].g}, GDEF props {buf[k].props}) must "
                    f"hang on index {j} (glyph {buf[j].g}): own anchor at {p}, target anchor at {q}, dir {d}"), found
        return (f"glyph at buffer index {k} (glyph {buf[k].g}, GDEF props {buf[k].props}) has no attachment target by the "
                f"font's rules but its offset is {out[o][3:5]} instead of {out0[o][3:5]}, dir {d}"), found
    return None, found


# permanent witnesses of the three classes: (recipe, sem, text, dir, flags)

def _wfont(gdef, lookups, gsub=None):
    rec = {"num_glyphs": NG, "cmap": cmap(), "advances": [0] + [500] * (NG - 1), "gdef": {"classes": dict(gdef)},
           "gpos": {"features": [{"tag": "mark", "lookups": list(range(len(lookups)))}], "lookups": lookups}}
    if gsub: rec["gsub"] = gsub
    return rec


def witnesses():
    w = {}
    # <11 5>, 11 -> 6 6 (MultipleSubst): subtable 2 (bases {6}) admits the second 6, subtable 1 (bases {1}, never applies) not
    m1, b1, m2, b2 = {5: (0, (0, 0))}, {1: [(111, 111)]}, {5: (0, (10, 20))}, {6: [(300, 400)]}
    gd = {1: 1, 6: 1, 5: 3, 11: 1}
    rec = _wfont(gd, [{"type": 4, "flag": 0, "subtables": [
        {"mark_coverage": [5], "base_coverage": [1], "class_count": 1, "marks": [m1[5]], "bases": [b1[1]]},
        {"mark_coverage": [5], "base_coverage": [6], "class_count": 1, "marks": [m2[5]], "bases": [b2[6]]}]}],
        {"features": [{"tag": "ccmp", "lookups": [0]}],
         "lookups": [{"type": 2, "flag": 0, "subtables": [{"coverage": [11], "sequences": [[6, 6]]}]}]})
    sem = {"gdef": gd, "attach": {}, "sets": [], "gsub": {"flag": 0, "ligsets": {}, "mult": {11: [6, 6]}},
           "lookups": [{"type": 4, "flag": 0, "set": None, "subs": [{"marks": m1, "bases": b1}, {"marks": m2, "bases": b2}]}]}
    w[CLS_CACHE] = (rec, sem, [11, 5], "l", 0)
    # <2 1>: the exit side (glyph 2) is a mark by GDEF
    ee = {1: ((0, 0), (400, 0)), 2: ((0, 0), (250, 0))}
    gd = {1: 1, 2: 3}
    rec = _wfont(gd, [{"type": 3, "flag": 0, "subtables": [{"coverage": [1, 2], "entry_exit": [ee[1], ee[2]]}]}])
    sem = {"gdef": gd, "attach": {}, "sets": [], "gsub": None, "lookups": [{"type": 3, "flag": 0, "set": None, "subs": [{"ee": ee}]}]}
    w[CLS_CURS_MARK] = (rec, sem, [2, 1], "l", 0)
    # <1 17 19>: both default ignorables enter on glyph 1 (17 is skipped when 19 looks back), through two subtables
    # with different exit anchors for glyph 1
    e1 = {1: ((0, 0), (400, 0)), 17: ((0, 0), None)}
    e2 = {1: ((0, 0), (250, 0)), 19: ((0, 0), None)}
    gd = {1: 1, 17: 1, 19: 1}
    rec = _wfont(gd, [{"type": 3, "flag": 0, "subtables": [{"coverage": [1, 17], "entry_exit": [e1[1], e1[17]]},
                                                           {"coverage": [1, 19], "entry_exit": [e2[1], e2[19]]}]}])
    sem = {"gdef": gd, "attach": {}, "sets": [], "gsub": None,
           "lookups": [{"type": 3, "flag": 0, "set": None, "subs": [{"ee": e1}, {"ee": e2}]}]}
    w[CLS_CURS_REUSE] = (rec, sem, [1, 17, 19], "l", PRESERVE_DI)
    return w


# ------------------------------------------------------------------------------------------------
# tokens for the Lean model (`gp pos`): integers only

def _anchor(a):
    return [0] if a is None else [1, a[0], a[1]]


def model_tokens(sem):
    """FONT part: hasGdef nsets (n g…)… nlookups (type props nsub sub…)… ; coverage order = sorted gids"""
    t = [1 if sem["gdef"] is not None else 0, len(sem["sets"])]
    for s in sem["sets"]:
        t += [len(s)] + sorted(s)
    t.append(len(sem["lookups"]))
    for lk in sem["lookups"]:
        props = lk["flag"] | ((lk["set"] << 16) if lk["set"] is not None else 0)
        t += [lk["type"], props, len(lk["subs"])]
        for s in lk["subs"]:
            if lk["type"] == 3:
                cv = sorted(s["ee"])
                t += [len(cv)] + cv
                for g in cv:
                    t += _anchor(s["ee"][g][0]) + _anchor(s["ee"][g][1])
                continue
            mk = sorted(s["marks"])
            t += [len(mk)] + mk
            for g in mk:
                t += [s["marks"][g][0], s["marks"][g][1][0], s["marks"][g][1][1]]
            key = {4: "bases", 5: "ligs", 6: "mark2"}[lk["type"]]
            tg = sorted(s[key])
            t += [len(tg)] + tg
            k = max([len(row) for g in tg for row in (s[key][g] if lk["type"] == 5 else [s[key][g]])] or [0])
            t.append(k)
            for g in tg:
                rows = s[key][g] if lk["type"] == 5 else [s[key][g]]
                if lk["type"] == 5: t.append(len(rows))
                for row in rows:
                    for a in row:
                        t += _anchor(a)
    return " ".join(str(x) for x in t)


# ------------------------------------------------------------------------------------------------
# `gp pos` correspondence: the attachment lookups of the whole table on an injected buffer

SUBSTITUTED, LIGATED, MULTIPLIED = 0x10, 0x20, 0x40
UP_IGNORABLE, UP_HIDDEN, UP_CONT, UP_ZWJ, UP_ZWNJ = 0x20, 0x40, 0x80, 0x100, 0x200


def rand_infos(r, sem, all_mask):
    """(gid, mask, glyph_props, lig_props, unicode_props) per glyph: what GSUB may leave behind — GDEF props or
    arbitrary ones, ligatures with marks carrying component numbers, MultipleSubst sequences, default ignorables
    (plain, hidden, ZWJ, ZWNJ, substituted), glyphs outside the lookup's feature range"""
    covered = sorted({g for lk in sem["lookups"] for s in lk["subs"] for g in s.get("marks", s.get("ee", {}))})
    out = []
    n = r.range(1, 12) if r.chance(7, 8) else r.range(20, 40)
    lig_id = 0
    while len(out) < n:
        k = r.below(12)
        g = r.choice(covered) if covered and r.chance(1, 2) else r.choice(ALL)
        gp = props_of(sem, g) if r.chance(3, 4) else r.choice([0, BASE_GLYPH, LIGATURE, MARK, MARK | 0x100, MARK | 0x200])
        up = r.choice([7, 7, 7, 12, 10])
        mask = all_mask if r.chance(9, 10) else r.choice([0, all_mask & 0x80000000, all_mask & 0x7FFFFFFF])
        if k == 0:            # a ligature followed by marks that know their component
            lig_id = lig_id % 7 + 1
            nc = r.range(1, 4)
            out.append((g, mask, (gp & ~MARK if r.chance(3, 4) else gp) | LIGATED | SUBSTITUTED, (lig_id << 5) | 0x10 | nc, up))
            for _ in range(r.range(0, 3)):
                m = r.choice(covered) if covered and r.chance(2, 3) else r.choice(ALL)
                mp = props_of(sem, m) if r.chance(1, 2) else MARK | r.choice([0, 0x100, 0x200])
                lid = lig_id if r.chance(3, 4) else r.choice([0, lig_id % 7 + 1])
                out.append((m, mask, mp, (lid << 5) | r.range(0, 5), up))
        elif k == 1:          # a MultipleSubst sequence (components 0,1,2,… of one source glyph), maybe interrupted
            lid = r.choice([0, 0, 0, lig_id % 7 + 1])
            for c in range(r.range(2, 4)):
                gg = r.choice(covered) if covered and r.chance(1, 2) else r.choice(ALL)
                pp = (props_of(sem, gg) if r.chance(2, 3) else r.choice([0, BASE_GLYPH, MARK])) | SUBSTITUTED
                if not r.chance(1, 6): pp |= MULTIPLIED
                out.append((gg, mask, pp, (lid << 5) | (c if r.chance(5, 6) else r.range(0, 4)), up))
        elif k == 3:          # a ligature expanded again by a MultipleSubst: every output keeps the ligature id and is a
            lig_id = lig_id % 7 + 1      # ligature base of that id (component number 0); marks of the ligature may follow
            nc = r.range(1, 4)
            for c in range(r.range(2, 4)):
                gg = r.choice(covered) if covered and r.chance(2, 3) else r.choice(ALL)
                pp = props_of(sem, gg) if r.chance(2, 3) else r.choice([0, BASE_GLYPH, LIGATURE, MARK])
                out.append((gg, mask, pp | SUBSTITUTED | MULTIPLIED | (LIGATED if r.chance(3, 4) else 0), (lig_id << 5) | 0x10 | nc, up))
            for _ in range(r.range(0, 2)):
                m = r.choice(covered) if covered and r.chance(2, 3) else r.choice(ALL)
                mp = props_of(sem, m) if r.chance(1, 2) else MARK | r.choice([0, 0x100, 0x200])
                out.append((m, mask, mp, (lig_id << 5) | r.range(0, 5), up))
        elif k == 2:          # a default ignorable of some kind
            kind = r.below(6)
            u = UP_IGNORABLE | (1 if kind < 4 else 12)
            if kind == 1: u |= UP_ZWJ
            if kind == 2: u |= UP_ZWNJ
            if kind == 3: u |= UP_HIDDEN
            if kind == 5: u |= UP_HIDDEN | UP_CONT
            out.append((g, mask, gp | (SUBSTITUTED if r.chance(1, 6) else 0), 0, u))
        else:
            out.append((g, mask, gp, 0 if r.chance(5, 6) else r.below(256), up))
    return out[:max(n, 1)]


def pos_request(fid, d, finish, infos, sem, maps, ps):
    it = ",".join(":".join(str(v) for v in x) for x in infos)
    mt = [len(maps)] + [v for m in maps for v in m]
    pt = " ".join(":".join(str(v) for v in p) for p in ps)
    return f"gp pos {fid} {d} {finish} {it} FONT {model_tokens(sem)} MAPS {' '.join(str(x) for x in mt)} | {pt}"
