"""Apple `kerx` tables byte by byte (formats 0 / 2 / 6 with values, idle format 1 / 4 state machines) and what
ttf-parser 0.25 reads out of them, plus `kern` tables of both flavours.  Used by the C07 kerx-driver correspondence
stream and by the `kernx-shape` search.

A subtable is a dict
    {"fmt": 0|1|2|4|6, "h": 0|1 (horizontal), "c": 0|1 (cross-stream), "v": 0|1 (variation),
     "pairs": {(left, right): value}}            (state machines: no pairs)
For formats 2 and 6 the pairs are *derived* from random class tables + a class matrix, so that the class machinery
of the format is really exercised; `sub["pairs"]` is what the format's rules give for every glyph pair.

Layout notes (what ttf-parser reads, which is what the crate sees):
  format 2   class tables are `kern`-style (firstGlyph, nGlyphs, u16 values), offsets from the subtable start
             (header included); left values are premultiplied byte offsets of the row *from the subtable start*,
             right values premultiplied column byte offsets; an uncovered left glyph has class 0 -> no value.
  format 6   row / column index tables are AAT lookups; the kerning array holds u16 byte offsets into the kerning
             vector, which holds the values (ttf-parser always goes through the vector, also for tupleCount = 0).
"""
import struct
import fontbuild

HEADER = 12


def u16(x): return struct.pack(">H", x & 0xFFFF)
def i16(x): return struct.pack(">h", x)
def u32(x): return struct.pack(">I", x & 0xFFFFFFFF)


def _binsrch32(n, unit=6):
    es = 0
    while (2 << es) <= n:
        es += 1
    sr = (1 << es) * unit if n else 0
    return u32(n) + u32(sr) + u32(es) + u32(max(0, n * unit - sr))


def body_fmt0(pairs):
    ps = sorted(pairs.items())
    return _binsrch32(len(ps)) + b"".join(u16(l) + u16(r) + i16(v) for (l, r), v in ps)


def body_fmt2(cls):
    """cls = {"first_l", "lrows": [row index per glyph from first_l], "first_r", "rcols": [...], "matrix": rows x cols}"""
    m = cls["matrix"]
    nrows, ncols = len(m), len(m[0])
    row_width = 2 * ncols
    off_l = HEADER + 16
    len_l = 4 + 2 * len(cls["lrows"])
    off_r = off_l + len_l
    len_r = 4 + 2 * len(cls["rcols"])
    off_a = off_r + len_r
    out = u32(row_width) + u32(off_l) + u32(off_r) + u32(off_a)
    out += u16(cls["first_l"]) + u16(len(cls["lrows"])) + b"".join(u16(off_a + row_width * x) for x in cls["lrows"])
    out += u16(cls["first_r"]) + u16(len(cls["rcols"])) + b"".join(u16(2 * x) for x in cls["rcols"])
    out += b"".join(i16(v) for row in m for v in row)
    return out


def pairs_fmt2(cls, glyphs):
    res = {}
    for l in glyphs:
        k = l - cls["first_l"]
        if not 0 <= k < len(cls["lrows"]):
            continue                         # class 0 < array offset: no value
        row = cls["lrows"][k]
        for r in glyphs:
            k2 = r - cls["first_r"]
            col = cls["rcols"][k2] if 0 <= k2 < len(cls["rcols"]) else 0
            v = cls["matrix"][row][col]
            if v:
                res[(l, r)] = v
    return res


def body_fmt6(cls, lookup_fmt=(6, 6)):
    """cls = {"rows": {gid: row}, "cols": {gid: col}, "matrix": rows x cols}  (uncovered glyphs: row / column 0)"""
    m = cls["matrix"]
    nrows, ncols = len(m), len(m[0])
    # (ttf-parser rejects binary-search lookups without segments: an empty map is written as format 8)
    rl = fontbuild._aat_lookup({g: x * ncols for g, x in cls["rows"].items()}, fmt=lookup_fmt[0] if cls["rows"] else 8)
    cl = fontbuild._aat_lookup(dict(cls["cols"]), fmt=lookup_fmt[1] if cls["cols"] else 8)
    rl += b"\0" * (len(rl) % 2)
    cl += b"\0" * (len(cl) % 2)
    vals = sorted({v for row in m for v in row})
    vec_off = {v: 2 * k for k, v in enumerate(vals)}
    off_rl = HEADER + 24
    off_cl = off_rl + len(rl)
    off_arr = off_cl + len(cl)
    off_vec = off_arr + 2 * nrows * ncols
    out = u32(0) + u16(nrows) + u16(ncols) + u32(off_rl) + u32(off_cl) + u32(off_arr) + u32(off_vec)
    out += rl + cl
    out += b"".join(u16(vec_off[v]) for row in m for v in row)
    out += b"".join(i16(v) for v in vals)
    return out


def pairs_fmt6(cls, glyphs):
    res = {}
    for l in glyphs:
        for r in glyphs:
            v = cls["matrix"][cls["rows"].get(l, 0)][cls["cols"].get(r, 0)]
            if v:
                res[(l, r)] = v
    return res


def body_idle_sm(fmt):
    """a state machine that advances over every glyph and never acts: 4 classes, empty class lookup, two all-zero
    state rows, one entry (new state 0, flags 0, action index 0xFFFF)"""
    lookup = fontbuild._aat_lookup({}, fmt=8) + bytes(2)      # trimmed array without glyphs, padded to 8 bytes
    head = 20
    off_lookup, off_states = head, head + len(lookup)
    off_entries = off_states + 16
    off_tail = off_entries + 6
    out = u32(4) + u32(off_lookup) + u32(off_states) + u32(off_entries)
    out += u32(off_tail) if fmt == 1 else u32(0x40000000 | off_tail)
    out += lookup + bytes(16) + u16(0) + u16(0) + u16(0xFFFF) + bytes(8)
    return out


def kerx_table(subs):
    out = u16(2) + u16(0) + u32(len(subs))
    for s in subs:
        f = s["fmt"]
        if f == 0: body = body_fmt0(s["pairs"])
        elif f == 2: body = body_fmt2(s["cls"])
        elif f == 6: body = body_fmt6(s["cls"], s.get("lookup_fmt", (6, 6)))
        else: body = body_idle_sm(f)
        body += b"\0" * (-len(body) % 4)
        cov = (0 if s["h"] else 0x80) | (0x40 if s["c"] else 0) | (0x20 if s["v"] else 0)
        out += u32(HEADER + len(body)) + bytes([cov, 0, 0, f]) + u32(0) + body
    return out


def rand_value(r):
    return r.choice([r.range(-200, 200), r.range(-9, 9), -1, 1, r.range(-2000, 2000), -32768, 32767])


def rand_sub(r, glyphs, universe, simple_only=False, fmts=(0, 0, 2, 6)):
    """one random subtable whose tables are built over the glyph ids `glyphs` (a list of distinct ids, any order);
    `pairs` lists the non-zero value of every pair over `universe` (all glyph ids a text may contain)"""
    s = {"v": int(r.chance(1, 10)), "h": int(r.chance(4, 5)), "c": int(r.chance(1, 6)), "fmt": r.choice(fmts), "pairs": {}}
    if not simple_only and r.chance(1, 5):
        s["fmt"] = r.choice([1, 4])
        return s
    gl = sorted(glyphs)
    if s["fmt"] == 0:
        for a in gl:
            for b in gl:
                if r.chance(1, 3):
                    s["pairs"][(a, b)] = rand_value(r) or 7
    elif s["fmt"] == 2:
        nrows, ncols = r.range(2, 4), r.range(2, 4)
        m = [[(rand_value(r) if r.chance(2, 3) else 0) for _ in range(ncols)] for _ in range(nrows)]
        fl, fr = r.range(max(0, gl[0] - 1), gl[0] + 2), r.range(max(0, gl[0] - 1), gl[0] + 2)
        nl, nr = r.range(1, max(1, gl[-1] - fl + 2)), r.range(1, max(1, gl[-1] - fr + 2))
        s["cls"] = {"first_l": fl, "lrows": [r.below(nrows) for _ in range(nl)],
                    "first_r": fr, "rcols": [r.below(ncols) for _ in range(nr)], "matrix": m}
        s["pairs"] = pairs_fmt2(s["cls"], universe)
    else:
        nrows, ncols = r.range(2, 4), r.range(2, 4)
        m = [[(rand_value(r) if r.chance(2, 3) else 0) for _ in range(ncols)] for _ in range(nrows)]
        s["cls"] = {"rows": {g: r.below(nrows) for g in gl if r.chance(3, 4)},
                    "cols": {g: r.below(ncols) for g in gl if r.chance(3, 4)}, "matrix": m}
        s["lookup_fmt"] = (r.choice([6, 8, 2]), r.choice([6, 8, 4]))
        s["pairs"] = pairs_fmt6(s["cls"], universe)
    return s


def rand_subs(r, glyphs, universe, lo=1, hi=3, simple_only=False):
    n = r.range(lo, hi) if r.chance(5, 6) else r.range(hi + 1, hi + 3)
    return [rand_sub(r, glyphs, universe, simple_only) for _ in range(n)]


def subs_token(subs):
    """v:h:c:fmt:key=value/... per subtable (key = left << 16 | right, sorted), `;` separated — the Lean side's view"""
    if not subs:
        return "-"
    out = []
    for s in subs:
        ps = "/".join(f"{(l << 16) | r}={v}" for (l, r), v in sorted(s["pairs"].items())) or "-"
        out.append(f"{s['v']}:{s['h']}:{s['c']}:{s['fmt']}:{ps}")
    return ";".join(out)
