"""GPOS value records with Device / VariationIndex tables and the glyph flags (C03 / C04).

Three things live here:
  (1) hook level — requests of the `gpf` command (harness/src/ops/gposflag.rs, Lean side Drv/GposFlag.lean):
        gpf val   `ValueRecordExt::apply_to_pos` of both records of a glyph pair -> new positions and the `worked` value
        gpf pair  the real `PairAdjustment::apply` on a buffer with chosen clusters / masks / level / buffer flags
      with python oracles on the crate's replies alone: a record that moved the glyph reports `worked`, a pair that moved a
      glyph flags its span unsafe_to_break;
  (2) shape level — generated GPOS fonts (SinglePos formats 1 / 2, PairPos formats 1 / 2, value formats over EVERY subset of
      the eight value-format bits, device-only records = all static parts zero, hinting Device tables and VariationIndex
      tables into a GDEF variation store, optionally a kern or a kerx table) and shaping requests on which the deltas are
      live (ppem= at a size some Device table has a non-zero delta for, var= off the default instance) in four
      directions, for the break-safety (C03) and concat-redistribution (C04) experiments of tools/flagslib.py;
  (3) the classification of those fonts' DIFFs (none documented: every DIFF is new).
The subtables are serialised by tools/props/_gposdev.py."""
import struct
import vlib, fontbuild
import flagslib as F
import _gposdev as GD
import _kerx as KX

DIRS = ["l", "r", "t", "b"]
MARK, BASE = 8, 2
IGNORE_MARKS = 8
BREAK, CONCAT = 1, 2
LOOKUP_MASK = 0x100


# ------------------------------------------------------------------------------------------------
# value formats and records: every subset of the eight bits, device-only records

def rand_vf(r):
    """a value format: any subset (2 in 5), one bit, a device-only subset, an advance-only subset, everything"""
    k = r.below(10)
    if k < 4: return r.range(1, 255)
    if k < 6: return r.choice(GD.BITS)
    if k < 8: return r.range(1, 15) << 4                                # only Device / VariationIndex tables
    if k < 9: return sum(b for b in (0x04, 0x08, 0x40, 0x80) if r.chance(1, 2)) or 0x40
    return 0xFF


def rand_vr(r, vf):
    """a record of this format; 1 in 3 with ALL static parts zero (whatever it does comes from its devices), 1 in 6 with
    zero static advances, else arbitrary; a device offset is present 4 times in 5"""
    vr = GD.rand_vr(r, vf)
    k = r.below(6)
    if k < 2:
        vr["v"] = [0, 0, 0, 0]
    elif k == 2:
        vr["v"][2] = vr["v"][3] = 0
    return vr


def rand_ppem(r, vrs, prefer=()):
    """(ppem_x, ppem_y): mostly sizes at which a device of the records `prefer` (else of `vrs`) is live, sometimes 0 / outside"""
    live = (r.chance(3, 4) and GD.device_sizes(prefer)) or GD.device_sizes(vrs) or [12]
    def one():
        k = r.below(8)
        return 0 if k == 0 else r.range(6, 40) if k == 1 else r.choice(live)
    x = one()
    return (x, x) if r.chance(1, 2) else (x, one())


def rv(r):
    return r.choice([0, 0, r.range(-900, 900), r.range(-30, 30)])


def rand_pos(r, n):
    return [[rv(r), rv(r) if r.chance(1, 3) else 0, rv(r), rv(r), 0, 0] for _ in range(n)]


def fmt_pos(ps):
    return " ".join(":".join(str(x) for x in p) for p in ps)


def canon(s):
    if s.startswith("panic "):
        if "assertion" in s: return "panic assert"
        if "out of bounds" in s or "out of range" in s or "range end index" in s or "range start index" in s:
            return "panic oob"
    return s


# ------------------------------------------------------------------------------------------------
# (1a) gpf val

def _pair_subtable(r, gids, vf1, vf2):
    """a PairPos subtable over the glyph ids `gids` -> (bytes, lookup(first, second) -> (vr1, vr2) | None as the crate
    sees it, covered(first) -> bool, all records)"""
    allv = []

    def vr(vf):
        v = rand_vr(r, vf); allv.append(v); return v
    if r.chance(1, 3):
        pairs = {}
        for a in gids:
            if r.chance(4, 5):
                pairs[a] = {b: (vr(vf1), vr(vf2)) for b in gids if r.chance(3, 4)} or {gids[0]: (vr(vf1), vr(vf2))}
        pairs = pairs or {gids[0]: {gids[-1]: (vr(vf1), vr(vf2))}}
        data = GD.pair_subtable_f1(pairs, vf1, vf2)

        def look(a, b):
            rec = pairs.get(a, {}).get(b)
            # ttf-parser 0.25 cannot reach a device table from a PairSet (see _gposdev.pairset_visible)
            return None if rec is None else tuple(GD.pairset_visible(v) for v in rec)
        return data, look, (lambda a: a in pairs), allv, 1
    nc1, nc2 = r.range(1, 3), r.range(1, 3)
    cov = [g for g in gids if r.chance(4, 5)] or [gids[0]]
    cls1 = {g: r.below(nc1) for g in gids}
    cls2 = {g: r.below(nc2) for g in gids}
    matrix = [[(vr(vf1), vr(vf2)) for _ in range(nc2)] for _ in range(nc1)]
    data = GD.pair_subtable_f2(cov, cls1, cls2, matrix, vf1, vf2)
    return data, (lambda a, b: matrix[cls1[a]][cls2[b]] if a in cov else None), (lambda a: a in cov), allv, 2


def gen_val(r):
    gids = list(range(1, r.range(2, 5) + 1))
    vf1 = rand_vf(r)
    vf2 = r.choice([0, rand_vf(r), rand_vf(r)])
    data, look, _, allv, fmt = _pair_subtable(r, gids, vf1, vf2)
    a, b = r.choice(gids), r.choice(gids)
    if fmt == 2 and look(a, b) is None:
        # the hook reads the matrix directly (no coverage test): take the record of the classes
        a = next((g for g in gids if look(g, b) is not None), a)
    rec = look(a, b)
    if fmt == 2 and rec is None:
        return None
    ppem = rand_ppem(r, allv, rec or ())
    d = r.choice(DIRS + DIRS + ["i"])
    v1, v2 = rec or (GD.EMPTY_VR, GD.EMPTY_VR)
    model = (f"{int(ppem[0] != 0)} {int(ppem[1] != 0)} {' '.join(GD.vr_tokens(v1, *ppem))} {' '.join(GD.vr_tokens(v2, *ppem))} "
             f"{int(rec is not None)}")
    return f"gpf val {ppem[0]} {ppem[1]} {data.hex()} {a} {b} {d} {model} | {fmt_pos(rand_pos(r, 2))}"


def val_lines(r, n):
    out = []
    while len(out) < n:
        ln = gen_val(r)
        if ln: out.append(ln)
    return out


def _vt(tokens):
    v = [int(x) for x in tokens[:4]]
    dv = [None if x == "-" else int(x) for x in tokens[4:8]]
    return v, dv


def reports(v, dv, ux, uy, horiz):
    """the sentence of C03_value_worked_iff: an enabled component of the record is present"""
    return bool(v[0] or v[1] or (horiz and v[2]) or (not horiz and v[3])
                or (ux and dv[0] is not None) or (uy and dv[1] is not None)
                or (horiz and ux and dv[2] is not None) or (not horiz and uy and dv[3] is not None))


def val_eval(ln, o):
    """oracle on one `gpf val` reply -> (deviation or None, facts)"""
    t = ln.split()
    bar = t.index("|")
    d, m = t[7], t[8:bar]
    ux, uy = m[0] == "1", m[1] == "1"
    horiz = d in "lr"
    facts = {"dir": d, "moved_by_device_only": False}
    if m[-1] == "0":
        return (None if o == "norecord" else f"no record for the pair but the crate answered {o[:80]}"), facts
    if not o.startswith("ok "):
        return f"crash {o[:160]}", facts
    ot = o.split()
    before = [[int(x) for x in p.split(":")] for p in t[bar + 1:]]
    for k in (0, 1):
        v, dv = _vt(m[2 + 8 * k:10 + 8 * k])
        after = [int(x) for x in ot[1 + 2 * k].split(":")]
        worked = ot[2 + 2 * k] == "1"
        moved = after != before[k]
        static_moves = bool(v[0] or v[1] or (horiz and v[2]) or (not horiz and v[3]))
        if moved and not static_moves:
            facts["moved_by_device_only"] = True
        if moved and not worked:
            return (f"record {k + 1} moved the glyph ({before[k][:4]} -> {after[:4]}; xa ya xo yo) but apply_to_pos returned "
                    f"worked = false (direction {d}, ppem {t[2]}/{t[3]}, values {v}, device deltas {dv})"), facts
        if worked and not reports(v, dv, ux, uy, horiz):
            facts["worked_without_component"] = facts.get("worked_without_component", 0) + 1
    return None, facts


def classify_val(ln, out):
    t = ln.split()
    bar = t.index("|")
    m = t[8:bar]
    ks = [f"val:dir:{t[7]}", f"val:ppem:{'x' if t[2] != '0' else ''}{'y' if t[3] != '0' else ''}", f"val:found:{m[-1]}"]
    for k in (0, 1):
        v, dv = _vt(m[2 + 8 * k:10 + 8 * k])
        ks.append(f"val:record{k + 1}:" + ("empty" if not any(v) and all(x is None for x in dv) else
                                           "device-only" if not any(v) else "static-only" if all(x is None for x in dv) else "both"))
    if out.startswith("ok "):
        ot = out.split()
        ks.append(f"val:worked:{ot[2]}{ot[4]}")
    return ks


# ------------------------------------------------------------------------------------------------
# (1b) gpf pair

def gen_pair(r, pc):
    n = r.range(2, 7)
    d = r.choice(DIRS)
    props = IGNORE_MARKS if r.chance(1, 2) else 0
    marks = [r.chance(1, 4) for _ in range(n)]
    gids = list(range(1, n + 1))
    skip = lambda k: bool(props) and marks[k]
    i = r.below(n) if r.chance(1, 6) else r.below(n - 1)
    j = next((k for k in range(i + 1, n) if not skip(k)), None)
    vf1 = rand_vf(r)
    vf2 = r.choice([0, 0, 0, rand_vf(r), r.choice(GD.BITS[4:])])
    data, look, covered, allv, fmt = _pair_subtable(r, gids, vf1, vf2)
    # clusters as GPOS sees them: non-decreasing or non-increasing with equal neighbours, rarely unordered
    mono = r.choice(["asc", "asc", "desc", "desc", "rand"])
    cl, c = [], r.below(3)
    for _ in range(n):
        cl.append(c); c += r.choice([0, 1, 1, 2])
    if mono == "desc": cl = cl[::-1]
    elif mono == "rand": cl = r.shuffle(cl)
    # the lookup mask of the hook is 0x100: a glyph without that bit ends the search for the second glyph
    masks = [r.choice([0, 0, 0, 1, 2, 3, 4, 7]) | r.choice([0, 0x80000000]) | (0 if r.chance(1, 12) else LOOKUP_MASK)
             for _ in range(n)]
    infos = ",".join(f"{g}:{MARK if marks[k] else BASE}:0:{cl[k]}:{masks[k]}" for k, g in enumerate(gids))
    bflags = r.choice([0, pc, pc, pc | 3])
    level = r.choice([0, 0, 1, 1, 2])
    ppem = rand_ppem(r, allv, (covered(i + 1) and j is not None and look(i + 1, j + 1)) or ())
    if not covered(i + 1):
        found = "nc"
    elif j is None:
        found = f"ns {n}"
    elif not masks[j] & LOOKUP_MASK:
        found = f"ns {j + 1}"
    else:
        rec = look(i + 1, j + 1)
        if rec is None:
            found = f"nr {j}"
        else:
            found = (f"rec {j} {int(ppem[0] != 0)} {int(ppem[1] != 0)} {' '.join(GD.vr_tokens(rec[0], *ppem))} "
                     f"{' '.join(GD.vr_tokens(rec[1], *ppem))}")
    return (f"gpf pair {ppem[0]} {ppem[1]} {data.hex()} {props} {d} {bflags} {level} {i} {infos} {found} | "
            f"{fmt_pos(rand_pos(r, n))}")


def pair_lines(r, n, pc):
    return [gen_pair(r, pc) for _ in range(n)]


def pair_eval(ln, o):
    """oracle on one `gpf pair` reply: positions changed => every glyph of [idx, second] whose cluster differs from the
    span's minimum cluster carries UNSAFE_TO_BREAK (monotone spans) -> (deviation or None, facts)"""
    t = ln.split()
    bar = t.index("|")
    idx = int(t[9])
    infos = [[int(x) for x in e.split(":")] for e in t[10].split(",")]
    m = t[11:bar]
    facts = {"found": m[0], "moved": False, "device_only": False}
    if not o.startswith("ok "):
        return f"crash {o[:160]}", facts
    ot = o.split()
    before = [[int(x) for x in p.split(":")] for p in t[bar + 1:]]
    after = [[int(x) for x in p.split(":")] for p in ot[5:]]
    masks = [int(x) for x in ot[4].split(",")]
    moved = before != after
    facts["moved"] = moved
    if m[0] != "rec":
        return ("positions changed although the subtable has no record for the pair" if moved else None), facts
    j = int(m[1])
    horiz = t[6] in "lr"
    v1, _ = _vt(m[4:12]); v2, _ = _vt(m[12:20])
    static = any(bool(v[0] or v[1] or (horiz and v[2]) or (not horiz and v[3])) for v in (v1, v2))
    facts["device_only"] = moved and not static
    if not moved:
        return None, facts
    span = list(range(idx, j + 1))
    cls = [infos[k][3] for k in span]
    if not (all(a <= b for a, b in zip(cls, cls[1:])) or all(a >= b for a, b in zip(cls, cls[1:]))):
        return None, facts
    lo = min(cls)
    missing = [k for k in span if infos[k][3] != lo and not masks[k] & BREAK]
    if missing:
        return (f"the pair (glyphs {idx} and {j}) changed a position ({before[idx][:4]} -> {after[idx][:4]}, {before[j][:4]} -> "
                f"{after[j][:4]}) but glyph(s) {missing} of the span, outside its first cluster (clusters {cls}), are not "
                f"UNSAFE_TO_BREAK (masks {masks})"), facts
    return None, facts


def classify_pair(ln, out):
    t = ln.split()
    bar = t.index("|")
    m = t[11:bar]
    ks = [f"pair:found:{m[0]}", f"pair:dir:{t[6]}", f"pair:level:{t[8]}", f"pair:bufflags:{t[7]}"]
    if m[0] == "rec":
        for k in (0, 1):
            v, dv = _vt(m[4 + 8 * k:12 + 8 * k])
            ks.append(f"pair:record{k + 1}:" + ("empty" if not any(v) and all(x is None for x in dv) else
                                                "device-only" if not any(v) else "static-only" if all(x is None for x in dv) else "both"))
    if out.startswith("ok "):
        d, f = pair_eval(ln, out)
        if f["moved"]: ks.append("pair:moved")
        if f["device_only"]: ks.append("pair:moved-by-device-only")
        if any(int(x) & 3 for x in out.split()[4].split(",")): ks.append("pair:some-flag")
    return ks


def hook_search(ctx, shim, r, n, pc):
    """the two oracles on the crate alone (no model involved)"""
    lines = val_lines(r, n)
    outs = vlib.run_lines(shim, lines)
    bad, nontriv, dist = [], 0, {}
    for ln, o in zip(lines, outs):
        d, f = val_eval(ln, o)
        if f["moved_by_device_only"]: nontriv += 1
        dist[f["dir"]] = dist.get(f["dir"], 0) + 1
        if d: bad.append((len(ln), ln, d, o))
    bad.sort()
    for _, ln, d, o in bad[:2]:
        ctx.violation(f"ValueRecord::apply_to_pos misreports whether it did anything: {d} ({len(bad)} of {len(lines)} requests)",
                      {"stage": "search", "stream": "value-worked", "request": ln, "what_differs": d, "observed": o[:1500]})
    ctx.note_search("value-worked", len(lines), nontriv, distribution=dist, deviations=len(bad),
                    rule="PairPos subtables (formats 1 / 2) with value formats over every subset of the eight bits, records with all / "
                         "some / no static parts zero, hinting Device tables (formats 1-3) and VariationIndex tables, on a face with "
                         "(ppem_x, ppem_y) at live sizes / elsewhere / 0, directions l r t b and Invalid; apply_to_pos of both records "
                         "of a pair through the hook; oracle: a record that changed the position returned worked = true, and worked is "
                         "true iff an enabled component (non-zero static value on a used axis, device table the face state enables) is "
                         "present; non-trivial = a glyph was moved by a device delta alone")
    lines = pair_lines(r, n, pc)
    outs = vlib.run_lines(shim, lines)
    bad, nontriv, dist = [], 0, {}
    for ln, o in zip(lines, outs):
        d, f = pair_eval(ln, o)
        if f["device_only"]: nontriv += 1
        k = f["found"] + (":moved" if f["moved"] else "")
        dist[k] = dist.get(k, 0) + 1
        if d: bad.append((len(ln), ln, d, o))
    bad.sort()
    for _, ln, d, o in bad[:2]:
        ctx.violation(f"PairPos leaves a kerned pair without UNSAFE_TO_BREAK: {d} ({len(bad)} of {len(lines)} requests)",
                      {"stage": "search", "stream": "pair-flagged", "request": ln, "what_differs": d, "observed": o[:1500]})
    ctx.note_search("pair-flagged", len(lines), nontriv, distribution=dist, deviations=len(bad),
                    rule="the real PairAdjustment::apply through the hook on buffers of 2-7 glyphs (marks + IgnoreMarks, ascending / "
                         "descending / unordered clusters with equal neighbours, masks that already carry flags, levels 0-2, "
                         "PRODUCE_UNSAFE_TO_CONCAT on / off) with the subtables of value-worked; oracle: when a position changed, every "
                         "glyph of [idx, second] outside the span's minimum cluster is UNSAFE_TO_BREAK (monotone spans); "
                         "non-trivial = the pair moved a glyph by a device delta alone")


# ------------------------------------------------------------------------------------------------
# (2) shape level: generated fonts

def kern_table(r, gl):
    """an OpenType-flavour `kern` table (format 0, 1-2 subtables, horizontal / vertical / cross-stream)"""
    subs = []
    for _ in range(r.range(1, 2)):
        pairs = sorted({(r.choice(gl), r.choice(gl)) for _ in range(r.range(2, 14))})
        body = struct.pack(">HHHH", len(pairs), 0, 0, 0) + b"".join(struct.pack(">HHh", a, b, r.range(-300, 300) or 9) for a, b in pairs)
        cov = (1 if r.chance(3, 4) else 0) | (4 if r.chance(1, 5) else 0)
        subs.append(struct.pack(">HHBB", 0, 6 + len(body), 0, cov) + body)
    return struct.pack(">HH", 0, len(subs)) + b"".join(subs)


def kern_subs_of(kt):
    """the format-0 subtables of an OpenType-flavour kern table: [{"h": horizontal, "c": cross-stream, "pairs": {(l, r): v}}]"""
    n = struct.unpack(">H", kt[2:4])[0]
    off, out = 4, []
    for _ in range(n):
        length, cov = struct.unpack(">HxB", kt[off + 2:off + 6])
        np_ = struct.unpack(">H", kt[off + 6:off + 8])[0]
        pairs = {}
        for q in range(np_):
            a, b, v = struct.unpack(">HHh", kt[off + 14 + 6 * q:off + 20 + 6 * q])
            pairs[(a, b)] = v
        out.append({"h": bool(cov & 1), "c": bool(cov & 4), "pairs": pairs})
        off += length
    return out


RAW = lambda b: {"raw_bytes": b.hex()}


def wide_device(r):
    """a hinting Device table (format 1-3) that is live at EVERY size of 12..17: whole delta words, deltas non-zero 7 in 8"""
    fmt = r.choice([1, 2, 3, 3])
    n = {1: 16, 2: 12, 3: 10}[fmt]
    lo, hi = -(1 << ((1 << fmt) - 1)), (1 << ((1 << fmt) - 1)) - 1
    return {"start": r.range(8, 12) if fmt < 3 else r.range(8, 10), "fmt": fmt,
            "deltas": [0 if r.chance(1, 8) else r.choice([lo, hi, r.range(lo, hi) or 1]) for _ in range(n)]}


def hvar_table(n):
    """HVAR without a mapping and with all-zero deltas for n glyphs (without HVAR rustybuzz derives the advances of a
    non-default instance from outlines, which these fonts do not have)"""
    regions = struct.pack(">HH", 1, 1) + struct.pack(">hhh", 0, 0x4000, 0x4000)
    data = struct.pack(">HHH", n, 0, 0)
    store = struct.pack(">HIH", 1, 12, 1) + struct.pack(">I", 12 + len(regions)) + regions + data
    return struct.pack(">HHIIII", 1, 0, 20, 0, 0, 0) + store


def gposdev_recipe(r, profile):
    """a fontbuild recipe + facts.  k base letters and 0-2 mark glyphs of Latin / Hebrew / private use (both native
    directions), GDEF classes; 1-3 GPOS lookups out of SinglePos 1 / 2 and PairPos 1 / 2 (PairPos 2 most often: the only place
    ttf-parser finds the device tables of a pair), value formats from rand_vf, records from rand_vr, under the features
    kern / dist (horizontal by default), mark (every direction), vkrn (on request).
    profiles: `gpos`; `var` — one fvar axis, a GDEF variation store, every device a VariationIndex; `kern` — plus a kern table
    (GPOS without a kern feature); `kerx` — plus a kerx table (applied instead of GPOS kerning: no GSUB)"""
    alpha = r.choice(sorted(F.ALPHABETS))
    first = F.ALPHABETS[alpha][0]
    k = r.range(3, 6)
    nm = r.choice([0, 0, 1, 2])
    n = 1 + k + nm
    bases, marks = list(range(1, k + 1)), list(range(k + 1, n))
    adv = [0] + [r.range(300, 900) for _ in range(n - 1)]
    rec = {"num_glyphs": n, "cmap": {first + g - 1: g for g in range(1, n)}, "advances": adv}
    if r.chance(1, 2):
        rec["vadvances"] = [0] + [r.range(700, 1200) for _ in range(n - 1)]
    classes = {**{g: 1 for g in bases if r.chance(5, 6)}, **{g: 3 for g in marks}}
    variable = profile == "var"
    var_deltas = [r.choice([r.range(-90, 90) or 40, r.range(-300, 300) or 3, r.range(-9, 9) or 3]) for _ in range(4)]
    allv = []

    def vr(vf):
        v = rand_vr(r, vf)
        for q, d in enumerate(v["dev"]):
            if d is None: continue
            if variable: v["dev"][q] = {"var": (0, r.below(4))}      # must exist in the store
            elif "var" not in d and r.chance(3, 4): v["dev"][q] = wide_device(r)
            # else: a narrow hinting device of _gposdev, 1 in 8 a VariationIndex without a store (delta 0)
        allv.append(v); return v

    gl = list(range(1, n))
    lookups, kinds = [], []
    for _ in range(r.range(1, 3)):
        kd = r.choice(["single", "pair1", "pair2", "pair2", "pair2"])
        kinds.append(kd)
        if kd == "single":
            vf, fmt = rand_vf(r), r.choice([1, 2])
            cov = [g for g in gl if r.chance(2, 3)] or [1]
            vals = {g: vr(vf) for g in cov}
            if fmt == 1:
                v0 = vals[min(vals)]; vals = {g: v0 for g in vals}
            lookups.append({"type": 1, "flag": 0, "subtables": [RAW(GD.single_subtable(vals, vf, fmt))]})
        elif kd == "pair1":
            vf1, vf2 = rand_vf(r), r.choice([0, 0, rand_vf(r)])
            pairs = {}
            for a in gl:
                if r.chance(2, 3):
                    pairs[a] = {b: (vr(vf1), vr(vf2)) for b in gl if r.chance(1, 2)} or {1: (vr(vf1), vr(vf2))}
            pairs = pairs or {1: {2: (vr(vf1), vr(vf2))}}
            lookups.append({"type": 2, "flag": r.choice([0, 0, 8]), "subtables": [RAW(GD.pair_subtable_f1(pairs, vf1, vf2))]})
        else:
            vf1, vf2 = rand_vf(r), r.choice([0, 0, 0, rand_vf(r), r.choice(GD.BITS[4:])])
            nc1, nc2 = r.range(1, 3), r.range(1, 3)
            cov = [g for g in gl if r.chance(5, 6)] or [1]
            cls1 = {g: r.below(nc1) for g in gl}
            cls2 = {g: r.below(nc2) for g in gl}
            matrix = [[(vr(vf1), vr(vf2)) for _ in range(nc2)] for _ in range(nc1)]
            lookups.append({"type": 2, "flag": r.choice([0, 0, 8]),
                            "subtables": [RAW(GD.pair_subtable_f2(cov, cls1, cls2, matrix, vf1, vf2))]})
    tags = ["kern", "kern", "dist", "mark", "mark", "vkrn"] if profile != "kern" else ["dist", "dist", "mark", "mark", "vkrn"]
    feats = {}
    for li in range(len(lookups)):
        feats.setdefault(r.choice(tags), []).append(li)
    rec["gpos"] = {"features": [{"tag": t, "lookups": ls} for t, ls in sorted(feats.items())], "lookups": lookups}
    tables = {}
    ksubs = []
    if profile == "kerx":
        subs = KX.rand_subs(r, r.sample(gl, r.range(2, len(gl))), list(range(n + 1)))
        tables["kerx"] = KX.kerx_table(subs).hex()
        ksubs = [{"h": bool(s["h"]), "c": bool(s["c"]), "pairs": dict(s["pairs"])} for s in subs if not s["v"]]
    elif profile == "kern":
        kt = kern_table(r, gl)
        tables["kern"] = kt.hex()
        ksubs = kern_subs_of(kt)
    cross = any(x["c"] for x in ksubs)
    if variable:
        tables["fvar"] = GD.fvar_table().hex()
        tables["GDEF"] = GD.gdef_with_store(classes, var_deltas).hex()
        if r.chance(7, 8): tables["HVAR"] = hvar_table(n).hex()
    else:
        rec["gdef"] = {"classes": classes}
    if tables:
        rec["tables"] = tables
    facts = {"sizes": GD.device_sizes(allv), "variable": variable, "cross_stream": cross, "kern_subs": ksubs,
             "marks": sorted(marks), "gid_of": {first + g - 1: g for g in range(1, n)}, "kinds": kinds, "features": sorted(feats),
             "has_device": any(d for v in allv for d in v["dev"]),
             "device_only_records": sum(1 for v in allv if not any(v["v"]) and any(v["dev"]))}
    return rec, alpha, k + nm, facts


GPOSDEV_PROFILES = ["gpos", "gpos", "gpos", "var", "var", "gpos", "kern", "gpos", "var", "kerx"]


def gposdev_groups(r, count, prefix="V"):
    groups = []
    i = 0
    while len(groups) < count:
        profile = GPOSDEV_PROFILES[i % len(GPOSDEV_PROFILES)]
        i += 1
        rec, alpha, nl, facts = gposdev_recipe(r, profile)
        try:
            hx = fontbuild.hexfont(rec)
        except fontbuild.FontBuildError:
            continue
        first, script, native = F.ALPHABETS[alpha]
        fid = f"{prefix}{len(groups)}"
        c = F.SynthCase()
        c.name, c.font, c.index, c.text = fid, f"synthetic:{fid}", 0, ""
        c.dir, c.script, c.lang, c.flags, c.level, c.feats = None, script, None, 0, 0, []
        c.pre, c.post, c.extra, c.opts = "", "", [], ""
        groups.append({"fid": fid, "reg": f"font {fid} {hx}", "cases": [c], "alphabet": [chr(first + j) for j in range(nl)],
                       "aat": profile == "kerx", "synthetic": True, "profile": "gposdev:" + profile, "recipe": rec,
                       "facts": facts, "native": native})
    return groups


TAGHEX = lambda t: t.encode().hex()
GPOSDEV_FEATURES = [None, None, None, "+vkrn", "+vkrn", "-kern", "kern[1:3]=0", "-dist", "+vkrn,-kern", "dist[0:2]=0"]


def make_gposdev_shaping(r, g, flags):
    """2-8 letters of the font (marks included) x direction l / r / t / b x levels 0 / 1 x cluster numbering with gaps x
    ppem= at a size where the hinting devices are live (3 in 4) / another size / unset x var=wght off the default (variable fonts, 3 in 4) x user features"""
    facts = g["facts"]
    s = F.Shaping()
    s.g = g
    s.case = g["cases"][0]
    s.text = "".join(r.choice(g["alphabet"]) for _ in range(r.range(2, 8)))
    s.clusters = F.rand_clusters(r, len(s.text), False)
    s.req_dir = r.choice(DIRS)
    s.dir = s.req_dir
    s.script = s.case.script
    s.flags = flags | r.choice([0, 3, 3, 3])
    s.level = r.choice((0, 1))
    s.extra = []
    f = r.choice(GPOSDEV_FEATURES)
    if s.dir in ("t", "b") and "vkrn" in facts["features"] and r.chance(1, 2): f = "+vkrn"
    if f: s.extra.append("fstr=" + f.encode().hex())
    k = r.below(8)
    ppem = 0 if k == 0 else r.range(6, 40) if k == 1 else r.choice(facts["sizes"]) if k == 2 and facts["sizes"] else r.range(12, 17)
    if ppem: s.extra.append(f"ppem={ppem}")
    if facts["variable"] and r.chance(3, 4):
        s.extra.append(f"var={TAGHEX('wght')}:{r.choice([900, 900, 650, 650, 500, 100])}")
    s.pre, s.post = "", ""
    s.subset = None
    s.line = None
    return s


F.KNOWN_CLASSES["cross-stream-kern"] = (
    "kern / kerx table with a cross-stream subtable (kerning.rs::apply and aat_layout_kerx_table.rs::apply, `Attach all glyphs into a "
    "chain`, same in HarfBuzz hb-ot-kern-table.hh / hb-aat-layout-kerx-table.hh): every glyph is cursively attached to its "
    "predecessor, so once one cross-stream pair has a non-zero value (HAS_GPOS_ATTACHMENT) position_finish_offsets adds the "
    "cross-axis offset of every glyph to ALL glyphs after it, to the end of the line; machine_kern flags only the pair itself "
    "unsafe_to_break(i, j + 1).  A cut anywhere later loses the accumulated shift (and a piece without a cross-stream pair of its "
    "own does not accumulate at all).  Decided per case (cross_stream_attribution): the font has such a subtable and the whole "
    "difference is the cross-axis offsets that the chain carried across the cuts")


def cross_stream_attribution(s, o):
    """is this DIFF exactly the chain of a cross-stream kern subtable — and nothing else?
      (a) the font has a kern / kerx subtable with the cross-stream bit;
      (b) whole and reassembled pieces agree on glyphs, clusters, advances and the main-axis offset;
      (c) with W[k] the cross-axis offset of glyph k of the whole in OUTPUT order (the chain runs along the buffer: forward
          runs attach every glyph to the one before it, backward runs are kerned reversed and reversed back) and
          own[k] = W[k] - W[k-1] what glyph k contributes, every piece comes back either accumulated from its own start
          (R[k] = W[k] - W[start-1]: it has a cross-stream pair of its own) or not accumulated at all (R[k] = own[k]: none)."""
    if not s.g.get("facts", {}).get("cross_stream") or not o or o.get("recon") is None or not o.get("whole"):
        return False
    W, R = list(o["whole"]), list(o["recon"])
    if len(W) != len(R):
        return False
    horiz = s.dir in ("l", "r")
    ax = 6 if horiz else 5                   # (gid, cluster, flags, xa, ya, xo, yo)
    for x, y in zip(W, R):
        if (x[0], x[1], x[3], x[4], x[11 - ax]) != (y[0], y[1], y[3], y[4], y[11 - ax]):
            return False
    w = [g[ax] for g in W]
    rr = [g[ax] for g in R]
    own = [w[k] - (w[k - 1] if k else 0) for k in range(len(w))]
    runs = _piece_runs(s, o)
    if not runs:
        return False
    for k, e in runs:
        base = w[k - 1] if k else 0
        acc = all(rr[m] == w[m] - base for m in range(k, e))
        plain = all(rr[m] == own[m] for m in range(k, e))
        if not (acc or plain):
            return False
    return True


F.KNOWN_CLASSES["kern-mark-first"] = (
    "kern / kerx pair whose LEFT glyph is a GDEF mark (kerning.rs::machine_kern, same loop as HarfBuzz hb-kern.hh): the machine walks "
    "from a glyph to the next non-mark glyph (`i = j`, IGNORE_MARKS), so a mark is never the left glyph of a pair — unless it "
    "is the first glyph of the buffer.  A piece that starts with such a mark applies the pair (mark, next base) that the whole "
    "text never looks at; nothing flags the mark, because in the whole text nothing happened there.  Decided per case "
    "(mark_first_attribution): a piece that starts (output order) with a GDEF mark that is the left glyph of a non-zero pair "
    "with the next non-mark glyph in a subtable of the run's axis, and nothing differs before that mark")


def _piece_runs(s, o):
    """the pieces of verify_break (visual order) as index ranges into the whole glyph list, or None"""
    W, k, runs = o["whole"], 0, []
    for a, b in o["pieces"]:
        cls = set(s.clusters[a:b])
        e = k
        while e < len(W) and W[e][1] in cls: e += 1
        if e == k:
            return None
        runs.append((k, e)); k = e
    return runs if k == len(W) else None


def mark_first_attribution(s, o):
    """the kern machine always walks the glyphs in OUTPUT order (backward runs are reversed for it, runs forced against the
    script's direction are shaped reversed): a piece other than the first whose first glyph (output order) is a GDEF mark that
    is the left glyph of a non-zero pair with the next non-mark glyph, in a subtable of the run's axis; nothing differs before
    that mark"""
    facts = s.g.get("facts", {})
    subs = [x for x in facts.get("kern_subs") or [] if x["h"] == (s.dir in ("l", "r"))]
    if not subs or not o or o.get("recon") is None or not o.get("whole") or len(o["whole"]) != len(o["recon"]):
        return False
    marks = set(facts["marks"])
    W = o["whole"]
    runs = _piece_runs(s, o)
    if not runs:
        return False
    first = None
    for k, e in runs[1:]:
        if W[k][0] in marks:
            x = next((q for q in range(k + 1, len(W)) if W[q][0] not in marks), None)
            if x is not None and any(sub["pairs"].get((W[k][0], W[x][0])) for sub in subs):
                first = k
                break
    if first is None:
        return False
    differing = [q for q, (x, y) in enumerate(zip(W, o["recon"])) if (x[0], x[1]) + tuple(x[3:]) != (y[0], y[1]) + tuple(y[3:])]
    return all(q >= first for q in differing)


def gposdev_known_class(s, kind="break", o=None):
    """the fonts have no GSUB, no marks by Unicode category, no reordering shaper; the two documented classes are about the
    kern / kerx machine (fonts of the profiles kern / kerx only), decided from the font, the cut and the concrete difference"""
    if kind == "break" and cross_stream_attribution(s, o):
        return "cross-stream-kern"
    if kind == "break" and mark_first_attribution(s, o):
        return "kern-mark-first"
    return None


GPOSDEV_RULE = ("generated GPOS fonts (tools/props/_gposflag.py::gposdev_recipe: 3-6 base letters + 0-2 GDEF marks of Latin / Hebrew / "
                "private use, i.e. both native directions; 1-3 lookups out of SinglePos 1 / 2 and PairPos 1 / 2 whose value formats "
                "range over every subset of the eight value-format bits, 1 record in 3 device-only (all static parts zero), hinting "
                "Device tables of formats 1-3 (3 in 4 live at every size of 12..17) or — variable fonts with HVAR, 3 in 10 — VariationIndex "
                "tables into a GDEF variation store; "
                "features kern / dist / mark / vkrn; 1 font in 10 with a kern table, 1 in 10 with a kerx table) x texts of 2-8 "
                "letters x directions l, r, t, b x levels 0/1 x cluster numbering with gaps x ppem= at a size a Device table is live "
                "at / another / unset x var=wght off the default instance x user features (+vkrn, -kern, ranged kern / dist); ")


def liveness(shim, shapings):
    """how many of the requests are changed by their ppem= / var= options (a device delta is live)"""
    plain = []
    for s in shapings:
        t = F.Shaping()
        for a in F.Shaping.__slots__:
            setattr(t, a, getattr(s, a, None))
        t.extra = [x for x in s.extra if not x.startswith(("ppem=", "var="))]
        t.line = None
        plain.append(t)
    a, _ = F.run_shapings(shim, shapings)
    b, _ = F.run_shapings(shim, plain)
    strip = lambda gl: None if gl is None else [(g[0], g[1]) + tuple(g[3:]) for g in gl]
    return sum(1 for x, y in zip(a, b) if strip(x) != strip(y))
