"""Pair kerning / pair positioning WITH the skipping iterator and the glyph flags (C03 / C04 / C07): request generators for
the `pf` command (harness/src/ops/pairflag.rs, Lean side Drv/PairFlag.lean, model lean/RbModel/PairFlag.lean).

  pf mk    the private machine_kern (kern formats 0 / 2) on buffers with chosen clusters / masks / level / buffer flags
  pf kx    the private apply_simple_kerning of aat_layout_kerx_table.rs (kerx formats 0 / 2 / 6) likewise
  pf pair  the real PairAdjustment::apply (same Rust request as `gpf pair`); the Lean side gets the subtable's data for the
           first glyph (covered, PairSet present, record per second glyph id) and runs the skipping iterator itself

and python oracles on the crate's replies alone ("the flagged span covers what was inspected")."""
import vlib
import _gposflag as GF
import _gposdev as GD
import _kerx as KX

DIRS = ["l", "r", "t", "b"]
BASE, LIG, MARK, SUBST = 2, 4, 8, 0x10
BREAK, CONCAT = 1, 2


def rv(r, big=False):
    if big: return r.choice([0, (1 << 31) - 1, -(1 << 31), r.range(-(1 << 31), (1 << 31) - 1)])
    return r.choice([0, 0, r.range(-900, 900), r.range(-30, 30)])


def rand_pos(r, n, big=False):
    return [[rv(r, big), rv(r, big) if r.chance(1, 3) else 0, rv(r, big), rv(r, big), 0, 0] for _ in range(n)]


def fmt_pos(ps):
    return " ".join(":".join(str(x) for x in p) for p in ps)


def rkern(r):
    return r.choice([r.range(-200, 200), r.range(-9, 9), -1, 1, 0, -32768, 32767, r.range(-32768, 32767)])


def rand_clusters(r, n):
    """clusters as the kern machine sees them: non-decreasing / non-increasing with equal neighbours, rarely unordered"""
    mono = r.choice(["asc", "asc", "asc", "desc", "desc", "rand"])
    cl, c = [], r.below(3)
    for _ in range(n):
        cl.append(c); c += r.choice([0, 1, 1, 2])
    if mono == "desc": cl = cl[::-1]
    elif mono == "rand": cl = r.shuffle(cl)
    return cl, mono


def rand_infos(r, n, kmask, many_marks=False):
    """(gid, mask, glyph_props, unicode_props, cluster): GDEF marks (1 in 3 / 1 in 2), default ignorables (plain, hidden, ZWJ,
    ZWNJ), substituted default ignorables (no longer ignorable), glyphs outside the kern feature's range, masks that already
    carry glyph flags"""
    cl, mono = rand_clusters(r, n)
    out = []
    for k in range(n):
        g = r.range(1, 6)
        m = (kmask if r.chance(7, 8) else 0) | r.choice([0, 0, 0, 1, 2, 3, 4, 7] if kmask > 7 else [0])
        gp = MARK if r.chance(1, 2 if many_marks else 3) else r.choice([BASE, BASE, BASE, LIG, 0, BASE | SUBST])
        up = r.choice([7, 7, 7, 7, 7, 7, 7, 0x27, 0x27, 0x67, 0x121, 0x221])
        out.append((g, m, gp, up, cl[k]))
    return out, mono


def infos_token(infos):
    return ",".join(":".join(str(x) for x in e) for e in infos) or "-"


def mk_lines(r, n, pc):
    lines = []
    for _ in range(n):
        ng = r.range(0, 9)
        kmask = r.choice([0x100, 0x100, 0x100, 0x80000000, 0x300, 2, 3])
        infos, _ = rand_infos(r, ng, kmask, many_marks=r.chance(1, 2))
        d = r.choice(DIRS + ["i"] if r.chance(1, 10) else DIRS)
        cross = int(r.chance(1, 4))
        pairs = [(a, b, rkern(r)) for a in range(1, 7) for b in range(1, 7) if r.chance(1, 2)]
        pt = ",".join(f"{a}:{b}:{v}" for a, b, v in pairs) or "-"
        bflags = r.choice([0, pc, pc, pc | 3])
        level = r.choice([0, 0, 1, 1, 2])
        ln = ng if r.chance(9, 10) else r.below(ng + 1)
        lines.append(f"pf mk {d} {ln} {kmask} {cross} {bflags} {level} {pt} {infos_token(infos)} | "
                     f"{fmt_pos(rand_pos(r, ng, big=r.chance(1, 12)))}")
    return lines


def kx_lines(r, n, pc, plans):
    lines = []
    while len(lines) < n:
        gl = r.sample(range(1, 7), r.range(2, 6))
        subs = KX.rand_subs(r, gl, list(range(0, 8)), lo=1, hi=3, simple_only=True)
        tbl = KX.kerx_table(subs)
        k = r.below(len(subs))
        s = subs[k]
        d = r.choice(DIRS)
        f = r.choice(["1", "-", "-"])
        mask = plans[(d, f)][0]
        ng = r.range(0, 9)
        infos, _ = rand_infos(r, ng, mask or 1, many_marks=r.chance(1, 2))
        pt = ",".join(f"{a}:{b}:{v}" for (a, b), v in sorted(s["pairs"].items())) or "-"
        bflags = r.choice([0, pc, pc, pc | 3])
        level = r.choice([0, 0, 1, 1, 2])
        lines.append(f"pf kx {tbl.hex()} {k} {d} {f} {mask} {s['c']} {bflags} {level} {pt} {infos_token(infos)} | "
                     f"{fmt_pos(rand_pos(r, ng))}")
    return lines


def _parse_k(ln):
    t = ln.split()
    bar = t.index("|")
    if t[1] == "mk":
        d, ln_, mask, cross, level, pairs, infos = t[2], int(t[3]), int(t[4]), t[5], int(t[7]), t[8], t[9]
    else:
        d, mask, cross, level, pairs, infos = t[4], int(t[6]), t[7], int(t[9]), t[10], t[11]
        ln_ = None
    inf = [] if infos == "-" else [tuple(int(x) for x in e.split(":")) for e in infos.split(",")]
    if ln_ is None: ln_ = len(inf)
    pr = {} if pairs == "-" else {(int(a), int(b)): int(v) for a, b, v in (e.split(":") for e in pairs.split(","))}
    return t[1], d, ln_, mask, cross == "1", level, pr, inf, t[bar + 1:]


def _skippable(e):
    """the iterator of machine_kern (IgnoreMarks, GPOS): 0 = steps over, 1 = may stop here"""
    g, m, gp, up, cl = e
    if gp & MARK: return True
    di = bool(up & 0x20) and not (gp & SUBST)
    return di


def kern_eval(ln, o):
    """oracle on one `pf mk` / `pf kx` reply, from the request and the reply alone: walk the pairs as the machine does (next
    glyph that is neither a GDEF mark nor a default ignorable; it must carry the kern mask) and demand, for every pair with a
    non-zero value, UNSAFE_TO_BREAK on every glyph of [i, j] whose cluster differs from the span's minimum (monotone spans)
    -> (deviation or None, facts)"""
    kind, d, n, mask, cross, level, pr, inf, _ = _parse_k(ln)
    facts = {"pairs": 0, "skipped_pairs": 0}
    if not o.startswith("ok "):
        return (None if o.startswith("panic") else f"unexpected reply {o[:120]}"), facts
    ot = o.split()
    masks = [] if ot[3] == "-" else [int(x) for x in ot[3].split(",")]
    i = 0
    while i < n and i < len(inf):
        # flags are ORed into the masks while the machine runs; kern masks that overlap the flag bits are left to the model
        if not inf[i][1] & mask:
            i += 1; continue
        j = next((q for q in range(i + 1, n) if not _skippable(inf[q])), None)
        if j is None or not inf[j][1] & mask:
            i += 1; continue
        if pr.get((inf[i][0], inf[j][0]), 0):
            facts["pairs"] += 1
            if j > i + 1: facts["skipped_pairs"] += 1
            cls = [inf[q][4] for q in range(i, j + 1)]
            if all(a <= b for a, b in zip(cls, cls[1:])) or all(a >= b for a, b in zip(cls, cls[1:])):
                lo = min(cls)
                missing = [q for q in range(i, j + 1) if inf[q][4] != lo and not masks[q] & BREAK]
                if missing:
                    return (f"the pair (glyphs {i} and {j}, value {pr[(inf[i][0], inf[j][0])]}) was kerned but glyph(s) {missing} "
                            f"of [{i}, {j}] outside the span's first cluster (clusters {cls}) are not UNSAFE_TO_BREAK "
                            f"(masks {masks})"), facts
        i = j
    return None, facts


def classify_k(ln, out):
    kind, d, n, mask, cross, level, pr, inf, _ = _parse_k(ln)
    ks = [f"{kind}:dir:{d}", f"{kind}:cross:{int(cross)}", f"{kind}:level:{level}"]
    if mask & 7: ks.append(f"{kind}:kern-mask-overlaps-flag-bits")
    if out.startswith("ok "):
        dev, f = (None, {"pairs": 0, "skipped_pairs": 0}) if mask & 7 else kern_eval(ln, out)
        ks.append(f"{kind}:kerned-pairs:{min(f['pairs'], 3)}")
        if f["skipped_pairs"]: ks.append(f"{kind}:pair-across-skipped-glyph")
        ms = out.split()[3]
        if ms != "-" and any(int(x) & BREAK for x in ms.split(",")): ks.append(f"{kind}:some-break-flag")
    else:
        ks.append(f"{kind}:{out.split()[0]}")
    return ks


# ------------------------------------------------------------------------------------------------
# pf pair

def kerx_plans(shim):
    """(kern_mask, requested_kerning, apply_kerx) of the crate's plan on a kerx-only face, per direction x kern feature"""
    keys = [(d, f) for d in DIRS for f in ("0", "1", "-")]
    tbl = KX.kerx_table([{"fmt": 0, "h": 1, "c": 0, "v": 0, "pairs": {(1, 2): -10}}])
    outs = vlib.run_lines(shim, [f"kerx plan {tbl.hex()} {d} {f}" for d, f in keys], nproc=1)
    res = {}
    for k, o in zip(keys, outs):
        t = o.split()
        if t[0] != "ok":
            raise vlib.BuildError(f"kerx plan query failed: {k} -> {o}")
        res[k] = (int(t[1]), int(t[2]), int(t[3]))
    return res


def _sparse_f1(r, gids, vf1, vf2):
    """a format 1 subtable in which about half of the second glyphs are missing from each PairSet (the declining path of C04f)
    -> the tuple of GF._pair_subtable"""
    allv = []

    def vr(vf):
        v = GF.rand_vr(r, vf); allv.append(v); return v
    pairs = {}
    for a in gids:
        if r.chance(5, 6):
            pairs[a] = {b: (vr(vf1), vr(vf2)) for b in gids if r.chance(1, 2)} or {gids[0]: (vr(vf1), vr(vf2))}
    pairs = pairs or {gids[0]: {gids[-1]: (vr(vf1), vr(vf2))}}
    data = GD.pair_subtable_f1(pairs, vf1, vf2)

    def look(a, b):
        rec = pairs.get(a, {}).get(b)
        return None if rec is None else tuple(GD.pairset_visible(v) for v in rec)
    return data, look, (lambda a: a in pairs), allv, 1


def gen_pair(r, pc):
    n = r.range(2, 7)
    d = r.choice(DIRS)
    props = GF.IGNORE_MARKS if r.chance(2, 3) else 0
    marks = [r.chance(1, 3) for _ in range(n)]
    gids = list(range(1, n + 1))
    i = r.below(n) if r.chance(1, 6) else r.below(n - 1)
    vf1 = GF.rand_vf(r)
    vf2 = r.choice([0, 0, 0, GF.rand_vf(r), r.choice(GD.BITS[4:])])
    data, look, covered, allv, fmt = _sparse_f1(r, gids, vf1, vf2) if r.chance(1, 3) else GF._pair_subtable(r, gids, vf1, vf2)
    first = gids[i]
    hasset = 1
    if fmt == 1 and covered(first) and r.chance(1, 8):
        # a null PairSet offset for the first glyph: `sets.get(coverage_index)?` fails (after the iterator has run)
        k = sorted(g for g in gids if covered(g)).index(first)
        data = data[:10 + 2 * k] + b"\0\0" + data[12 + 2 * k:]
        hasset = 0
    cl, mono = rand_clusters(r, n)
    masks = [r.choice([0, 0, 0, 1, 2, 3, 4, 7]) | r.choice([0, 0x80000000]) | (0 if r.chance(1, 12) else GF.LOOKUP_MASK)
             for _ in range(n)]
    infos = ",".join(f"{g}:{GF.MARK if marks[k] else GF.BASE}:0:{cl[k]}:{masks[k]}" for k, g in enumerate(gids))
    bflags = r.choice([0, pc, pc, pc | 3])
    level = r.choice([0, 0, 1, 1, 2])
    recs_all = [(b, look(first, b)) for b in gids] if covered(first) else []
    ppem = GF.rand_ppem(r, allv, next((rc for _, rc in recs_all if rc), ()) or ())
    recs = ";".join(f"{b}=" + "/".join(GD.vr_tokens(rc[0], *ppem) + GD.vr_tokens(rc[1], *ppem)) for b, rc in recs_all if rc) or "-"
    model = f"{int(ppem[0] != 0)} {int(ppem[1] != 0)} {int(covered(first))} {hasset} {recs}"
    return (f"pf pair {ppem[0]} {ppem[1]} {data.hex()} {props} {d} {bflags} {level} {i} {infos} {model} | "
            f"{fmt_pos(rand_pos(r, n))}")


def pair_lines(r, n, pc):
    return [gen_pair(r, pc) for _ in range(n)]


def pair_facts(ln):
    """what the request says PairAdjustment::apply will find (python's own walk: IgnoreMarks steps over GDEF marks)"""
    t = ln.split()
    bar = t.index("|")
    props, idx = int(t[5]), int(t[9])
    infos = [[int(x) for x in e.split(":")] for e in t[10].split(",")]
    cov, hs, recs = t[13], t[14], t[15]
    have = set() if recs == "-" else {int(e.split("=")[0]) for e in recs.split(";")}
    if cov == "0":
        return "nc", None, infos
    j = next((k for k in range(idx + 1, len(infos)) if not (props & GF.IGNORE_MARKS and infos[k][1] & GF.MARK)), None)
    if j is None:
        return "ns", len(infos), infos
    if not infos[j][4] & GF.LOOKUP_MASK:
        return "ns", j + 1, infos
    if hs == "0":
        return "noset", j, infos
    if infos[j][0] not in have:
        return "nr", j, infos
    return "rec", j, infos


def pair_eval(ln, o, pc):
    """oracle on one `pf pair` reply (crate alone): a declining PairPos (no second glyph / no record for the pair) with
    PRODUCE_UNSAFE_TO_CONCAT requested leaves UNSAFE_TO_CONCAT on every glyph from idx up to and including the glyph it
    inspected and rejected (`nr`: index j; `ns`: everything below unsafe_to) -> (deviation or None, facts)"""
    kind, j, infos = pair_facts(ln)
    t = ln.split()
    idx, bflags = int(t[9]), int(t[7])
    facts = {"found": kind, "skipped": kind in ("nr", "rec", "noset") and j > idx + 1}
    if not o.startswith("ok "):
        return (None if o.startswith("panic") else f"unexpected reply {o[:120]}"), facts
    masks = [int(x) for x in o.split()[4].split(",")]
    if kind in ("nr", "ns") and bflags & pc:
        end = j + 1 if kind == "nr" else j
        missing = [k for k in range(idx, min(end, len(infos))) if not masks[k] & CONCAT]
        if missing:
            return (f"PairPos declined ({kind}: inspected up to glyph {end - 1}) but glyph(s) {missing} of [{idx}, {end}) are not "
                    f"UNSAFE_TO_CONCAT (masks {masks})"), facts
    return None, facts


def classify_pair(ln, out):
    kind, j, infos = pair_facts(ln)
    t = ln.split()
    ks = [f"pair:found:{kind}", f"pair:dir:{t[6]}", f"pair:level:{t[8]}", f"pair:bufflags:{t[7]}"]
    if kind in ("nr", "rec", "noset") and j > int(t[9]) + 1: ks.append(f"pair:{kind}:behind-skipped-glyph")
    if out.startswith("ok "):
        if out.split()[1] == "1": ks.append("pair:applied")
        if any(int(x) & 3 for x in out.split()[4].split(",")): ks.append("pair:some-flag")
    return ks


def name_failed_theorems(ctx):
    """after ctx.prove failed: add to the broken-proof entry the names of the theorems whose proofs stopped checking
    (the `theorem` enclosing every reported line), so that the replay names them"""
    import os, re
    for b in ctx.broken:
        if b.get("stage") != "prove" or "theorems" in b:
            continue
        names = []
        for loc in b.get("failed_at", []):
            path, _, ln = loc.rpartition(":")
            try:
                src = open(os.path.join(vlib.LEAN, path)).read().split("\n")
            except OSError:
                continue
            for k in range(min(int(ln), len(src)) - 1, -1, -1):
                m = re.match(r"(?:theorem|example)\s*(\S*)", src[k])
                if m:
                    names.append(m.group(1) or f"example at {path}:{k + 1}")
                    break
        b["theorems"] = sorted(set(names))


def replay_search(rp, shim, pc):
    """re-run one recorded request of the three searches below"""
    o = vlib.run_lines(shim, [rp["request"]], nproc=1)[0]
    d = (pair_eval(rp["request"], o, pc) if rp["stream"] == "pairpos-miss-span" else kern_eval(rp["request"], o))[0]
    print("request:", rp["request"]); print("reply  :", o[-1500:]); print("deviation:", d)
    return 1 if d else 0


SEARCH_STREAMS = ("kern-span", "kerx-span", "pairpos-miss-span")


def hook_search(ctx, shim, r, n, pc, plans=None):
    """the oracles above on fresh requests (no model involved)"""
    for name, lines, ev in (("kern-span", mk_lines(r, n, pc), kern_eval),
                            ("kerx-span", kx_lines(r, n // 2, pc, plans) if plans else [], kern_eval),
                            ("pairpos-miss-span", pair_lines(r, n, pc), lambda ln, o: pair_eval(ln, o, pc))):
        if not lines:
            continue
        lines = [ln for ln in lines if name == "pairpos-miss-span" or not int(ln.split()[4 if ln.split()[1] == "mk" else 6]) & 7]
        outs = vlib.run_lines(shim, lines)
        bad, nontriv, dist = [], 0, {}
        for ln, o in zip(lines, outs):
            dev, f = ev(ln, o)
            if f.get("skipped_pairs") or f.get("skipped"): nontriv += 1
            k = f.get("found") or f"pairs:{min(f.get('pairs', 0), 3)}"
            dist[k] = dist.get(k, 0) + 1
            if dev: bad.append((len(ln), ln, dev, o))
        bad.sort()
        for _, ln, dev, o in bad[:2]:
            ctx.violation(f"the flagged span does not cover what was inspected: {dev} ({len(bad)} of {len(lines)} requests)",
                          {"stage": "search", "stream": name, "request": ln, "what_differs": dev, "observed": o[:1500]})
        ctx.note_search(name, len(lines), nontriv, distribution=dist, deviations=len(bad),
                        rule={"kern-span": "the private machine_kern through the hook on buffers of 0-9 glyphs (GDEF marks, default "
                                           "ignorables incl. hidden / ZWJ / ZWNJ / substituted, glyphs outside the kern mask, ascending / "
                                           "descending / unordered clusters, masks that already carry flags, levels 0-2, four directions, "
                                           "cross-stream); oracle: every pair with a non-zero value, found by python's own walk, has "
                                           "UNSAFE_TO_BREAK on every glyph of [i, j] outside the span's minimum cluster (monotone "
                                           "spans); non-trivial = a kerned pair with skipped glyphs between its bases",
                              "kerx-span": "the same for the private apply_simple_kerning of the kerx table (formats 0 / 2 / 6)",
                              "pairpos-miss-span": "the real PairAdjustment::apply through the hook (formats 1 / 2, IgnoreMarks 2 in 3, "
                                                   "null PairSet offsets 1 in 8 of format 1); oracle: a declining subtable (no second "
                                                   "glyph / pair not in the PairSet) leaves UNSAFE_TO_CONCAT on every glyph from idx up to "
                                                   "and including the one it inspected and rejected; non-trivial = the inspected glyph "
                                                   "lies behind skipped glyphs"}[name])
