"""C07 — GPOS/kern: attached anchors coincide; adjustments equal the font's values.
(also hosts the kern-driver part of C02: the reverse bracket (D3, fixed) and the depth part of C01 (D13, fixed);
minimised past failures live in corpus/C07/*.json and run first in the search)"""
import struct, re, os, glob, json
import vlib

MODULE = "RbModel.Props.C07"
LEVEL = "proof"

DIRS = ["l", "r", "t", "b"]
I32MAX = (1 << 31) - 1


# ------------------------------------------------------------------------------------------------
# binary builders (OpenType GPOS subtables, kern tables, whole fonts)

def u16(x): return struct.pack(">H", x & 0xFFFF)
def i16(x): return struct.pack(">h", x)
def u32(x): return struct.pack(">I", x & 0xFFFFFFFF)


def coverage(gids):
    gids = sorted(gids)
    return u16(1) + u16(len(gids)) + b"".join(u16(g) for g in gids)


def anchor(a):
    return u16(1) + i16(a[0]) + i16(a[1])


class Blob:
    """offset-resolving writer: parts are bytes or ('off16', blob) references relative to this blob's start"""

    def __init__(self):
        self.parts = []

    def add(self, b):
        self.parts.append(b); return self

    def off(self, child):          # child: Blob | bytes | None (NULL offset)
        self.parts.append(("off", child)); return self

    def build(self):
        head_len = sum(2 if isinstance(p, tuple) else len(p) for p in self.parts)
        out, tail = [], b""
        for p in self.parts:
            if isinstance(p, tuple):
                c = p[1]
                if c is None:
                    out.append(u16(0)); continue
                data = c.build() if isinstance(c, Blob) else c
                out.append(u16(head_len + len(tail)))
                tail += data
            else:
                out.append(p)
        return b"".join(out) + tail


def cursive_subtable(recs):
    """recs: {gid: (entry|None, exit|None)}"""
    gids = sorted(recs)
    b = Blob().add(u16(1)).off(coverage(gids)).add(u16(len(gids)))
    for g in gids:
        en, ex = recs[g]
        b.off(anchor(en) if en else None).off(anchor(ex) if ex else None)
    return b.build()


def markbase_subtable(marks, bases, nclasses):
    """marks: {gid: (class, anchor)}; bases: {gid: [anchor|None per class]}  (also MarkMarkPos: same layout)"""
    mg, bg = sorted(marks), sorted(bases)
    ma = Blob().add(u16(len(mg)))
    for g in mg:
        ma.add(u16(marks[g][0])).off(anchor(marks[g][1]))
    ba = Blob().add(u16(len(bg)))
    for g in bg:
        for c in range(nclasses):
            a = bases[g][c]
            ba.off(anchor(a) if a else None)
    return Blob().add(u16(1)).off(coverage(mg)).off(coverage(bg)).add(u16(nclasses)).off(ma).off(ba).build()


def marklig_subtable(marks, ligs, nclasses):
    """ligs: {gid: [[anchor|None per class] per component]}"""
    mg, lg = sorted(marks), sorted(ligs)
    ma = Blob().add(u16(len(mg)))
    for g in mg:
        ma.add(u16(marks[g][0])).off(anchor(marks[g][1]))
    la = Blob().add(u16(len(lg)))
    for g in lg:
        att = Blob().add(u16(len(ligs[g])))
        for comp in ligs[g]:
            for c in range(nclasses):
                att.off(anchor(comp[c]) if comp[c] else None)
        la.off(att)
    return Blob().add(u16(1)).off(coverage(mg)).off(coverage(lg)).add(u16(nclasses)).off(ma).off(la).build()


def value_record(v, fmt=0x000F):
    out = b""
    for bit, x in zip((1, 2, 4, 8), v):
        if fmt & bit:
            out += i16(x)
    return out


def single_subtable(values, fmt2=False):
    """values: {gid: (xPla, yPla, xAdv, yAdv)}; format 1 needs all values equal"""
    gids = sorted(values)
    if not fmt2:
        return Blob().add(u16(1)).off(coverage(gids)).add(u16(0xF)).add(value_record(values[gids[0]])).build()
    b = Blob().add(u16(2)).off(coverage(gids)).add(u16(0xF)).add(u16(len(gids)))
    for g in gids:
        b.add(value_record(values[g]))
    return b.build()


def pair_subtable(pairs, f1=0xF, f2=0xF):
    """pairs: {first: {second: (v1, v2)}}"""
    firsts = sorted(pairs)
    b = Blob().add(u16(1)).off(coverage(firsts)).add(u16(f1)).add(u16(f2)).add(u16(len(firsts)))
    for g in firsts:
        ps = Blob().add(u16(len(pairs[g])))
        for s in sorted(pairs[g]):
            v1, v2 = pairs[g][s]
            ps.add(u16(s)).add(value_record(v1, f1)).add(value_record(v2, f2))
        b.off(ps)
    return b.build()


def kern_fmt0_body(pairs):
    n = len(pairs)
    return u16(n) + u16(0) + u16(0) + u16(0) + b"".join(u16(k >> 16) + u16(k & 0xFFFF) + i16(v) for k, v in pairs)


def kern_sm_body():
    """format 1 (state machine) that never pushes: 4 classes, empty class table, 2 zero state rows,
    one entry (new_state = state array offset -> state 0, flags 0 = advance)."""
    hdr = u16(4) + u16(10) + u16(14) + u16(22) + u16(26)
    return hdr + u16(0) + u16(0) + bytes(8) + u16(14) + u16(0)


def kern_table_ot(subs):
    """OpenType flavour (version 0): subs = [{'h','c','pairs'}]  (format 0 only; never variable)"""
    out = u16(0) + u16(len(subs))
    for s in subs:
        body = kern_fmt0_body(s["pairs"])
        cov = (1 if s["h"] else 0) | (4 if s["c"] else 0)
        out += u16(0) + u16(6 + len(body)) + bytes([0, cov]) + body
    return out


def kern_table_aat(subs):
    """Apple flavour (version 1.0): subs = [{'v','h','c','s','pairs'}]"""
    out = u32(0x00010000) + u32(len(subs))
    for s in subs:
        body = kern_sm_body() if s["s"] else kern_fmt0_body(s["pairs"])
        cov = (0 if s["h"] else 0x80) | (0x40 if s["c"] else 0) | (0x20 if s["v"] else 0)
        out += u32(8 + len(body)) + bytes([cov, 1 if s["s"] else 0]) + u16(0) + body
    return out


def subs_token(subs):
    if not subs:
        return "-"
    out = []
    for s in subs:
        ps = "/".join(f"{k}={v}" for k, v in s["pairs"]) or "-"
        out.append(f"{int(s.get('v', 0))}:{int(s['h'])}:{int(s['c'])}:{int(s.get('s', 0))}:{ps}")
    return ";".join(out)


# ------------------------------------------------------------------------------------------------
# random positions / chains

def rv(r, big=False):
    k = r.below(10)
    if big and k == 0:
        return r.choice([I32MAX, -I32MAX - 1, I32MAX - r.below(50), -I32MAX + r.below(50), 1 << 30, -(1 << 30)])
    if k < 3:
        return 0
    if k < 8:
        return r.range(-60, 60)
    return r.range(-3000, 3000)


def rand_pos(r, n, horizontal=None, big=False):
    ps = []
    for _ in range(n):
        ps.append([rv(r, big), rv(r, big) if r.chance(1, 3) else 0, rv(r, big), rv(r, big), 0, 0])
    return ps


def fmt_pos(ps):
    return " ".join(":".join(str(x) for x in p) for p in ps)


def parse_pos(tok):
    return [int(x) for x in tok.split(":")]


def chains_mark_forest(r, ps):
    """marks attach backwards (what MarkArray.apply creates), bases keep chain 0"""
    for i in range(1, len(ps)):
        if r.chance(2, 3):
            ps[i][4] = -r.range(1, min(i, 4) if r.chance(3, 4) else i)
            ps[i][5] = 1


def chains_long(r, ps, typ):
    """one maximal chain: backward i -> i-1 -> ... or (cursive only) forward i -> i+1 -> ..., which is what
    exhausts the nesting budget of 64 when the array is longer"""
    if typ == 2 and r.chance(1, 2):
        for i in range(len(ps) - 1):
            ps[i][4] = 1; ps[i][5] = 2
        return
    for i in range(1, len(ps)):
        ps[i][4] = -1; ps[i][5] = typ


def chains_cursive(r, ps):
    """acyclic cursive links in both directions: each glyph may attach to a neighbour processed earlier
    in a random order (a forest)"""
    n = len(ps)
    order = r.shuffle(list(range(n)))
    placed = set()
    for i in order:
        cand = [j for j in (i - 1, i + 1, i - 2, i + 2) if 0 <= j < n and j in placed]
        if cand and r.chance(3, 4):
            j = r.choice(cand)
            ps[i][4] = j - i; ps[i][5] = 2
        placed.add(i)


def chains_mixed(r, ps):
    chains_cursive(r, ps)
    for i in range(1, len(ps)):
        if ps[i][4] == 0 and r.chance(1, 2):
            ps[i][4] = -r.range(1, i); ps[i][5] = 1


def chains_wild(r, ps):
    n = len(ps)
    for i in range(n):
        k = r.below(6)
        if k == 0:
            continue
        ps[i][4] = r.choice([r.range(-n, n), r.range(-3, 3), r.range(-n - 3, n + 3), 32767, -32768, 1, -1])
        ps[i][5] = r.choice([0, 1, 2, 1, 2, 3, 255])


def rand_attached(r, big=False, maxn=12):
    n = r.range(1, maxn) if r.chance(9, 10) else r.range(30, 150)
    ps = rand_pos(r, n, big=big)
    k = r.below(10)
    kind = ("mark" if k < 3 else "cursive" if k < 5 else "mixed" if k < 7 else "wild" if k < 9 else "long")
    {"mark": chains_mark_forest, "cursive": chains_cursive, "mixed": chains_mixed, "wild": chains_wild,
     "long": lambda r, ps: chains_long(r, ps, r.choice([1, 2]))}[kind](r, ps)
    return kind, ps


def prop_lines(r, n):
    lines = []
    for _ in range(n):
        kind, ps = rand_attached(r, big=r.chance(1, 10))
        d = r.choice(DIRS + ["i"] if r.chance(1, 10) else DIRS)
        ln = len(ps)
        if kind == "wild" and r.chance(1, 5):
            ln = max(0, ln + r.range(-2, 2))
        k = r.below(10)
        if k < 5:
            lines.append(f"gp finish {d} {ln} {0 if r.chance(1, 12) else 1} {fmt_pos(ps)}")
        elif k < 8:
            lines.append(f"gp prop {d} {ln} {r.below(len(ps) + (1 if kind == 'wild' else 0))} {fmt_pos(ps)}")
        elif k < 9:          # explicit nesting budget (0 = the link is dropped at once)
            nl = r.choice([0, 1, 2, 3, r.below(12), 63, 64, 65])
            lines.append(f"gp propn {d} {ln} {r.below(len(ps) + (1 if kind == 'wild' else 0))} {nl} {fmt_pos(ps)}")
        else:
            for p in ps:
                if r.chance(1, 2): p[5] = r.below(4)
            lines.append(f"gp start {ln} {fmt_pos(ps)}")
    return lines


def canon(s):
    """panic kinds only (the model prints `panic oob` / `panic assert`)"""
    if s.startswith("panic "):
        if "assertion failed: j < i" in s:
            return "panic assert"
        if "out of bounds" in s or "out of range" in s or "range end index" in s or "range start index" in s:
            return "panic oob"
    return s


def classify_prop(ln, out):
    t = ln.split()
    ks = [t[1], "dir:" + t[2] if t[1] != "start" else "start"]
    if out.startswith("panic"):
        ks.append(out)
    elif t[1] in ("finish", "prop", "propn"):
        ps = [parse_pos(x) for x in t[(6 if t[1] == "propn" else 5):]]
        if t[1] == "propn":
            ks.append("budget:" + ("0" if t[5] == "0" else "1-11" if int(t[5]) < 12 else "63+"))
        nzc = sum(1 for p in ps if p[4] != 0)
        ks.append("chains:0" if nzc == 0 else "chains:1-3" if nzc < 4 else "chains:4-15" if nzc < 16 else "chains:16+")
        fwd = run = 0
        for q in ps:
            run = run + 1 if q[4] == 1 else 0
            fwd = max(fwd, run)
        if fwd > 64: ks.append("forward-chain>64(budget exhausted)")
        if any(abs(v) > (1 << 29) for p in ps for v in p[:4]):
            ks.append("near-i32-limits")
    return ks


# ------------------------------------------------------------------------------------------------
# subtable application through the real Apply impls

MARK, BASE, LIG = 8, 2, 4
IGNORE_MARKS, RTL_FLAG = 8, 1


def ra(r):
    return (r.range(-500, 500), r.range(-500, 500))


def sub_line(kind, data, props, d, idx, infos, model, ps):
    inf = ",".join(f"{g}:{gp}:{lp}" for g, gp, lp in infos)
    return f"gp sub {kind} {data.hex()} {props} {d} {idx} {inf} {model} | {fmt_pos(ps)}"


def chains_cyclic(r, ps):
    """cursive links with small random steps in both directions: plenty of cycles (2-cycles, 3-cycles, rho
    shapes), what reverse_cursive_minor_offset has to survive; some nodes carry non-cursive types or no link"""
    n = len(ps)
    for i in range(n):
        if r.chance(1, 8):
            continue
        c = r.choice([1, -1, 1, -1, 2, -2, 3, -3])
        if not 0 <= i + c < n:
            c = -c
        if 0 <= i + c < n:
            ps[i][4] = c
            ps[i][5] = r.choice([2, 2, 2, 2, 2, 3, 1, 6])


def chains_zigzag(r, ps):
    """long chains whose links alternate in direction (0 -> 2 -> 1 -> 3 -> 2 ...) or run forward / backward:
    what alternating RightToLeft flags leave behind"""
    n = len(ps)
    k = r.below(3)
    for i in range(n):
        c = (1 if k == 0 else -1 if k == 1 else (2 if i % 2 == 0 else -1))
        if 0 <= i + c < n:
            ps[i][4] = c; ps[i][5] = 2
    if r.chance(1, 2) and n > 2:
        ps[r.below(n)][4] = 0        # a root somewhere in the middle


def gen_cursive(r):
    n = r.range(2, 9) if r.chance(5, 6) else r.range(40, 160)
    d = r.choice(DIRS)
    props = (IGNORE_MARKS if r.chance(1, 2) else 0) | (RTL_FLAG if r.chance(1, 2) else 0)
    marks = [r.chance(1, 4) for _ in range(n)]
    infos = [(k + 1, MARK if marks[k] else BASE, 0) for k in range(n)]
    recs = {}
    for k in range(n):
        recs[k + 1] = (ra(r) if r.chance(7, 8) else None, ra(r) if r.chance(7, 8) else None)
    skip = lambda k: bool(props & IGNORE_MARKS) and marks[k]
    cands = [k for k in range(1, n) if not skip(k)] or [r.range(1, n - 1)]
    j = r.choice(cands)
    i = next((k for k in range(j - 1, -1, -1) if not skip(k)), None)
    ps = rand_pos(r, n)
    k = r.below(5)
    if k == 0:
        chains_cursive(r, ps)
    elif k == 1:
        chains_long(r, ps, 2)
        if r.chance(1, 2):                       # forward chain instead
            for q in ps: q[4] = 0
            for t in range(n - 1): ps[t][4] = 1; ps[t][5] = 2
    elif k == 2:
        chains_mixed(r, ps)
    else:
        (chains_cyclic if r.chance(2, 3) else chains_zigzag)(r, ps)
    en, ex = recs[j + 1][0], (recs[i + 1][1] if i is not None else None)
    applies = int(i is not None and en is not None and ex is not None)
    en, ex = en or (0, 0), ex or (0, 0)
    model = f"cursive {i if i is not None else 0} {j} {int(bool(props & RTL_FLAG))} {en[0]} {en[1]} {ex[0]} {ex[1]} {applies}"
    return sub_line(3, cursive_subtable(recs), props, d, j, infos, model, ps)


def gen_mark(r):
    n = r.range(2, 8)
    d = r.choice(DIRS)
    marks = [k > 0 and r.chance(1, 2) for k in range(n)]
    if r.chance(1, 10):
        marks[0] = True
    infos = [(k + 1, MARK if marks[k] else BASE, 0) for k in range(n)]
    mk = [k for k in range(n) if marks[k]] or [n - 1]
    idx = r.choice(mk)
    marks[idx] = True
    infos[idx] = (idx + 1, MARK, 0)
    ncls = r.range(1, 3)
    mrecs = {k + 1: (r.below(ncls), ra(r)) for k in range(n) if marks[k]}
    brecs = {k + 1: [ra(r) if r.chance(5, 6) else None for _ in range(ncls)] for k in range(n) if not marks[k]}
    if not brecs:
        brecs = {n + 5: [ra(r) for _ in range(ncls)]}
    base = next((k for k in range(idx - 1, -1, -1) if not marks[k]), None)
    cls, ma = mrecs[idx + 1]
    ba = brecs[base + 1][cls] if base is not None else None
    applies = int(ba is not None)
    ba = ba or (0, 0)
    ps = rand_pos(r, n)
    if r.chance(1, 2):
        chains_mark_forest(r, ps)
    model = f"mark {base or 0} {ma[0]} {ma[1]} {ba[0]} {ba[1]} {applies}"
    return sub_line(4, markbase_subtable(mrecs, brecs, ncls), 0, d, idx, infos, model, ps)


def rvr(r):
    return tuple(r.choice([0, 0, r.range(-300, 300)]) for _ in range(4))


def gen_single(r):
    n = r.range(1, 6)
    d = r.choice(DIRS)
    infos = [(k + 1, BASE, 0) for k in range(n)]
    idx = r.below(n)
    fmt2 = r.chance(1, 2)
    vals = {k + 1: rvr(r) for k in range(n) if r.chance(4, 5)}
    if not fmt2 and vals:
        v = rvr(r); vals = {g: v for g in vals}
    if not vals:
        vals = {n + 3: rvr(r)}
    applies = int(idx + 1 in vals)
    v = vals.get(idx + 1, (0, 0, 0, 0))
    model = f"single {v[0]} {v[1]} {v[2]} {v[3]} {applies}"
    return sub_line(1, single_subtable(vals, fmt2), 0, d, idx, infos, model, rand_pos(r, n))


def gen_pair(r):
    n = r.range(2, 7)
    d = r.choice(DIRS)
    props = IGNORE_MARKS if r.chance(1, 2) else 0
    marks = [r.chance(1, 4) for _ in range(n)]
    infos = [(k + 1, MARK if marks[k] else BASE, 0) for k in range(n)]
    skip = lambda k: bool(props) and marks[k]
    i = r.below(n - 1)
    j = next((k for k in range(i + 1, n) if not skip(k)), None)
    f1 = r.choice([0xF, 0xF, 0x5, 0])
    f2 = r.choice([0xF, 0, 0, 0x4])
    mask = lambda v, f: tuple(x if f & b else 0 for x, b in zip(v, (1, 2, 4, 8)))
    pairs = {}
    for a in range(n):
        pairs[a + 1] = {b + 1: (mask(rvr(r), f1), mask(rvr(r), f2)) for b in range(n) if r.chance(3, 4)}
    applies = int(j is not None and (j + 1) in pairs[i + 1])
    v1, v2 = pairs[i + 1].get((j or 0) + 1, ((0,) * 4, (0,) * 4))
    model = f"pair {j or 0} {' '.join(map(str, v1))} {' '.join(map(str, v2))} {applies}"
    return sub_line(2, pair_subtable(pairs, f1, f2), props, d, i, infos, model, rand_pos(r, n))


import _gposdev as GD


def rand_ppem(r, vrs):
    """(ppem_x, ppem_y): mostly sizes at which a device of these records is live, sometimes 0 / outside"""
    live = GD.device_sizes(vrs) or [12]
    def one():
        k = r.below(8)
        return 0 if k == 0 else r.range(6, 40) if k == 1 else r.choice(live)
    x = one()
    return (x, x) if r.chance(1, 2) else (x, one())


def subd_line(ppem, kind, data, props, d, idx, infos, model, ps):
    inf = ",".join(f"{g}:{gp}:{lp}" for g, gp, lp in infos)
    return f"gp subd {ppem[0]} {ppem[1]} {kind} {data.hex()} {props} {d} {idx} {inf} {model} | {fmt_pos(ps)}"


def gen_single_d(r):
    n = r.range(1, 6)
    d = r.choice(DIRS)
    infos = [(k + 1, BASE, 0) for k in range(n)]
    idx = r.below(n)
    fmt = r.choice([1, 2])
    vf = GD.rand_vf(r)
    vals = {k + 1: GD.rand_vr(r, vf) for k in range(n) if r.chance(4, 5)} or {n + 3: GD.rand_vr(r, vf)}
    if fmt == 1:
        v = vals[min(vals)]; vals = {g: v for g in vals}
    applies = int(idx + 1 in vals)
    v = vals.get(idx + 1, GD.EMPTY_VR)
    ppem = rand_ppem(r, list(vals.values()))
    model = f"singled {int(ppem[0] != 0)} {int(ppem[1] != 0)} {' '.join(GD.vr_tokens(v, *ppem))} {applies}"
    return subd_line(ppem, 1, GD.single_subtable(vals, vf, fmt), 0, d, idx, infos, model, rand_pos(r, n))


def gen_pair_d(r):
    n = r.range(2, 7)
    d = r.choice(DIRS)
    props = IGNORE_MARKS if r.chance(1, 2) else 0
    marks = [r.chance(1, 4) for _ in range(n)]
    infos = [(k + 1, MARK if marks[k] else BASE, 0) for k in range(n)]
    skip = lambda k: bool(props) and marks[k]
    i = r.below(n - 1)
    j = next((k for k in range(i + 1, n) if not skip(k)), None)
    vf1 = GD.rand_vf(r)
    vf2 = r.choice([0, 0, GD.rand_vf(r), r.choice(GD.BITS[4:])])
    allv = []
    if r.chance(1, 2):
        pairs = {}
        for a in range(n):
            pairs[a + 1] = {b + 1: (GD.rand_vr(r, vf1), GD.rand_vr(r, vf2)) for b in range(n) if r.chance(3, 4)}
        data = GD.pair_subtable_f1(pairs, vf1, vf2)
        rec = pairs[i + 1].get((j or 0) + 1) if j is not None else None
        allv = [v for ps in pairs.values() for pr in ps.values() for v in pr]
        if rec is not None:          # ttf-parser 0.25 cannot reach a device table from a PairSet (see _gposdev.pairset_visible)
            rec = tuple(GD.pairset_visible(v) for v in rec)
    else:
        nc1, nc2 = r.range(1, 3), r.range(1, 3)
        cov = [g for g in range(1, n + 1) if r.chance(4, 5)] or [1]
        cls1 = {g: r.below(nc1) for g in range(1, n + 1)}
        cls2 = {g: r.below(nc2) for g in range(1, n + 1)}
        matrix = [[(GD.rand_vr(r, vf1), GD.rand_vr(r, vf2)) for _ in range(nc2)] for _ in range(nc1)]
        data = GD.pair_subtable_f2(cov, cls1, cls2, matrix, vf1, vf2)
        rec = matrix[cls1[i + 1]][cls2[j + 1]] if j is not None and (i + 1) in cov else None
        allv = [v for row in matrix for pr in row for v in pr]
    applies = int(rec is not None)
    v1, v2 = rec or (GD.EMPTY_VR, GD.EMPTY_VR)
    ppem = rand_ppem(r, allv)
    model = (f"paird {j or 0} {int(ppem[0] != 0)} {int(ppem[1] != 0)} {' '.join(GD.vr_tokens(v1, *ppem))} "
             f"{' '.join(GD.vr_tokens(v2, *ppem))} {applies}")
    return subd_line(ppem, 2, data, props, d, i, infos, model, rand_pos(r, n))


def subd_lines(r, n):
    return [r.choice([gen_single_d, gen_pair_d])(r) for _ in range(n)]


def expected_subd(ln):
    """closed form of a `gp subd` request (C07_value_exact_device): the reply the font's values and device deltas demand"""
    t = ln.split()
    bar = t.index("|")
    m, d, idx = t[10:bar], t[7], int(t[8])
    ps = [parse_pos(x) for x in t[bar + 1:]]
    if m[-1] == "0":
        return f"ok 0 {idx} 0 {fmt_pos(ps)}"
    horiz = d in "lr"

    def apply(k, vt, ux, uy):
        v = [int(x) for x in vt[:4]]
        dv = [0 if x == "-" else int(x) for x in vt[4:]]
        ps[k][2] += v[0] + (dv[0] if ux else 0)
        ps[k][3] += v[1] + (dv[1] if uy else 0)
        if horiz: ps[k][0] += v[2] + (dv[2] if ux else 0)
        else: ps[k][1] -= v[3] + (dv[3] if uy else 0)
    empty = lambda vt: all(x in ("0", "-") for x in vt[:4]) and all(x == "-" for x in vt[4:])
    if m[0] == "singled":
        apply(idx, m[3:11], m[1] == "1", m[2] == "1")
        nxt = idx + 1
    else:
        j, ux, uy = int(m[1]), m[2] == "1", m[3] == "1"
        v1, v2 = m[4:12], m[12:20]
        if not empty(v1): apply(idx, v1, ux, uy)
        if not empty(v2): apply(j, v2, ux, uy)
        nxt = j if empty(v2) else j + 1
    return f"ok 1 {nxt} 0 {fmt_pos(ps)}"


def device_value_search(ctx, shim, r, n):
    """adjustments equal the font's values, device tables included: SinglePos / PairPos subtables with every value-format bit
    through the crate's own Apply impls on a face with ppem; the expected positions are computed here in closed form from the
    records and from the deltas the Device tables hold for that ppem"""
    lines = subd_lines(r, n)
    outs = vlib.run_lines(shim, lines)
    live = bad = 0
    for ln, o in zip(lines, outs):
        e = expected_subd(ln)
        if "live" in "".join(classify_subd(ln, o)): live += 1
        if o != e:
            bad += 1
            if bad <= 2:
                a, b = o.split(), e.split()
                k = next((i for i in range(min(len(a), len(b))) if a[i] != b[i]), 0)
                ctx.violation(f"value record with device tables (ppem {ln.split()[2]}/{ln.split()[3]}, direction {ln.split()[7]}): the crate "
                              f"yields {' '.join(a[k:k + 2])} where the record's values and device deltas give {' '.join(b[k:k + 2])} "
                              f"(reply token {k}; xa:ya:xo:yo:chain:type)",
                              {"stage": "search", "stream": "device-values", "request": ln, "expected": e, "observed": o})
    # permanent probe of F23: a Device table referenced from a PairValueRecord of a PairSet (PairPos FORMAT 1).  The oracle above
    # hands the model what ttf-parser 0.25 delivers (`pairset_visible`: the device is absent); here the record is judged against
    # the FONT: x_advance must change by the value plus the device delta of the size.
    v1 = GD.mask_vr({"v": [0, 0, -50, 0], "dev": [None, None, {"start": 12, "fmt": 3, "deltas": [7, 0]}, None]}, 0x44)
    pdata = GD.pair_subtable_f1({1: {2: (v1, GD.EMPTY_VR)}}, 0x44, 0)
    pmodel = f"paird 1 1 1 {' '.join(GD.vr_tokens(v1, 12, 12))} {' '.join(GD.vr_tokens(GD.EMPTY_VR, 12, 12))} 1"
    pln = subd_line((12, 12), 2, pdata, 0, "l", 0, [(1, BASE, 0), (2, BASE, 0)], pmodel, [[500, 0, 0, 0, 0, 0], [600, 0, 0, 0, 0, 0]])
    po = vlib.run_lines(shim, [pln])[0]
    pe = expected_subd(pln)
    if po != pe:
        ctx.violation("PairPos format 1: the Device table of a PairValueRecord is not applied (ppem 12: x_advance -50 and device delta "
                      f"{GD.device_delta(v1['dev'][2], 12)} expected; the crate yields {po.split()[4] if len(po.split()) > 4 else po})",
                      {"stage": "search", "stream": "device-values", "class": "pairset-device-dropped", "request": pln,
                       "expected": pe, "observed": po})
    ctx.note_search("device-values", len(lines), live,
                    rule="SinglePos 1/2 and PairPos 1/2 subtables with random value formats over all eight bits and hinting Device / "
                         "VariationIndex tables, applied by the crate on a face with (ppem_x, ppem_y) at live sizes / elsewhere / 0, "
                         "4 directions; expected = placements + their device deltas, advance + its device delta on the run's axis "
                         "only, computed from the recipe; non-trivial = a device with a non-zero delta at this ppem is in the record")


def classify_subd(ln, out):
    t = ln.split()
    bar = t.index("|")
    m = t[10:bar]
    ks = [m[0], f"{m[0]}:dir:{t[7]}", f"{m[0]}:applied:{m[-1]}", f"{m[0]}:ppem:{'x' if t[2] != '0' else ''}{'y' if t[3] != '0' else ''}" ]
    vals = m[3:-1] if m[0] == "singled" else m[4:-1]
    devs = [x for k, x in enumerate(vals) if k % 8 >= 4]
    ks.append(f"{m[0]}:devices:" + ("none" if all(x == "-" for x in devs) else "all-zero" if all(x in "-0" for x in devs) else "live"))
    for k, x in enumerate(vals):
        if k % 8 >= 4 and x not in ("-", "0") and m[-1] == "1":
            ks.append(f"live:{('xPla', 'yPla', 'xAdv', 'yAdv')[k % 8 - 4]}Device:{'h' if t[7] in 'lr' else 'v'}")
    if out.startswith("panic") or not out.startswith("ok"):
        ks.append(out[:30])
    return ks


CHAIN_MAX = 32767


def gen_far(r):
    """the i16 guard of MarkArray::apply / CursivePos::apply: base (or previous unskipped glyph) CHAIN_MAX-1 ..
    CHAIN_MAX+2 positions before the current glyph, only marks in between"""
    dist = CHAIN_MAX + r.range(-1, 2)
    pre = r.below(3)
    n = pre + dist + 1
    d = r.choice(DIRS)
    idx = n - 1
    b = pre
    ps = [[0, 0, 0, 0, 0, 0] for _ in range(n)]
    for k in r.sample(range(n), 6) + [b, idx]:
        ps[k] = rand_pos(r, 1)[0]
    applies = int(dist <= CHAIN_MAX)
    if r.chance(1, 2):
        infos = [(1, BASE, 0)] * pre + [(1, BASE, 0)] + [(2, MARK, 0)] * dist
        ma, ba = ra(r), ra(r)
        data = markbase_subtable({2: (0, ma)}, {1: [ba]}, 1)
        model = f"mark {b} {ma[0]} {ma[1]} {ba[0]} {ba[1]} {applies}"
        return sub_line(4, data, 0, d, idx, infos, model, ps)
    props = IGNORE_MARKS | (RTL_FLAG if r.chance(1, 2) else 0)
    infos = [(2, MARK, 0)] * pre + [(1, BASE, 0)] + [(2, MARK, 0)] * (dist - 1) + [(1, BASE, 0)]
    en, ex = ra(r), ra(r)
    data = cursive_subtable({1: (en, ex)})
    model = f"cursive {b} {idx} {int(bool(props & RTL_FLAG))} {en[0]} {en[1]} {ex[0]} {ex[1]} {applies}"
    return sub_line(3, data, props, d, idx, infos, model, ps)


def sub_lines(r, n):
    gens = [gen_cursive, gen_cursive, gen_cursive, gen_mark, gen_mark, gen_single, gen_pair]
    return [r.choice(gens)(r) for _ in range(n)] + [gen_far(r) for _ in range(max(4, n // 20000))]


def classify_sub(ln, out):
    t = ln.split()
    bar = t.index("|")
    m = t[8:bar]
    ks = [m[0], f"{m[0]}:dir:{t[5]}", f"{m[0]}:applied:{m[-1]}"]
    if len(t) - bar > 30000:
        ks.append(f"far(i16 guard):{m[0]}:applied:{m[-1]}")
    if m[0] == "cursive":
        ks.append("cursive:rtlflag:" + m[3])
        ps = [parse_pos(x) for x in t[bar + 1:]]
        if m[-1] == "1":
            child = int(m[1]) if m[3] == "1" else int(m[2])
            ks.append("cursive:child-had-chain:" + str(int(ps[child][4] != 0 and ps[child][5] & 2 != 0)))
            # length of the walk reverse_cursive_minor_offset makes from the child, and whether it closes a cycle
            seen, cur, steps = set(), child, 0
            parent = int(m[2]) if m[3] == "1" else int(m[1])
            while 0 <= cur < len(ps) and cur not in seen and ps[cur][4] != 0 and ps[cur][5] & 2:
                seen.add(cur); steps += 1
                nxt = cur + ps[cur][4]
                if nxt == parent: break
                cur = nxt
            else:
                if cur in seen: ks.append("cursive:reverse-walk-closes-a-cycle")
            ks.append("cursive:reverse-walk:" + ("0" if steps == 0 else "1-3" if steps < 4 else "4-31" if steps < 32 else "32+"))
    if out.startswith("panic"):
        ks.append(out)
    return ks


# ------------------------------------------------------------------------------------------------
# kern: machine_kern, format 0 lookup, the subtable driver

def rand_kinfos(r, n, masks=(1,)):
    out = []
    for _ in range(n):
        g = r.range(1, 6)
        m = r.choice(masks) if r.chance(5, 6) else 0
        out.append((g, m, int(r.chance(1, 5)), int(r.chance(1, 8))))
    return out


def kinfos_token(infos):
    return ",".join(f"{g}:{m}:{mk}:{di}" for g, m, mk, di in infos) or "-"


def rkern(r):
    return r.choice([r.range(-200, 200), r.range(-9, 9), -1, 1, 0, -32768, 32767, r.range(-32768, 32767)])


def mk_lines(r, n):
    lines = []
    for _ in range(n):
        ng = r.range(0, 10)
        kmask = r.choice([1, 2, 6, 0x80000000])
        infos = rand_kinfos(r, ng, masks=(kmask, kmask | 1, 1 | 2 | 4))
        d = r.choice(DIRS + ["i"] if r.chance(1, 10) else DIRS)
        cross = int(r.chance(1, 4))
        pairs = []
        for a in range(1, 7):
            for b in range(1, 7):
                if r.chance(1, 3):
                    pairs.append((a, b, rkern(r)))
        pt = ",".join(f"{a}:{b}:{v}" for a, b, v in pairs) or "-"
        lines.append(f"kern mk {d} {ng} {kmask} {cross} {pt} {kinfos_token(infos)} | {fmt_pos(rand_pos(r, ng, big=r.chance(1, 10)))}")
    return lines


def classify_mk(ln, out):
    t = ln.split()
    ks = ["mk", "mk:dir:" + t[2], "mk:cross:" + t[5]]
    bar = t.index("|")
    before = " ".join(t[bar + 1:])
    after = " ".join(out.split()[2:]) if out.startswith("ok") else None
    ks.append("mk:changed" if after is not None and after != before else "mk:unchanged")
    return ks


def rand_fmt0_pairs(r, sorted_=True, n=None):
    n = r.range(0, 12) if n is None else n
    keys = set()
    while len(keys) < n:
        keys.add((r.range(1, 6) << 16) | r.range(1, 6))
    keys = sorted(keys)
    if not sorted_:
        keys = r.shuffle(keys)
        if keys and r.chance(1, 2):
            keys.append(r.choice(keys))          # duplicate key
    return [(k, rkern(r)) for k in keys]


def f0_lines(r, n):
    lines = []
    for _ in range(n):
        pairs = rand_fmt0_pairs(r, sorted_=r.chance(3, 4))
        tbl = kern_table_ot([{"h": 1, "c": 0, "pairs": pairs}])
        pt = "/".join(f"{k}={v}" for k, v in pairs) or "-"
        if pairs and r.chance(2, 3):
            k = r.choice(pairs)[0]; l, rr = k >> 16, k & 0xFFFF
        else:
            l, rr = r.range(0, 7), r.range(0, 7)
        lines.append(f"kern f0 {tbl.hex()} 0 {l} {rr} {pt}")
    return lines


def rand_subs(r, aat):
    subs = []
    for _ in range(r.range(0, 4) if r.chance(4, 5) else r.range(5, 9)):
        s = {"v": 0, "h": int(r.chance(3, 4)), "c": int(r.chance(1, 5)), "s": 0, "pairs": rand_fmt0_pairs(r)}
        if aat:
            s["v"] = int(r.chance(1, 8)); s["s"] = int(r.chance(1, 4))
            if s["s"]: s["pairs"] = []
        subs.append(s)
    return subs


def plan_table(shim):
    """(kern_mask, requested_kerning) the crate's plan computes on a kern-only face, per direction x kern feature"""
    keys = [(d, f) for d in DIRS for f in ("0", "1", "-")]
    tbl = kern_table_ot([{"h": 1, "c": 0, "pairs": [(0x10002, -10)]}])
    outs = vlib.run_lines(shim, [f"kern plan {tbl.hex()} {d} {f}" for d, f in keys], nproc=1)
    res = {}
    for k, o in zip(keys, outs):
        t = o.split()
        if t[0] != "ok":
            raise vlib.BuildError(f"kern plan query failed: {k} -> {o}")
        res[k] = (int(t[1]), int(t[2]), int(t[3]))
    return res


def drv_lines(r, n, plans):
    lines = []
    for _ in range(n):
        aat = r.chance(1, 2)
        subs = rand_subs(r, aat)
        tbl = kern_table_aat(subs) if aat else kern_table_ot(subs)
        d = r.choice(DIRS)
        f = r.choice(["0", "1", "-"])
        mask, req, _ = plans[(d, f)]
        ng = r.range(0, 8)
        infos = rand_kinfos(r, ng, masks=(mask or 1, 0xFFFFFFFF, 1))
        lines.append(f"kern drv {tbl.hex()} {d} {f} {mask} {req} {subs_token(subs)} {kinfos_token(infos)} | {fmt_pos(rand_pos(r, ng))}")
    return lines


def classify_drv(ln, out):
    t = ln.split()
    ks = ["drv", "drv:dir:" + t[3], "drv:requested:" + t[6]]
    subs = [] if t[7] == "-" else [s.split(":") for s in t[7].split(";")]
    horiz = t[3] in "lr"
    live = [s for s in subs if s[0] == "0" and (s[1] == "1") == horiz]
    ks.append("drv:applicable-subtables:" + str(min(len(live), 3)))
    if any(s[3] == "1" for s in live): ks.append("drv:has-state-machine")
    if any(s[2] == "1" for s in live): ks.append("drv:has-cross-stream")
    if out.startswith("ok"):
        gids = out.split()[2]
        want = ",".join(x.split(":")[0] for x in t[8].split(",")) if t[8] != "-" else "-"
        ks.append("drv:order-kept" if gids == want or len(want.split(",")) < 2 else "drv:order-REVERSED(D3)")
    return ks


# ------------------------------------------------------------------------------------------------
# search: oracles on the implementation alone

def origins(ps, backward):
    """pen model on the array as the client sees it (after the final reverse for backward directions)"""
    out = list(reversed(ps)) if backward else ps
    x = y = 0
    res = []
    for p in out:
        res.append((x + p[2], y + p[3]))
        x += p[0]; y += p[1]
    return list(reversed(res)) if backward else res      # indexed like `ps`


def mark_chain_search(ctx, shim, r, n):
    """mark chains built by the real MarkBasePos::apply, finished by the real position_finish_offsets:
    every mark's anchor must land on its target's anchor in the pen model (all four directions)."""
    lines, meta = [], []
    for _ in range(n):
        ng = r.range(2, 10) if r.chance(9, 10) else r.range(40, 70)
        d = r.choice(DIRS)
        ps = rand_pos(r, ng)
        for p in ps:
            if d in "lr": p[1] = 0
            else: p[0] = 0
        att = []
        for i in range(1, ng):
            if r.chance(3, 4):
                j = i - 1 if r.chance(1, 2) else r.below(i)
                ma, ba = ra(r), ra(r)
                ps[i][2], ps[i][3], ps[i][4], ps[i][5] = ba[0] - ma[0], ba[1] - ma[1], j - i, 1
                att.append((i, j, ma, ba))
        lines.append(f"gp finish {d} {ng} 1 {fmt_pos(ps)}")
        meta.append((d, att))
    outs = vlib.run_lines(shim, lines)
    nontriv = nbad = 0
    for ln, o, (d, att) in zip(lines, outs, meta):
        if not o.startswith("ok"):
            ctx.violation(f"position_finish_offsets failed on a well-formed mark forest: {o}",
                          {"stage": "search", "stream": "mark-coincide", "request": ln, "observed": o})
            continue
        ps = [parse_pos(x) for x in o.split()[1:]]
        org = origins(ps, d in "rb")
        if att: nontriv += 1
        for i, j, ma, ba in att:
            if (org[i][0] + ma[0], org[i][1] + ma[1]) != (org[j][0] + ba[0], org[j][1] + ba[1]):
                nbad += 1
                if nbad <= 2: ctx.violation(f"mark {i} anchor does not coincide with anchor of its target {j} (dir {d})",
                              {"stage": "search", "stream": "mark-coincide", "request": ln, "observed": o,
                               "mark": i, "target": j})
                break
    ctx.note_search("mark-coincide", len(lines), nontriv,
                    rule="random mark forests (offsets = base anchor - mark anchor, chain to an earlier glyph) through the "
                         "crate's position_finish_offsets; pen-model origin+anchor of every mark must equal its target's; "
                         "non-trivial = at least one attachment")


# ------------------------------------------------------------------------------------------------
# end to end through shape() on generated fonts (tools/fontbuild.py)

import fontbuild

NG = 14
E_BASES = list(range(1, 7))
E_MARKS = list(range(7, 12))
TAG = lambda t: t.encode().hex()


def buffer_order(text, d):
    """glyph order GPOS sees: vertical text that is not top-to-bottom is reversed up front
    (ensure_native_direction) and shaped as TTB; DFLT script has no native horizontal direction"""
    return (list(reversed(text)), "t") if d == "b" else (list(text), d)


def shape_line(fid, d, text, feats="-"):
    t = ",".join(f"{0xE000 + g - 1:x}:{i}" for i, g in enumerate(text)) or "-"
    return f"shape {fid} {d} - - 0 0 {feats} - - {t}"


def parse_shape(o):
    t = o.split()
    if not t or t[0] != "ok":
        return None
    out = []
    for x in t[2:]:
        g, cl, fl, xa, ya, xo, yo = x.split(":")
        out.append((int(g), int(cl), int(xa), int(ya), int(xo), int(yo)))
    return out


def pen_by_cluster(out):
    """{cluster: (origin_x, origin_y, record)} in the pen model over the output order"""
    x = y = 0
    res = {}
    for g, cl, xa, ya, xo, yo in out:
        res[cl] = (x + xo, y + yo, (g, xa, ya, xo, yo))
        x += xa; y += ya
    return res


def attach_font(r, tangled=False):
    """marks / mkmk / cursive lookups, all under the common feature `mark` (applied in every direction,
    in lookup-list order).  tangled=True: the cursive lookups differ in IgnoreMarks and cover the marks too, which
    makes them pair different glyphs and can tie the links into cycles (a -> b -> c -> a): no geometric oracle
    holds there, the text must merely be shaped without a crash."""
    adv = [0] + [r.range(300, 900) for _ in range(NG - 1)]
    rec = {"num_glyphs": NG, "cmap": "pua", "advances": adv,
           "gdef": {"classes": {**{g: 1 for g in E_BASES}, **{g: 3 for g in E_MARKS}}}}
    if r.chance(1, 2):
        rec["vadvances"] = [0] + [r.range(700, 1200) for _ in range(NG - 1)]
    if r.chance(1, 3):
        rec["vorg"] = {"default": r.range(600, 900), "glyphs": {g: r.range(500, 950) for g in r.sample(range(1, NG), 4)}}
    sem, lookups = [], []
    kinds = r.shuffle(["mark", "mkmk", "curs"] + (["curs"] if r.chance(1, 2) else []) + (["curs"] if r.chance(1, 4) else [])
                      + (["mark"] if r.chance(1, 4) else []))
    ignore_marks = r.chance(2, 3)
    for kd in kinds:
        if kd == "mark":
            k = r.range(1, 2)
            mk = [g for g in E_MARKS if r.chance(5, 6)] or [E_MARKS[0]]
            bs = [g for g in E_BASES if r.chance(5, 6)] or [E_BASES[0]]
            marks = {g: (r.below(k), ra(r)) for g in mk}
            bases = {g: [ra(r) if r.chance(7, 8) else None for _ in range(k)] for g in bs}
            lookups.append({"type": 4, "flag": 0, "subtables": [{
                "mark_coverage": mk, "base_coverage": bs, "class_count": k,
                "marks": [marks[g] for g in mk], "bases": [bases[g] for g in bs]}]})
            sem.append({"kind": "mark", "marks": marks, "bases": bases})
        elif kd == "mkmk":
            k = r.range(1, 2)
            m1 = [g for g in E_MARKS if r.chance(5, 6)] or [E_MARKS[0]]
            m2 = [g for g in E_MARKS if r.chance(5, 6)] or [E_MARKS[1]]
            marks = {g: (r.below(k), ra(r)) for g in m1}
            mark2 = {g: [ra(r) if r.chance(7, 8) else None for _ in range(k)] for g in m2}
            lookups.append({"type": 6, "flag": 0, "subtables": [{
                "mark1_coverage": m1, "mark2_coverage": m2, "class_count": k,
                "marks": [marks[g] for g in m1], "mark2": [mark2[g] for g in m2]}]})
            sem.append({"kind": "mkmk", "marks": marks, "mark2": mark2})
        else:
            flag = (IGNORE_MARKS if ignore_marks else 0) | (RTL_FLAG if r.chance(1, 2) else 0)
            cv = [g for g in E_BASES if r.chance(5, 6)] or E_BASES[:2]
            if tangled:
                flag = (IGNORE_MARKS if r.chance(1, 2) else 0) | (RTL_FLAG if r.chance(1, 2) else 0)
                cv = cv + [g for g in E_MARKS if r.chance(2, 3)]
            ee = {g: (ra(r) if r.chance(8, 9) else None, ra(r) if r.chance(8, 9) else None) for g in cv}
            lookups.append({"type": 3, "flag": flag, "subtables": [{"coverage": cv, "entry_exit": [ee[g] for g in cv]}]})
            sem.append({"kind": "curs", "flag": flag, "ee": ee})
    rec["gpos"] = {"features": [{"tag": "mark", "lookups": list(range(len(lookups)))}], "lookups": lookups}
    return rec, sem


def attach_text(r):
    k = r.below(12)
    if k == 0:       # a long run of marks on one base: mkmk chain far beyond 64
        return [r.choice(E_BASES)] + [r.choice(E_MARKS) for _ in range(r.range(60, 90))]
    if k == 1:       # a long cursive run: beyond the nesting budget (main axis and marks only are checked)
        return [r.choice(E_BASES) for _ in range(r.range(66, 130))]
    if k == 2:       # a cursive run inside the nesting budget of 64: chains of up to 60 links, both axes checked
        return [r.choice(E_BASES) for _ in range(r.range(30, 60))]
    t = []
    for _ in range(r.range(1, 6)):
        t.append(r.choice(E_BASES))
        for _ in range(r.choice([0, 0, 1, 1, 2, 3])):
            t.append(r.choice(E_MARKS))
    if r.chance(1, 8):
        t.insert(0, r.choice(E_MARKS))
    return t


def expected_attachments(sem, B):
    """which mark hangs on which glyph with which anchors, and which cursive pairs are joined with which
    anchors — by the OpenType rules (nearest preceding base / previous mark / previous unskipped glyph),
    the last lookup that applies wins"""
    n = len(B)
    is_mark = [g in E_MARKS for g in B]
    att, pairs = {}, {}
    for lk in sem:
        if lk["kind"] == "mark":
            lastbase = [None] * n
            lb = None
            for i in range(n):
                lastbase[i] = lb
                if not is_mark[i]: lb = i
            for i in range(n):
                if B[i] not in lk["marks"]:
                    continue
                b = lastbase[i]
                if b is None or B[b] not in lk["bases"] or i - b > CHAIN_MAX:
                    continue
                cls, ma = lk["marks"][B[i]]
                ba = lk["bases"][B[b]][cls]
                if ba is not None:
                    att[i] = (b, ma, ba)
        elif lk["kind"] == "mkmk":
            for i in range(1, n):
                if B[i] not in lk["marks"] or not is_mark[i - 1] or B[i - 1] not in lk["mark2"]:
                    continue
                cls, ma = lk["marks"][B[i]]
                ba = lk["mark2"][B[i - 1]][cls]
                if ba is not None:
                    att[i] = (i - 1, ma, ba)
        else:
            skip = lambda k: bool(lk["flag"] & IGNORE_MARKS) and is_mark[k]
            prevok = [None] * n
            lp = None
            for j in range(n):
                prevok[j] = lp
                if not skip(j): lp = j
            for j in range(1, n):
                if skip(j) or B[j] not in lk["ee"] or lk["ee"][B[j]][0] is None:
                    continue
                i = prevok[j]
                if i is None or j - i > CHAIN_MAX or B[i] not in lk["ee"] or lk["ee"][B[i]][1] is None:
                    continue
                pairs[j] = (i, lk["ee"][B[j]][0], lk["ee"][B[i]][1])
    return att, pairs


NEST = 64


def check_attach(sem, text, d, so, stats=None, unattached_zero=False):
    """the geometric oracle on one shape() reply; returns a description of the first anchor pair that does not
    coincide (None when all do).  The cross axis of cursive pairs is resolved by the attachment recursion, which
    carries a nesting budget of 64: it is checked only when the text has fewer joined pairs than that (the main
    axis and the marks do not depend on the recursion depth)."""
    out = parse_shape(so)
    if out is None or len(out) != len(text):
        return f"shape() failed or changed the glyph count on an attachment font: {so[:80]}"
    B, gd = buffer_order(text, d)
    n = len(B)
    cl_of = (lambda k: n - 1 - k) if d == "b" else (lambda k: k)      # buffer index -> input cluster
    pen = pen_by_cluster(out)
    att, pairs = expected_attachments(sem, B)
    if stats is not None:
        stats["per_dir"][d] += 1
        depth = 0
        for i in range(n):
            depth = depth + 1 if i in att and att[i][0] == i - 1 and i - 1 in att else 0
            if depth >= 64: stats["long_mark_chains"] += 1; break
        if len(pairs) >= 64: stats["long_cursive_runs"] += 1
        stats["marks_checked"] += len(att); stats["pairs_checked"] += len(pairs)
    for i, (t, ma, ba) in att.items():
        pi, pt = pen[cl_of(i)], pen[cl_of(t)]
        if (pi[0] + ma[0], pi[1] + ma[1]) != (pt[0] + ba[0], pt[1] + ba[1]):
            return (f"attached anchors do not coincide: mark at buffer index {i} (glyph {B[i]}): origin+mark anchor = "
                    f"{(pi[0] + ma[0], pi[1] + ma[1])} but target {t} (glyph {B[t]}) origin+anchor = "
                    f"{(pt[0] + ba[0], pt[1] + ba[1])}, dir {d}")
    axes = (0, 1) if len(pairs) < NEST else ((0,) if gd in "lr" else (1,))
    if stats is not None and len(pairs) >= NEST: stats["main_axis_only"] += 1
    for j, (i, en, ex) in pairs.items():
        pi, pj = pen[cl_of(i)], pen[cl_of(j)]
        if any(pj[a] + en[a] != pi[a] + ex[a] for a in axes):
            return (f"attached anchors do not coincide: cursive pair ({i},{j}) glyphs ({B[i]},{B[j]}): entry point "
                    f"{(pj[0] + en[0], pj[1] + en[1])} != exit point {(pi[0] + ex[0], pi[1] + ex[1])}, dir {d} "
                    f"({'horizontal' if gd in 'lr' else 'vertical'}, axes checked {axes})")
    if unattached_zero:
        for k in range(n):
            if B[k] in E_MARKS and k not in att and pen[cl_of(k)][2][3:5] != (0, 0):
                return f"unattached mark at buffer index {k} has offsets {pen[cl_of(k)][2][3:5]} instead of (0, 0)"
    return None


def attach_search(ctx, shim, r, nfonts, ntexts):
    groups, meta = [], []
    for f in range(nfonts):
        tangled = f % 8 == 7
        rec, sem = attach_font(r, tangled)
        if tangled: sem = None
        fid = f"A{f}"
        lines, ms = [f"font {fid} {fontbuild.hexfont(rec)}"], []
        for _ in range(ntexts):
            text = attach_text(r)
            d = r.choice(DIRS)
            lines.append(shape_line(fid, d, text))
            ms.append((text, d))
        lines.append(f"fontdrop {fid}")
        groups.append(lines); meta.append((rec, sem, ms))
    outs = vlib.run_groups(shim, groups, timeout=900)
    stats = {"shapes": 0, "marks_checked": 0, "pairs_checked": 0, "long_mark_chains": 0, "long_cursive_runs": 0,
             "main_axis_only": 0, "tangled_monitor_only": 0, "per_dir": {d: 0 for d in DIRS}}
    bad = 0
    for (rec, sem, ms), o, g in zip(meta, outs, groups):
        if o[0] != "ok":
            ctx.violation(f"generated attachment font rejected: {o[0]}", {"stage": "search", "stream": "gpos-shape",
                          "font_line": g[0][:200]}); continue
        for (text, d), so, req in zip(ms, o[1:-1], g[1:-1]):
            stats["shapes"] += 1
            if sem is None:          # tangled cursive lookups: crash / glyph-count monitor only
                stats["tangled_monitor_only"] += 1
                out = parse_shape(so)
                why = None if out is not None and len(out) == len(text) else f"shape() failed on tangled cursive lookups: {so[:100]}"
            else:
                why = check_attach(sem, text, d, so, stats)
            if why:
                bad += 1
                if bad <= 2:
                    ctx.violation(why, {"stage": "search", "stream": "gpos-shape", "font_line": g[0], "request": req,
                                        "observed": so, "text": text, "dir": d, "sem": sem, "recipe": rec})
    ctx.note_search("gpos-shape", stats["shapes"], stats["marks_checked"] + stats["pairs_checked"], detail=stats,
                    rule="generated fonts (GDEF classes, mark-to-base, mark-to-mark, 1-2 cursive lookups with random "
                         "RightToLeft / IgnoreMarks flags, random anchors, optional vmtx/VORG) x random texts x 4 directions "
                         "through shape(); oracle: in the pen model of the output every attached mark's anchor equals its "
                         "target's anchor and every joined pair's entry point equals the exit point (both axes when the text "
                         "has < 64 joined pairs = within the nesting budget, main axis otherwise); "
                         "non-trivial = number of anchor pairs checked")


import _c07_target as tg


def target_search(ctx, shim, r, nfonts, ntexts):
    """the search for the attachment target: GDEF classes independent of the coverages, lookup flags, mark filtering
    sets, several subtables / lookups, marks inside and after real ligatures, default ignorables in between.
    The expected target is computed by tg.expected() from the recipe alone.  Departures that belong to one of the
    three upstream-inherited classes (tg.CLASS_TEXT; decided per failing glyph pair by tg.check) are reported once per
    class and run — smallest input, with the number of occurrences — under "class" in the replay; the permanent
    witness of each class runs first through the same oracle."""
    groups, meta = [], []
    for cls, (rec, sem, text, d, flags) in tg.witnesses().items():
        fid = "W" + str(len(groups))
        groups.append([f"font {fid} {fontbuild.hexfont(rec)}", f"font {fid}p {fontbuild.hexfont(tg.stripped(rec))}",
                       tg.shape_req(fid, d, text, flags), tg.shape_req(fid + "p", d, text, flags),
                       f"fontdrop {fid}", f"fontdrop {fid}p"])
        meta.append((rec, sem, [(text, d, flags)], cls))
    for f in range(nfonts):
        cursive = f % 6 == 5
        rec, sem = tg.target_font(r, cursive=cursive)
        if cursive:          # one cursive lookup: no competing links
            rec["gpos"]["lookups"] = rec["gpos"]["lookups"][:1]; sem["lookups"] = sem["lookups"][:1]
            rec["gpos"]["features"][0]["lookups"] = [0]
        lines = [f"font T{f} {fontbuild.hexfont(rec)}", f"font U{f} {fontbuild.hexfont(tg.stripped(rec))}"]
        ms = []
        for _ in range(ntexts):
            text = tg.target_text(r, sem)
            d = r.choice(DIRS)
            flags = tg.PRESERVE_DI if r.chance(2, 3) else 0
            lines += [tg.shape_req(f"T{f}", d, text, flags), tg.shape_req(f"U{f}", d, text, flags)]
            ms.append((text, d, flags))
        lines += [f"fontdrop T{f}", f"fontdrop U{f}"]
        groups.append(lines); meta.append((rec, sem, ms, None))
    outs = vlib.run_groups(shim, groups, timeout=900)
    stats = {"shapes": 0, "attached": 0, "attached_non_mark": 0, "default_ignorable_between": 0, "with_ligature": 0,
             "with_multiple_subst": 0, "shared_cache_alternatives_possible": 0, "mark_inside_ligature": 0,
             "cursive_cross_axis_only": 0, "witness_shows_its_class": {}, "class_occurrences": {},
             "per_dir": {d: 0 for d in DIRS}}
    bad = 0
    classes = {}              # class -> [count, (len(text), description, replay)]
    for (rec, sem, ms, wcls), o, g in zip(meta, outs, groups):
        if o[0] != "ok" or o[1] != "ok":
            ctx.violation(f"generated target-search font rejected: {o[0]} {o[1]}", {"stage": "search", "stream": "gpos-target",
                          "font_line": g[0][:200]}); continue
        for t, (text, d, flags) in enumerate(ms):
            so, s0 = o[2 + 2 * t], o[3 + 2 * t]
            why, found = tg.check(sem, text, d, flags, so, s0, stats)
            rp = {"stage": "search", "stream": "gpos-target", "font_line": g[0], "plain_font_line": g[1],
                  "request": g[2 + 2 * t], "plain_request": g[3 + 2 * t], "observed": so, "plain": s0,
                  "text": text, "dir": d, "flags": flags, "sem": sem, "recipe": rec}
            if wcls is not None:
                stats["witness_shows_its_class"][wcls] = any(c == wcls for c, _ in found)
            for cls, desc in found:
                e = classes.setdefault(cls, [0, None])
                e[0] += 1
                if e[1] is None or len(text) < e[1][0]:
                    e[1] = (len(text), desc, rp)
            if why:
                bad += 1
                if bad <= 2:
                    ctx.violation(why, rp)
    for cls in sorted(classes):
        n, (_, desc, rp) = classes[cls]
        stats["class_occurrences"][cls] = n
        ctx.violation(f"{tg.CLASS_TEXT[cls]} — {n} occurrence(s) in this run (permanent witness included), smallest: {desc}",
                      dict(rp, **{"class": cls, "occurrences": n}))
    ctx.note_search("gpos-target", stats["shapes"], stats["attached"], detail=stats,
                    rule="generated fonts whose GDEF classes are drawn independently of the coverages (mark coverage with base / "
                         "ligature / unclassified / default-ignorable glyphs, base coverage with marks), mark-to-base / "
                         "mark-to-ligature / mark-to-mark lookups (1-5, 1-2 subtables each) or one cursive lookup, with random "
                         "IgnoreBaseGlyphs / IgnoreLigatures / IgnoreMarks / mark-filtering-set / mark-attachment-type flags, "
                         "optional GSUB MultipleSubst + ligatures (marks inside and after) x random texts with default "
                         "ignorables x 4 directions x PRESERVE_DEFAULT_IGNORABLES on/off through shape(); the expected target "
                         "of every glyph is computed from GDEF + flags + coverages alone; oracle: anchors of every expected "
                         "attachment coincide in the pen model (cursive: cross axis always, main axis when the skipped glyphs "
                         "in between have no advance), glyphs without a target keep the offsets they have without the lookups, "
                         "advances unchanged; a departure is attributed to one of three upstream-inherited classes only on the "
                         "evidence of the failing glyph pair itself; non-trivial = expected attachments checked")


def pos_groups(shim, r, nfonts, nbufs):
    """request groups of the `gpos-lookup` correspondence stream: font, then `gp pos` lines (the lookups the crate's
    own plan selects, queried first with `gp plan`)"""
    fonts = []
    for f in range(nfonts):
        k = r.below(10)
        rec, sem = tg.target_font(r, kinds=[4, 4, 4, 5, 5, 6, 6] if k < 7 else [3, 4, 4, 5, 6] if k < 9 else [3])
        rec = {x: v for x, v in rec.items() if x != "gsub"}; sem["gsub"] = None
        fonts.append((f"Q{f}", rec, sem))
    plans = vlib.run_groups(shim, [[f"font {fid} {fontbuild.hexfont(rec)}"] + [f"gp plan {fid} {d}" for d in DIRS] + [f"fontdrop {fid}"]
                                   for fid, rec, sem in fonts], timeout=600)
    groups = []
    for (fid, rec, sem), po in zip(fonts, plans):
        if po[0] != "ok" or not all(x.startswith("ok") for x in po[1:5]):
            raise vlib.BuildError(f"gp plan failed on a generated font: {po[:5]}")
        lines = [f"font {fid} {fontbuild.hexfont(rec)}"]
        for _ in range(nbufs):
            di = r.below(4)
            t = po[1 + di].split()[1]
            maps = [] if t == "-" else [[int(v) for v in m.split(":")] for m in t.split(",")]
            all_mask = 0
            for m in maps: all_mask |= m[1]
            infos = tg.rand_infos(r, sem, all_mask or 0x80000000)
            ps = rand_pos(r, len(infos))
            if r.chance(1, 4):
                for q in ps: q[4], q[5] = r.range(-3, 3), r.below(4)       # position_start must forget these
            lines.append(tg.pos_request(fid, DIRS[di], 0 if r.chance(1, 3) else 1, infos, sem, maps, ps))
        lines.append(f"fontdrop {fid}")
        groups.append(lines)
    return groups


def classify_pos(ln, out):
    t = ln.split()
    ks = ["pos", "pos:dir:" + t[3], "pos:finish:" + t[4]]
    if out.startswith("ok"):
        o = out.split()
        ks.append("pos:has-attachment:" + o[1])
        if t[4] == "0":
            ch = [parse_pos(x) for x in o[2:]]
            nm = sum(1 for q in ch if q[4] != 0 and q[5] == 1)
            nc = sum(1 for q in ch if q[4] != 0 and q[5] == 2)
            far = sum(1 for q in ch if q[5] == 1 and q[4] < -1)
            ks.append("pos:mark-links:" + ("0" if nm == 0 else "1-2" if nm < 3 else "3+"))
            ks.append("pos:cursive-links:" + ("0" if nc == 0 else "1+"))
            if far: ks.append("pos:mark-link-skips-glyphs")
    else:
        ks.append(out[:40])
    return ks


def value_font(r, with_gpos=True, with_kern=True):
    adv = [0] + [r.range(300, 900) for _ in range(NG - 1)]
    rec = {"num_glyphs": NG, "cmap": "pua", "advances": adv}
    if r.chance(1, 2):
        rec["vadvances"] = [0] + [r.range(700, 1200) for _ in range(NG - 1)]
    sem = {"gpos": [], "kern": []}
    gl = list(range(1, 9))
    if with_gpos:
        lookups = []
        for kd in r.shuffle(["single", "pair"] + (["single"] if r.chance(1, 3) else [])):
            if kd == "single":
                vals = {g: rvr(r) for g in gl if r.chance(1, 2)} or {1: rvr(r)}
                keys = ("xPlacement", "yPlacement", "xAdvance", "yAdvance")
                lookups.append({"type": 1, "flag": 0, "subtables": [{"format": 2, "coverage": list(vals),
                                "values": [dict(zip(keys, vals[g])) for g in vals], "value_format": 0xF}]})
                sem["gpos"].append({"kind": "single", "vals": vals})
            else:
                keys = ("xPlacement", "yPlacement", "xAdvance", "yAdvance")
                second_zero = r.chance(1, 3)
                ps = {}
                for a in gl:
                    if r.chance(2, 3):
                        ps[a] = {b: (rvr(r), (0, 0, 0, 0) if second_zero or r.chance(1, 3) else rvr(r)) for b in gl if r.chance(1, 2)}
                ps = {a: v for a, v in ps.items() if v} or {1: {2: (rvr(r), rvr(r))}}
                lookups.append({"type": 2, "flag": 0, "subtables": [{"format": 1, "coverage": list(ps),
                                "pairsets": [[(b, dict(zip(keys, v1)), dict(zip(keys, v2))) for b, (v1, v2) in ps[a].items()] for a in ps],
                                "value_format1": 0xF, "value_format2": 0xF}]})
                sem["gpos"].append({"kind": "pair", "pairs": ps})
        rec["gpos"] = {"features": [{"tag": "mark", "lookups": list(range(len(lookups)))}], "lookups": lookups}
    if with_kern:
        subs = []
        for _ in range(r.range(1, 3)):
            pairs = {(a, b): rkern(r) for a in gl for b in gl if r.chance(1, 3)}
            horiz = r.chance(5, 6)
            subs.append({"horizontal": horiz, "pairs": [(a, b, v) for (a, b), v in pairs.items()]})
            sem["kern"].append({"horizontal": horiz, "pairs": {(a << 16) | b: v for (a, b), v in pairs.items()}})
        rec["kern"] = subs
    return rec, sem


def expected_values(sem, text, d, kern_on):
    """deltas (dxa, dya, dxo, dyo) per input cluster caused by the font's single/pair records and kern pairs"""
    B, gd = buffer_order(text, d)
    n = len(B)
    horiz = gd in "lr"
    D = [[0, 0, 0, 0] for _ in range(n)]

    def addv(k, v):
        D[k][2] += v[0]; D[k][3] += v[1]
        if horiz: D[k][0] += v[2]
        else: D[k][1] -= v[3]
    for lk in sem["gpos"]:
        if lk["kind"] == "single":
            for k in range(n):
                if B[k] in lk["vals"]: addv(k, lk["vals"][B[k]])
        else:
            i = 0
            while i < n:
                a = B[i]
                if a in lk["pairs"] and i + 1 < n and B[i + 1] in lk["pairs"][a]:
                    v1, v2 = lk["pairs"][a][B[i + 1]]
                    if any(v1): addv(i, v1)
                    if any(v2): addv(i + 1, v2)
                    i = i + 2 if any(v2) else i + 1
                else:
                    i += 1
    if kern_on and horiz:
        V = list(range(n - 1, -1, -1)) if gd == "r" else list(range(n))      # visual order of buffer indices
        for sub in sem["kern"]:
            if not sub["horizontal"]:
                continue
            i = 0
            while i + 1 < n:
                kv = sub["pairs"].get((B[V[i]] << 16) | B[V[i + 1]], 0)
                if kv:
                    k1 = kv >> 1; k2 = kv - k1
                    D[V[i]][0] += k1; D[V[i + 1]][0] += k2; D[V[i + 1]][2] += k2
                i += 1
    cl_of = (lambda k: n - 1 - k) if d == "b" else (lambda k: k)
    return {cl_of(k): tuple(D[k]) for k in range(n)}


def check_value(sem, text, d, kf, sv, sp, stats=None):
    """differential oracle on one pair of shape() replies (font, font without GPOS/kern); returns
    ("order"|"delta"|"fail", message) or None"""
    a, b = parse_shape(sv), parse_shape(sp)
    if a is None or b is None or len(a) != len(text) or len(b) != len(text):
        return ("fail", f"shape() failed on a value font: {sv[:80]}")
    if [x[1] for x in a] != [x[1] for x in b]:
        return ("order", f"glyph order differs from the same text on the font without kern/GPOS (dir {d}, kern feature "
                         f"{kf}): clusters {[x[1] for x in a]} vs {[x[1] for x in b]}")
    exp = expected_values(sem, text, d, kf != "0")
    got = {x[1]: (x[2] - y[2], x[3] - y[3], x[4] - y[4], x[5] - y[5]) for x, y in zip(a, b)}
    if stats is not None and any(any(v) for v in exp.values()):
        stats["with_nonzero_delta"] += 1
    if got != exp:
        cl = next(c for c in exp if got.get(c) != exp[c])
        return ("delta", f"adjustment of cluster {cl} is {got.get(cl)} but the font's records give {exp[cl]} "
                         f"(dxa, dya, dxo, dyo; dir {d}, kern feature {kf})")
    return None


def value_search(ctx, shim, r, nfonts, ntexts, plans):
    groups, meta = [], []
    for f in range(nfonts):
        k = r.below(4)
        rec, sem = value_font(r, with_gpos=k != 0, with_kern=k != 1)
        plain = {x: rec[x] for x in rec if x not in ("gpos", "kern")}
        lines = [f"font V{f} {fontbuild.hexfont(rec)}", f"font P{f} {fontbuild.hexfont(plain)}"]
        ms = []
        for _ in range(ntexts):
            text = [r.range(1, 8) for _ in range(r.range(1, 9))]
            d = r.choice(DIRS)
            kf = r.choice(["-", "-", "0", "1"])
            feats = "-" if kf == "-" else f"{TAG('kern')}:{kf}:0:4294967295"
            lines += [shape_line(f"V{f}", d, text, feats), shape_line(f"P{f}", d, text, feats)]
            ms.append((text, d, kf))
        lines += [f"fontdrop V{f}", f"fontdrop P{f}"]
        groups.append(lines); meta.append((rec, sem, ms))
    outs = vlib.run_groups(shim, groups, timeout=900)
    stats = {"shapes": 0, "with_nonzero_delta": 0, "kern_off": 0, "per_dir": {d: 0 for d in DIRS}}
    nbad = 0
    for (rec, sem, ms), o, g in zip(meta, outs, groups):
        if o[0] != "ok" or o[1] != "ok":
            ctx.violation("generated value font rejected", {"stage": "search", "stream": "value-shape", "font_line": g[0][:200]})
            continue
        for t, (text, d, kf) in enumerate(ms):
            sv, sp, req = o[2 + 2 * t], o[3 + 2 * t], g[2 + 2 * t]
            stats["shapes"] += 1; stats["per_dir"][d] += 1
            if kf == "0": stats["kern_off"] += 1
            res = check_value(sem, text, d, kf, sv, sp, stats)
            if res is None:
                continue
            nbad += 1
            if nbad <= 2:
                ctx.violation(res[1], {"stage": "search", "stream": "value-shape", "font_line": g[0], "plain_font_line": g[1],
                                       "request": req, "plain_request": g[3 + 2 * t], "observed": sv, "plain": sp,
                                       "text": text, "dir": d, "kern_feature": kf, "sem": sem, "recipe": rec})
    ctx.note_search("value-shape", stats["shapes"], stats["with_nonzero_delta"], detail=stats,
                    rule="generated fonts with SinglePos/PairPos lookups and/or a kern table (1-3 format-0 subtables) x random "
                         "texts x 4 directions x kern feature on/off/default, shaped with the font and with the same font "
                         "stripped of GPOS/kern; the per-glyph difference must equal the records' values (kern split "
                         "kern>>1 / rest, pairs in visual order); non-trivial = some expected delta is non-zero")


def btt_hook_witness(ctx, shim):
    """known_C07_cursive_btt replayed on the crate's CursiveAdjustment::apply (BTT is not reachable through
    shape(): vertical text that is not TTB is reversed and shaped as TTB)."""
    recs = {1: ((0, 30), (0, 40)), 2: ((0, 30), (0, 40))}
    ps = [[0, -100, 0, 0, 0, 0], [0, -100, 0, 5, 0, 0]]
    ln = sub_line(3, cursive_subtable(recs), RTL_FLAG, "b", 1, [(1, BASE, 0), (2, BASE, 0)],
                  "cursive 0 1 1 0 30 0 40 1", ps)
    o = vlib.run_lines(shim, [ln], nproc=1)[0]
    ctx.note_search("cursive-btt-witness", 1, 1, rule="the witness of known_C07_cursive_btt on the crate's cursive apply")
    t = o.split()
    if t[0] == "ok" and t[1] == "1":
        q = [parse_pos(x) for x in t[4:]]
        org = origins(q, True)
        if org[1][1] + 30 != org[0][1] + 40:
            ctx.violation(f"BottomToTop cursive attachment: entry point y={org[1][1] + 30} != exit point y={org[0][1] + 40} "
                          "(pos[j].y_advance = entry_y lacks `+ pos[j].y_offset`; hook level only)",
                          {"stage": "search", "stream": "cursive-btt", "theorem": "known_C07_cursive_btt",
                           "request": ln, "observed": o})


def d3_hook_seed(ctx, shim, plans):
    """the former witness of defect D3 on hb_ot_layout_kern itself: RTL, kerning not requested, one format-0
    subtable, two glyphs — the driver must hand the buffer back in the order it got it."""
    tbl = kern_table_ot([{"h": 1, "c": 0, "pairs": [(0x10002, -10)]}])
    mask, req, _ = plans[("r", "0")]
    ln = (f"kern drv {tbl.hex()} r 0 {mask} {req} 0:1:0:0:{0x10002}=-10 1:{mask or 1}:0:0,2:{mask or 1}:0:0 "
          f"| 10:0:0:0:0:0 20:0:0:0:0:0")
    o = vlib.run_lines(shim, [ln], nproc=1)[0]
    ok = o.startswith("ok") and o.split()[2] == "1,2"
    ctx.note_search("corpus:kern-bracket-hook", 1, 1, rule="former D3 witness on the crate's hb_ot_layout_kern (must keep the order)")
    if not ok:
        ctx.violation("hb_ot_layout_kern leaves the buffer reversed when kerning is not requested (backward text)",
                      {"stage": "search", "stream": "kern-bracket-witness", "request": ln,
                       "expected": "glyph order 1,2", "observed": o})


# ------------------------------------------------------------------------------------------------
# kerx: the subtable driver of aat_layout_kerx_table.rs (hook), the tables ttf-parser reads, and the end-to-end oracle
# "turning kerning off removes the kerning amounts and nothing else" on kern AND kerx fonts

import _kerx as KX


def kerx_plan_table(shim):
    """(kern_mask, requested_kerning, apply_kerx) of the crate's plan on a kerx-only face, per direction x kern feature"""
    keys = [(d, f) for d in DIRS for f in ("0", "1", "-")]
    tbl = KX.kerx_table([{"fmt": 0, "h": 1, "c": 0, "v": 0, "pairs": {(1, 2): -10}}])
    outs = vlib.run_lines(shim, [f"kerx plan {tbl.hex()} {d} {f}" for d, f in keys], nproc=1)
    res = {}
    for k, o in zip(keys, outs):
        t = o.split()
        if t[0] != "ok":
            raise vlib.BuildError(f"kerx plan query failed: {k} -> {o}")
        res[k] = (int(t[1]), int(t[2]), int(t[3]))
    return res


KX_UNIVERSE = list(range(0, 8))


def rand_kxinfos(r, n, masks=(1,)):
    out = []
    for _ in range(n):
        g = r.range(1, 6)
        m = r.choice(masks) if r.chance(5, 6) else 0
        out.append((g, m, r.choice([1, 1, 1, 1, 0, 2, 3]), int(r.chance(1, 8))))
    return out


def kerx_drv_lines(r, n, plans):
    lines = []
    for _ in range(n):
        gl = r.sample(range(1, 7), r.range(1, 6))
        subs = KX.rand_subs(r, gl, KX_UNIVERSE, lo=0, hi=3)
        tbl = KX.kerx_table(subs)
        d = r.choice(DIRS)
        f = r.choice(["0", "0", "1", "-"])
        mask, req, _ = plans[(d, f)]
        ng = r.range(0, 8)
        infos = rand_kxinfos(r, ng, masks=(mask or 1, 0xFFFFFFFF, 1))
        lines.append(f"kerx drv {tbl.hex()} {d} {f} {mask} {req} {KX.subs_token(subs)} {kinfos_token(infos)} | {fmt_pos(rand_pos(r, ng))}")
    return lines


def classify_kxdrv(ln, out):
    t = ln.split()
    ks = ["kxdrv", "kxdrv:dir:" + t[3], "kxdrv:requested:" + t[6]]
    subs = [] if t[7] == "-" else [s.split(":") for s in t[7].split(";")]
    horiz = t[3] in "lr"
    live = [s for s in subs if s[0] == "0" and (s[1] == "1") == horiz]
    ks.append("kxdrv:applicable-subtables:" + str(min(len(live), 3)))
    simple = [s for s in live if s[3] in ("0", "2", "6")]
    for s in live: ks.append("kxdrv:applicable-format:" + s[3])
    if any(s[2] == "1" for s in live): ks.append("kxdrv:has-cross-stream")
    if t[6] == "0" and t[3] in "rb":
        ks.append("kxdrv:backward+kerning-off:simple-subtables-" + ("odd" if len(simple) % 2 else "even"))
    if out.startswith("ok"):
        gids = out.split()[2]
        want = ",".join(x.split(":")[0] for x in t[8].split(",")) if t[8] != "-" else "-"
        ks.append("kxdrv:order-kept" if gids == want or len(set(want.split(","))) < 2 else "kxdrv:order-CHANGED")
        before = " ".join(t[t.index("|") + 1:])
        ks.append("kxdrv:positions-" + ("changed" if " ".join(out.split()[3:]) != before else "unchanged"))
    return ks


def kerx_hook_seed(ctx, shim, plans):
    """the kerx twin of the former D3 witness, on aat_layout_kerx_table::apply itself: RTL, kerning not requested, one
    (and three) format-0 / 2 / 6 subtables, two glyphs — the driver must hand the buffer back in the order it got it."""
    r = vlib.Rng(7, "kerx-witness")
    mask, req, _ = plans[("r", "0")]
    n = bad = 0
    for fmts in ((0,), (2,), (6,), (0, 2, 6), (0, 1, 0, 4)):
        subs = []
        for f in fmts:
            s = KX.rand_sub(r, [1, 2, 3], KX_UNIVERSE, simple_only=True, fmts=(f,)) if f in (0, 2, 6) else \
                {"fmt": f, "pairs": {}}
            s.update({"v": 0, "h": 1, "c": 0})
            subs.append(s)
        tbl = KX.kerx_table(subs)
        ln = (f"kerx drv {tbl.hex()} r 0 {mask} {req} {KX.subs_token(subs)} 1:{mask or 1}:1:0,2:{mask or 1}:1:0 "
              f"| 10:0:0:0:0:0 20:0:0:0:0:0")
        o = vlib.run_lines(shim, [ln], nproc=1)[0]
        n += 1
        if not (o.startswith("ok") and o.split()[2] == "1,2" and o.split()[3:] == ["10:0:0:0:0:0", "20:0:0:0:0:0"]):
            bad += 1
            if bad <= 1:
                ctx.violation(f"kerx apply() does not hand the buffer back unchanged when kerning is not requested (backward text, "
                              f"subtable formats {list(fmts)}): glyph order / positions {' '.join(o.split()[2:])}, expected 1,2 10:.. 20:..",
                              {"stage": "search", "stream": "kerx-bracket-witness", "request": ln,
                               "expected": "ok 0 1,2 10:0:0:0:0:0 20:0:0:0:0:0", "observed": o})
    ctx.note_search("corpus:kerx-bracket-hook", n, n, rule="RTL, kerning not requested, 1-4 kerx subtables (formats 0, 2, 6; idle state "
                    "machines in between) on the crate's kerx apply(): glyph order and positions must come back unchanged")


def kerx_value_search(ctx, shim, r, ntables):
    """ties tools/props/_kerx.py (the builder the kerx streams use) to what the crate reads: glyphs_kerning of every subtable
    for every glyph pair = the value the format's rules give"""
    lines, exp = [], []
    for _ in range(ntables):
        gl = r.sample(range(1, 7), r.range(1, 6))
        subs = KX.rand_subs(r, gl, KX_UNIVERSE)
        tbl = KX.kerx_table(subs).hex()
        for n, s in enumerate(subs):
            for _ in range(6):
                l, rr = r.choice(KX_UNIVERSE), r.choice(KX_UNIVERSE)
                if s["pairs"] and r.chance(1, 2):
                    l, rr = r.choice(sorted(s["pairs"]))
                lines.append(f"kerx kv {tbl} {n} {l} {rr}")
                exp.append(f"ok {s['fmt']} {s['pairs'].get((l, rr), 0)}")
    outs = vlib.run_lines(shim, lines)
    nz = bad = 0
    per = {}
    for ln, o, e in zip(lines, outs, exp):
        per[e.split()[1]] = per.get(e.split()[1], 0) + 1
        if e.split()[2] != "0": nz += 1
        if o != e:
            bad += 1
            if bad <= 1:
                ctx.violation(f"kerx subtable value: the crate reads {o}, the format's rules give {e} (ok <format> <value>)",
                              {"stage": "search", "stream": "kerx-values", "request": ln, "expected": e, "observed": o})
    ctx.note_search("kerx-values", len(lines), nz, per_format=per,
                    rule="random kerx tables (formats 0 / 2 / 6 with class tables and AAT lookups of formats 2 / 4 / 6 / 8, idle "
                         "format 1 / 4 state machines): glyphs_kerning of the n-th subtable as the crate reads it = the value computed "
                         "from the recipe; non-trivial = expected value non-zero")


KX_ALPHABETS = {
    "hebr": [0x5D0, 0x5D1, 0x5D2, 0x5D3, 0x5D4, 0x5D5, 0x5DC, 0x5DE, 0x5E9, 0x5EA],
    "arab": [0x627, 0x628, 0x62A, 0x62F, 0x631, 0x633, 0x644, 0x645, 0x646, 0x647, 0x648, 0x64A],
    "latn": [0x41, 0x42, 0x56, 0x61, 0x62, 0x63, 0x6F, 0x72, 0x74, 0x76],
    "pua": [0xE000 + k for k in range(10)],
}
KX_COMMON = [0x20, 0x31, 0x32, 0x2E]


def kernx_font(r):
    """a cmap + hmtx (+vmtx) font over one script's letters plus a few common characters, with a `kern` table (OpenType or
    Apple flavour) or a `kerx` table of 1-3 (sometimes up to 5) subtables"""
    script = r.choice(["hebr", "hebr", "arab", "arab", "latn", "pua"])
    letters = r.sample(KX_ALPHABETS[script], r.range(3, 7))
    chars = letters + r.sample(KX_COMMON, r.range(0, 2))
    cmap = {c: k + 1 for k, c in enumerate(chars)}
    ng = len(chars) + 2
    rec = {"num_glyphs": ng, "cmap": cmap, "advances": [0] + [r.range(300, 900) for _ in range(ng - 1)]}
    if r.chance(1, 2):
        rec["vadvances"] = [0] + [r.range(700, 1200) for _ in range(ng - 1)]
    k = r.below(4)
    if k == 1:
        rec["gdef"] = {"classes": {0: 1}}
    elif k == 2:
        rec["gdef"] = {"classes": {g: r.choice([1, 1, 2]) for g in range(1, ng) if r.chance(1, 2)}}
    kind = r.choice(["kerx", "kerx", "kerx", "kern-ot", "kern-aat"])
    gl = list(range(1, len(chars) + 1))
    universe = list(range(0, ng + 1))
    if kind == "kerx":
        subs = KX.rand_subs(r, r.sample(gl, r.range(2, len(gl))), universe)
        if r.chance(1, 2):              # make all of them count for horizontal text
            for s in subs: s["h"], s["v"] = 1, 0
        rec["tables"] = {"kerx": KX.kerx_table(subs).hex()}
    else:
        subs = []
        for _ in range(r.range(1, 3)):
            s = KX.rand_sub(r, gl, universe, simple_only=True, fmts=(0,))
            if kind == "kern-ot": s["v"] = 0
            elif r.chance(1, 5): s["fmt"], s["pairs"] = 1, {}
            if r.chance(2, 3): s["h"] = 1
            subs.append(s)
        ks = [{"v": s["v"], "h": s["h"], "c": s["c"], "s": int(s["fmt"] == 1),
               "pairs": [((l << 16) | rr, v) for (l, rr), v in sorted(s["pairs"].items())]} for s in subs]
        rec["tables"] = {"kern": (kern_table_ot(ks) if kind == "kern-ot" else kern_table_aat(ks)).hex()}
    return rec, {"kind": kind, "script": script, "chars": chars, "subs": subs}


def kernx_text(r, sem):
    letters = [c for c in sem["chars"] if c not in KX_COMMON]
    n = r.range(2, 7)
    return [r.choice(letters) if r.chance(5, 6) else r.choice(sem["chars"]) for _ in range(n)]


def kernx_case(r, sem):
    text = kernx_text(r, sem)
    d = r.choice(["l", "r", "l", "r", "-", "t", "b"])
    horiz = d in "lr-"
    tag = "kern" if horiz else "vkrn"
    n = len(text)
    k = r.below(8)
    if k < 3: feat = (0, 0, None)                       # value, start, end (None = global)
    elif k < 4: feat = (1, 0, None)
    elif k < 5: feat = None
    else:
        a = r.below(n); b = r.range(a, n)
        feat = (r.choice([0, 0, 1]), a, b)
    return text, d, tag, feat


def kernx_on(d, feat, n):
    """the set of input clusters (= text indices) whose glyphs carry the kern mask bit, or None when kerning is not
    requested at all.  `kern` is on by default in horizontal text and survives in the feature map of a font without GPOS
    because it is flagged HAS_FALLBACK; `vkrn` is neither: in a font without a GPOS `vkrn` feature its mask is 0 whatever
    the user asks for, so vertical text is never kerned by kern / kerx tables (as in HarfBuzz) — the vertical subtables
    are exercised by the kerx-driver / kern-driver correspondence only."""
    if d not in "lr-":
        return None
    if feat is None:
        return set(range(n))
    v, a, b = feat
    if b is None:
        return set(range(n)) if v else None
    return {k for k in range(n) if (v if a <= k < b else 1)}


def kernx_expected(subs, out, horiz, on):
    """(dxa, dya, dxo, dyo) per output position: the pair walk of machine_kern over the glyphs in output order (which is the
    order the kern pass sees: backward buffers are reversed around it), each applicable subtable in turn"""
    n = len(out)
    D = [[0, 0, 0, 0] for _ in range(n)]
    if on is None:
        return D
    for s in subs:
        if s["v"] or bool(s["h"]) != horiz or s["fmt"] in (1, 4):
            continue
        i = 0
        while i < n:
            if out[i][1] not in on or i + 1 >= n or out[i + 1][1] not in on:
                i += 1; continue
            kv = s["pairs"].get((out[i][0], out[i + 1][0]), 0)
            if kv:
                k1 = kv >> 1; k2 = kv - k1
                if horiz:
                    D[i][0] += k1; D[i + 1][0] += k2; D[i + 1][2] += k2
                else:
                    D[i][1] += k1; D[i + 1][1] += k2; D[i + 1][3] += k2
            i += 1
    return D


def check_kernx(sem, text, d, feat, sx, sp, stats=None):
    """oracle on one pair of shape() replies (font, same font without kern / kerx): same glyphs in the same order, and the
    per-glyph difference is exactly the kerning the tables give for the glyphs that carry the kern mask — nothing at all
    when kerning is off.  Returns (kind, message) or None."""
    a, b = parse_shape(sx), parse_shape(sp)
    if a is None or b is None or len(a) != len(text) or len(b) != len(text):
        return ("fail", f"shape() failed on a kern / kerx font: {sx[:80]} / {sp[:80]}")
    on = kernx_on(d, feat, len(text))
    off = on is None or not on
    if [(x[0], x[1]) for x in a] != [(x[0], x[1]) for x in b]:
        return ("order", f"{sem['kind']} font, direction {d}, {'kerning off' if off else 'kerning on'}: glyph order differs from the "
                         f"same text on the font without the table: clusters {[x[1] for x in a]} vs {[x[1] for x in b]}")
    cross = any(s["c"] and not s["v"] for s in sem["subs"])
    if cross and not off:
        if stats is not None: stats["cross_stream_order_only"] += 1
        return None
    exp = kernx_expected(sem["subs"], [(x[0], x[1]) for x in b], d in "lr-", on)
    got = [[x[2] - y[2], x[3] - y[3], x[4] - y[4], x[5] - y[5]] for x, y in zip(a, b)]
    if stats is not None and any(any(v) for v in exp):
        stats["with_nonzero_delta"] += 1
    if got != exp:
        k = next(i for i in range(len(exp)) if got[i] != exp[i])
        return ("delta", f"{sem['kind']} font, direction {d}, {'kerning off' if off else 'kerning on'}: output glyph {k} (gid {a[k][0]}, "
                         f"cluster {a[k][1]}) differs from the font without the table by {got[k]} but the tables give {exp[k]} "
                         f"(dxa, dya, dxo, dyo)")
    return None


def kernx_request(fid, d, tag, feat, text):
    if feat is None: feats = "-"
    else:
        v, a, b = feat
        feats = f"{TAG(tag)}:{v}:{a if b is not None else 0}:{b if b is not None else 4294967295}"
    t = ",".join(f"{c:x}:{i}" for i, c in enumerate(text))
    return f"shape {fid} {d} - - 0 0 {feats} - - {t}"


def kernx_search(ctx, shim, r, nfonts, ntexts):
    groups, meta = [], []
    for f in range(nfonts):
        rec, sem = kernx_font(r)
        plain = {k: v for k, v in rec.items() if k != "tables"}
        lines = [f"font K{f} {fontbuild.hexfont(rec)}", f"font L{f} {fontbuild.hexfont(plain)}"]
        ms = []
        for _ in range(ntexts):
            text, d, tag, feat = kernx_case(r, sem)
            lines += [kernx_request(f"K{f}", d, tag, feat, text), kernx_request(f"L{f}", d, tag, feat, text)]
            ms.append((text, d, tag, feat))
        lines += [f"fontdrop K{f}", f"fontdrop L{f}"]
        groups.append(lines); meta.append((rec, sem, ms))
    outs = vlib.run_groups(shim, groups, timeout=900)
    stats = {"shapes": 0, "with_nonzero_delta": 0, "kerning_off": 0, "kerning_off_backward_buffer": 0, "ranged": 0,
             "cross_stream_order_only": 0, "per_kind": {}, "per_script": {}, "per_dir": {}}
    nbad = 0
    for (rec, sem, ms), o, g in zip(meta, outs, groups):
        if o[0] != "ok" or o[1] != "ok":
            ctx.violation(f"generated {sem['kind']} font rejected: {o[0]} {o[1]}", {"stage": "search", "stream": "kernx-shape",
                          "font_line": g[0][:200]}); continue
        for t, (text, d, tag, feat) in enumerate(ms):
            sx, sp = o[2 + 2 * t], o[3 + 2 * t]
            stats["shapes"] += 1
            for key, v in (("per_kind", sem["kind"]), ("per_script", sem["script"]), ("per_dir", d)):
                stats[key][v] = stats[key].get(v, 0) + 1
            on = kernx_on(d, feat, len(text))
            if on is None or not on:
                stats["kerning_off"] += 1
                b = parse_shape(sp)
                if b and len(b) > 1 and d in "lr-" and b[0][1] > b[-1][1] or (b and d == "l" and sem["script"] in ("hebr", "arab")):
                    stats["kerning_off_backward_buffer"] += 1
            if feat is not None and feat[2] is not None: stats["ranged"] += 1
            res = check_kernx(sem, text, d, feat, sx, sp, stats)
            if res is None:
                continue
            nbad += 1
            if nbad <= 2:
                ctx.violation(res[1], {"stage": "search", "stream": "kernx-shape", "font_line": g[0], "plain_font_line": g[1],
                                       "request": g[2 + 2 * t], "plain_request": g[3 + 2 * t], "observed": sx, "plain": sp,
                                       "text": text, "dir": d, "feature_tag": tag, "feature": feat, "kind": res[0],
                                       "sem": {"kind": sem["kind"], "script": sem["script"], "chars": sem["chars"],
                                               "subs": [{**s, "pairs": [[l, rr, v] for (l, rr), v in sorted(s["pairs"].items())],
                                                         "cls": None} for s in sem["subs"]]},
                                       "recipe": rec})
    ctx.note_search("kernx-shape", stats["shapes"], stats["with_nonzero_delta"] + stats["kerning_off"], detail=stats,
                    rule="generated cmap+hmtx(+vmtx, +GDEF without marks) fonts over Hebrew / Arabic / Latin / private-use letters with a "
                         "`kerx` table (1-5 subtables of formats 0 / 2 / 6, idle format 1 / 4 state machines, horizontal / vertical / "
                         "cross-stream / variation) or a `kern` table (OpenType or Apple flavour) x texts x directions l / r / guessed "
                         "/ t / b x kern (vkrn) feature absent / 0 / 1 / ranged 0 / ranged 1, each shaped with the font and with the "
                         "same font without the table; oracle: same glyphs and clusters in the same order, and the per-glyph "
                         "difference equals the kerning of the pairs whose two glyphs carry the kern mask (kern>>1 / rest split, "
                         "pairs in visual order) — nothing when kerning is off; fonts with a cross-stream subtable are "
                         "compared for order only when kerning is on; non-trivial = expected delta non-zero, or kerning off")


def seed_text(t):
    """{"glyphs":[..]} | {"repeat":[[gid,count],...]} -> glyph list"""
    if "glyphs" in t:
        return list(t["glyphs"])
    out = []
    for g, c in t["repeat"]:
        out += [g] * c
    return out


def run_seed(shim, sd):
    """one corpus/C07 seed -> list of (description-of-failure | None, request, reply)"""
    res = []
    if "fontfile" in sd:
        path = os.path.join(vlib.REPO, sd["fontfile"])
        cps = []
        for cp, c in sd["codepoints_repeat"]:
            cps += [cp] * c
        t = ",".join(f"{cp:x}:{i}" for i, cp in enumerate(cps))
        req = f"shape S {sd.get('dir', '-')} - - 0 0 - - - {t}"
        o = vlib.run_groups(shim, [[f"fontfile S {path}", req]], nproc=1, timeout=600)[0]
        bad = None if (o[0] == "ok" and o[1].startswith("ok")) else f"does not return normally: {o[0]} / {o[1][:160]}"
        return [(bad, req[:200], o[1][:200])]
    sem = intkeys(sd.get("sem"))
    font = f"font S {fontbuild.hexfont(sd['recipe'])}"
    lines = [font]
    if sd["oracle"] == "value":
        plain = {k: v for k, v in sd["recipe"].items() if k not in ("gpos", "kern")}
        lines.append(f"font T {fontbuild.hexfont(plain)}")
    kf = sd.get("kern_feature", "-")
    feats = "-" if kf == "-" else f"{TAG('kern')}:{kf}:0:4294967295"
    texts = [seed_text(t) for t in sd["texts"]]
    for t in texts:
        lines.append(shape_line("S", sd["dir"], t, feats))
        if sd["oracle"] == "value":
            lines.append(shape_line("T", sd["dir"], t, feats))
    o = vlib.run_groups(shim, [lines], nproc=1, timeout=600)[0]
    k = 2 if sd["oracle"] == "value" else 1
    for t in texts:
        if sd["oracle"] == "value":
            r = check_value(sem, t, sd["dir"], kf, o[k], o[k + 1])
            res.append((r[1] if r else None, lines[k][:200], o[k][:200])); k += 2
        else:
            why = None if o[k].startswith("ok") else f"does not return normally: {o[k][:160]}"
            if why is None and sd["oracle"] == "attach":
                why = check_attach(sem, t, sd["dir"], o[k], unattached_zero=sd.get("unattached_zero", False))
            res.append((why, lines[k][:200], o[k][:200])); k += 1
    return res


def corpus_seeds(ctx, shim):
    """minimised past failures (corpus/C07/*.json): the former witnesses of D3, D13a, D13b.  They run first and
    must pass on the current tree."""
    n = 0
    for f in sorted(glob.glob(os.path.join(vlib.ROOT, "corpus", "C07", "*.json"))):
        sd = json.load(open(f))
        name = os.path.basename(f)[:-5]
        for why, req, reply in run_seed(shim, sd):
            n += 1
            if why:
                ctx.violation(f"corpus seed {name} ({sd['what'][:90]}): {why}",
                              {"stage": "search", "stream": "corpus:" + name, "seed_file": f, "request": req,
                               "observed": reply})
    ctx.note_search("corpus-seeds", n, n, rule="corpus/C07/*.json: former defect witnesses through shape(), each with its oracle")


def run(ctx):
    ctx.assumptions += [
        "positions are modelled over unbounded Int; every i32 operation in the modelled code is +, -, negation or "
        "assignment, so the release build holds wrap32 of the model value (the driver prints wrap32; streams include "
        "values next to the i32 limits); attach_chain is cast to i16 where Rust casts (exact since the i16 guard)",
        "device / variation deltas and the kern / kerx state machines (kern format 1, kerx formats 1 / 4) are outside the model "
        "(the drivers take them as an order-preserving parameter); kerx formats 0 / 2 / 6 are modelled as machine_kern over the "
        "values ttf-parser reads (kerx-values ties the byte-level builder to that reading); the GPOS matcher "
        "(which glyph pair a lookup selects) is the C06 interpreter — here the selected indices are inputs",
    ]
    ctx.regen()
    ctx.prove(MODULE)
    shim = vlib.build_harness()
    global MARK, BASE, IGNORE_MARKS, RTL_FLAG
    import gpos as gens_gpos
    c = gens_gpos.read(shim)
    MARK, BASE, IGNORE_MARKS, RTL_FLAG = c["gpMark"], c["gpBaseGlyph"], c["ignoreMarks"], c["rightToLeft"]
    ctx.cov["crate_constants"] = c
    plans = plan_table(shim)
    ctx.cov["kern_plan"] = {f"{d}/{f}": v for (d, f), v in plans.items()}
    ctx.correspond("gpos-propagate", lines=prop_lines(ctx.rng("prop"), ctx.budget(6000, 600000)),
                   classify=classify_prop, canon=canon)
    ctx.correspond("gpos-apply", lines=sub_lines(ctx.rng("sub"), ctx.budget(6000, 600000)),
                   classify=classify_sub, canon=canon)
    ctx.correspond("gpos-apply-device", lines=subd_lines(ctx.rng("subd"), ctx.budget(4000, 150000)),
                   classify=classify_subd, canon=canon)
    mk_dis = ctx.correspond("kern-machine", lines=mk_lines(ctx.rng("mk"), ctx.budget(4000, 400000)),
                            classify=classify_mk, canon=canon)
    ctx.correspond("kern-fmt0", lines=f0_lines(ctx.rng("f0"), ctx.budget(2000, 100000)), canon=canon)
    ctx.correspond("kern-driver", lines=drv_lines(ctx.rng("drv"), ctx.budget(3000, 300000), plans),
                   classify=classify_drv, canon=canon)
    kplans = kerx_plan_table(shim)
    ctx.cov["kerx_plan"] = {f"{d}/{f}": v for (d, f), v in kplans.items()}
    ctx.correspond("kerx-driver", lines=kerx_drv_lines(ctx.rng("kxdrv"), ctx.budget(3000, 150000), kplans),
                   classify=classify_kxdrv, canon=canon)
    # machine_kern / kerx apply_simple_kerning with the real skipping iterator and their flag calls (PairFlag.lean), positions incl.
    import _pairflag as PF
    import _gposflag as GFc
    pcc = int(vlib.run_lines(shim, ["bufconst"], nproc=1)[0].split()[0])
    rk = ctx.rng("pair-span")
    mk_dis = mk_dis + ctx.correspond("kern-machine-flags", lines=PF.mk_lines(rk, ctx.budget(3000, 100000), pcc),
                                     classify=PF.classify_k, canon=GFc.canon)
    mk_dis = mk_dis + ctx.correspond("kerx-simple-flags", lines=PF.kx_lines(rk, ctx.budget(2000, 60000), pcc, kplans),
                                     classify=PF.classify_k, canon=GFc.canon)
    ctx.correspond("gpos-lookup", groups=pos_groups(shim, ctx.rng("pos"), ctx.budget(150, 6000), ctx.budget(12, 16)),
                   classify=classify_pos, canon=canon, only=lambda ln: ln.startswith("gp pos"))
    corpus_seeds(ctx, shim)
    d3_hook_seed(ctx, shim, plans)
    kerx_hook_seed(ctx, shim, kplans)
    device_value_search(ctx, shim, ctx.rng("devval"), ctx.budget(3000, 200000))
    kerx_value_search(ctx, shim, ctx.rng("kxval"), ctx.budget(300, 20000))
    kernx_search(ctx, shim, ctx.rng("kernx"), ctx.budget(250, 8000), ctx.budget(10, 12))
    # pairs across skipped glyphs (marks, default ignorables) on fonts whose pair tables cover every glyph; disagreeing
    # kern-machine requests are handed to the same oracle through shape()
    import _kernskip as KS
    KS.search(ctx, shim, ctx.rng("kernskip"), ctx.budget(300, 8000), ctx.budget(10, 12))
    KS.promote(ctx, shim, mk_dis, ctx.budget(60, 400))
    mark_chain_search(ctx, shim, ctx.rng("markchain"), ctx.budget(3000, 200000))
    attach_search(ctx, shim, ctx.rng("attach"), ctx.budget(150, 10000), ctx.budget(8, 12))
    target_search(ctx, shim, ctx.rng("target"), ctx.budget(240, 12000), ctx.budget(10, 12))
    value_search(ctx, shim, ctx.rng("value"), ctx.budget(150, 10000), ctx.budget(8, 12), plans)
    # the one remaining known finding last, so that it never uses up the violation budget of the streams above
    btt_hook_witness(ctx, shim)


def intkeys(x):
    """undo JSON's stringification of integer dict keys"""
    if isinstance(x, dict):
        return {(int(k) if isinstance(k, str) and k.lstrip("-").isdigit() else k): intkeys(v) for k, v in x.items()}
    if isinstance(x, list):
        return [intkeys(v) for v in x]
    return x


def replay(ctx, rp):
    shim = vlib.build_harness()
    stream = rp.get("stream")
    if stream == "gpos-shape" and "sem" in rp:
        o = vlib.run_groups(shim, [[rp["font_line"], rp["request"]]], nproc=1)[0]
        why = check_attach(intkeys(rp["sem"]), rp["text"], rp["dir"], o[1])
        print("reply:", o[1]); print("oracle:", why or "all anchors coincide")
        return 1 if why else 0
    if stream == "gpos-target" and "sem" in rp:
        o = vlib.run_groups(shim, [[rp["font_line"], rp["plain_font_line"], rp["request"], rp["plain_request"]]], nproc=1)[0]
        why, found = tg.check(intkeys(rp["sem"]), rp["text"], rp["dir"], rp["flags"], o[2], o[3])
        print("font :", o[2]); print("plain:", o[3]); print("oracle:", why or "no departure outside the known classes")
        for c, desc in found: print("class", c + ":", desc)
        if "class" in rp:
            return 1 if why or any(c == rp["class"] for c, _ in found) else 0
        return 1 if why else 0
    if stream == "value-shape" and "sem" in rp:
        o = vlib.run_groups(shim, [[rp["font_line"], rp["plain_font_line"], rp["request"], rp["plain_request"]]], nproc=1)[0]
        res = check_value(intkeys(rp["sem"]), rp["text"], rp["dir"], rp["kern_feature"], o[2], o[3])
        print("font :", o[2]); print("plain:", o[3]); print("oracle:", res[1] if res else "deltas equal the records")
        return 1 if res else 0
    if stream and stream.startswith("corpus:"):
        bad = [w for w, _, _ in run_seed(shim, json.load(open(rp["seed_file"]))) if w]
        for w in bad: print(w)
        return 1 if bad else 0
    if stream in ("kern-skip-shape", "promoted-kern-machine") and "sem" in rp:
        import _kernskip as KS
        return KS.replay(rp, shim)
    if stream == "kernx-shape" and "sem" in rp:
        o = vlib.run_groups(shim, [[rp["font_line"], rp["plain_font_line"], rp["request"], rp["plain_request"]]], nproc=1)[0]
        sem = dict(rp["sem"])
        sem["subs"] = [{**x, "pairs": {(l, rr): v for l, rr, v in x["pairs"]}} for x in sem["subs"]]
        feat = tuple(rp["feature"]) if rp["feature"] is not None else None
        res = check_kernx(sem, rp["text"], rp["dir"], feat, o[2], o[3])
        print("font :", o[2]); print("plain:", o[3]); print("oracle:", res[1] if res else "difference equals the tables' kerning")
        return 1 if res else 0
    if stream in ("kerx-values", "kerx-bracket-witness", "device-values"):
        o = vlib.run_lines(shim, [rp["request"]], nproc=1)[0]
        print("impl    :", o); print("expected:", rp["expected"])
        return 0 if o == rp["expected"] else 1
    if stream == "kern-bracket-witness":
        o = vlib.run_lines(shim, [rp["request"]], nproc=1)[0]
        print("impl:", o)
        return 0 if o.startswith("ok") and o.split()[2] == "1,2" else 1
    if stream == "cursive-btt":
        o = vlib.run_lines(shim, [rp["request"]], nproc=1)[0]
        t = o.split()
        print("impl:", o)
        if t[0] != "ok" or t[1] != "1":
            return 1
        org = origins([parse_pos(x) for x in t[4:]], True)
        return 0 if org[1][1] + 30 == org[0][1] + 40 else 1
    if stream == "mark-coincide":
        o = vlib.run_lines(shim, [rp["request"]], nproc=1)[0]
        print("impl:", o, "(was:", rp.get("observed"), ")")
        return 1 if o == rp.get("observed") else 0
    if "request" in rp:
        model = vlib.build_model()
        a = canon(vlib.run_lines(shim, [rp["request"]], nproc=1)[0])
        b = canon(vlib.run_lines(model, [rp["request"]], nproc=1)[0])
        print("impl :", a); print("model:", b)
        return 0 if a == b else 1
    print(rp); return 1
