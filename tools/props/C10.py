"""C10 — lookup prefilters (glyph-set digests) never change the shaping result."""
import vlib, corpus, gsubgen, fontbuild

MODULE = "RbModel.Props.C10"
LEVEL = "proof"
FULL = (1 << 64) - 1


def rand_mask(r):
    k = r.below(6)
    if k == 0: return 0
    if k == 1: return FULL
    if k == 2: return 1 << r.below(64)
    if k == 3: return FULL ^ (1 << r.below(64))
    if k == 4: return r.next() & r.next() & r.next()
    return r.next()


def rand_gid(r):
    k = r.below(5)
    if k == 0: return r.below(70)
    if k == 1: return r.choice([0, 1, 62, 63, 64, 65, 511, 512, 1023, 1024, 32767, 32768, 65534, 65535])
    if k == 2: return (r.below(1024) << 6) + r.choice([0, 1, 62, 63])
    return r.below(65536)


def rand_range(r):
    a = rand_gid(r)
    k = r.below(6)
    if k == 0: b = a
    elif k == 1: b = min(65535, a + r.below(64))
    elif k == 2: b = min(65535, a + 62 + r.below(4))          # around the saturation threshold (shift 0)
    elif k == 3: b = min(65535, a + (r.choice([61, 62, 63, 64]) << r.choice([4, 9])) + r.below(3) - 1)
    elif k == 4: b = rand_gid(r)                              # possibly inverted
    else: b = min(65535, a + r.below(5000))
    return a, max(0, b)


def prim_lines(r, n, shifts):
    lines = []
    for _ in range(n):
        k = r.below(7)
        s = r.choice(shifts)
        if k == 0:
            lines.append(f"digest add {s} {rand_mask(r)} {rand_gid(r)}")
        elif k in (1, 2):
            a, b = rand_range(r)
            lines.append(f"digest range {s} {rand_mask(r)} {a} {b}")
        elif k == 3:
            lines.append(f"digest has {s} {rand_mask(r)} {rand_gid(r)}")
        elif k == 4:
            ops = []
            for _ in range(r.range(1, 6)):
                t = r.below(3)
                if t == 0: ops.append(f"a{rand_gid(r)}")
                elif t == 1:
                    a, b = rand_range(r); ops.append(f"r{a}-{b}")
                else: ops.append("A" + ",".join(str(rand_gid(r)) for _ in range(r.below(5))))
            m = [rand_mask(r) if r.chance(1, 3) else 0 for _ in range(3)]
            lines.append(f"digest full {m[0]} {m[1]} {m[2]} " + " ".join(ops))
        elif k == 5:
            lines.append("digest mayhave " + " ".join(str(rand_mask(r)) for _ in range(6)))
        else:
            lines.append("digest hasglyph " + " ".join(str(rand_mask(r)) for _ in range(3)) + f" {rand_gid(r)}")
    return lines


def classify(ln, out):
    t = ln.split()
    ks = [t[1]]
    if t[1] == "range":
        a, b = int(t[4]), int(t[5])
        ks.append("range:inverted" if a > b else ("range:saturated" if out.endswith(" 0") else "range:short"))
        if int(t[3]) == FULL: ks.append("range:already-full")
    return ks


def soundness_search(ctx, shim, r, n):
    """Oracle on the implementation alone: whatever was added must be reported present."""
    reqs, members = [], []
    for _ in range(n):
        ops, mem = [], []
        for _ in range(r.range(1, 5)):
            t = r.below(3)
            if t == 0:
                g = rand_gid(r); ops.append(f"a{g}"); mem.append(g)
            elif t == 1:
                a, b = rand_range(r)
                if a > b: a, b = b, a
                ops.append(f"r{a}-{b}")
                mem += [a, b, (a + b) // 2] + [r.range(a, b) for _ in range(3)]
            else:
                gs = [rand_gid(r) for _ in range(r.below(5))]
                ops.append("A" + ",".join(map(str, gs))); mem += gs
        reqs.append("digest full 0 0 0 " + " ".join(ops)); members.append(mem)
    outs = vlib.run_lines(shim, reqs)
    q, idx = [], []
    for i, (o, mem) in enumerate(zip(outs, members)):
        if o.startswith("panic") or o.startswith("abort"):
            ctx.violation(f"digest construction crashed: {o}", {"stage": "search", "stream": "digest-sound",
                          "request": reqs[i], "observed": o})
            continue
        m = o.split()[:3]
        for g in mem:
            q.append(f"digest hasglyph {m[0]} {m[1]} {m[2]} {g}"); idx.append((i, g))
        # a second digest holding just g must intersect
    res = vlib.run_lines(shim, q)
    bad = 0
    for (i, g), o in zip(idx, res):
        if o != "1":
            bad += 1
            if bad <= 3:
                ctx.violation(f"digest reports glyph {g} absent after it was added ({reqs[i]})",
                              {"stage": "search", "stream": "digest-sound", "request": reqs[i], "glyph": g,
                               "expected": "1", "observed": o})
    ctx.note_search("digest-sound", len(q), len(set(q)),
                    rule="build a digest by random add/add_array/add_range on the crate, then ask may_have_glyph "
                         "for every added id and for end/mid/random points of every added range; distinct = distinct queries")


def exhaustive_search(ctx, shim, shifts):
    """thorough: all 65536 ids x 3 shifts for add; all ranges of width <= 130 from a set of anchors."""
    lines = [f"digest add {s} 0 {g}" for s in shifts for g in range(65536)]
    outs = vlib.run_lines(shim, lines)
    q = [f"digest has {s} {o} {g}" for (s, g), o in zip(((s, g) for s in shifts for g in range(65536)), outs)]
    res = vlib.run_lines(shim, q)
    for ln, o in zip(q, res):
        if o != "1":
            ctx.violation("add then may_have_glyph is false", {"stage": "search", "stream": "digest-exhaustive",
                          "request": ln, "observed": o}); break
    n = len(q)
    anchors = list(range(0, 200)) + list(range(32700, 32800)) + list(range(65300, 65536))
    lines, keys = [], []
    for s in shifts:
        for a in anchors:
            for w in range(0, 131):
                b = a + (w << s if s else w)
                if b > 65535: break
                lines.append(f"digest range {s} 0 {a} {b}"); keys.append((s, a, b))
    outs = vlib.run_lines(shim, lines)
    q = []
    for (s, a, b), o in zip(keys, outs):
        m = o.split()[0]
        for g in {a, b, (a + b) // 2, min(b, a + 63), max(a, b - 63)}:
            q.append(f"digest has {s} {m} {g}")
    res = vlib.run_lines(shim, q)
    for ln, o in zip(q, res):
        if o != "1":
            ctx.violation("add_range then may_have_glyph is false", {"stage": "search",
                          "stream": "digest-exhaustive", "request": ln, "observed": o}); break
    ctx.note_search("digest-exhaustive", n + len(q), n + len(set(q)), exhaustive_add=True,
                    rule="every 16-bit id x every shift through add; ranges of <=131 distinct bit slots from 536 anchors")


def prefilter_search(ctx, shim, r, ncases, nvariants):
    """shape() with the prefilter enabled vs answering 'maybe' everywhere: identical output required."""
    cases = corpus.load()
    cases = r.shuffle(cases)[:ncases]
    groups, meta = [], []
    for fid, reg, cs in corpus.font_groups(cases):
        lines = [reg]
        reqs = []
        for c in cs:
            reqs.append(c.shape_line(fid))
            for _ in range(nvariants):
                t = list(c.text)
                k = r.below(4)
                if k == 0 and len(t) > 1: t = r.shuffle(t)
                elif k == 1: t = t[r.below(len(t)):] or t
                elif k == 2: t = t + t[: r.below(len(t) + 1)]
                else: t = [r.choice(t) for _ in range(r.range(1, 8))]
                reqs.append(c.shape_line(fid, text="".join(t), dir=r.choice([None, "l", "r", "t"]),
                                         level=r.below(3), flags=r.choice([0, 3, 0x43, 8])))
        lines += ["prefilter on"] + reqs + ["prefilter off"] + reqs + ["prefilter on"]
        groups.append(lines); meta.append((len(reqs), reqs))
    outs = vlib.run_groups(shim, groups, timeout=900)
    total = nontriv = 0
    for (n, reqs), o, g in zip(meta, outs, groups):
        on = o[2:2 + n]; off = o[3 + n:3 + 2 * n]
        for q, x, y in zip(reqs, on, off):
            total += 1
            if x.startswith("ok") and len(x.split()) > 2:
                nontriv += 1
            if x != y:
                ctx.violation("shaping differs with the digest prefilter on vs off",
                              {"stage": "search", "stream": "prefilter-on-off", "font_line": g[0], "request": q,
                               "with_prefilter": x, "without_prefilter": y})
    ctx.note_search("prefilter-on-off", total, nontriv,
                    rule="corpus (font,text,options) of tests/shaping plus shuffled/sliced/resampled texts, random "
                         "direction/level/flags; non-trivial = shaping returned at least one glyph")


def prefilter_generated(ctx, shim, r, nfonts, per_font):
    """the same on/off comparison through shape() on generated GSUB/GDEF fonts (all lookup types, nesting)"""
    groups, meta = [], []
    for i in range(nfonts):
        rec = gsubgen.rand_recipe(r)
        try:
            hexf = fontbuild.hexfont(rec)
        except fontbuild.FontBuildError:
            continue
        n = rec["num_glyphs"]
        reqs = []
        for _ in range(per_font):
            feats = gsubgen.user_features(r, rec)
            text = [0xE000 + r.range(1, n - 1) - 1 for _ in range(r.range(1, 10))]
            t = ",".join(f"{cp:x}:{j}" for j, cp in enumerate(text))
            reqs.append(f"shape P{i} {r.choice(['l', 'r', '-'])} - - {r.choice([0, 3, 0x43])} {r.below(3)} {feats} - - {t}")
        groups.append([f"font P{i} {hexf}", "prefilter on"] + reqs + ["prefilter off"] + reqs + ["prefilter on"])
        meta.append(reqs)
    outs = vlib.run_groups(shim, groups, timeout=600)
    total = nontriv = 0
    for reqs, o, g in zip(meta, outs, groups):
        n = len(reqs)
        on = o[2:2 + n]; off = o[3 + n:3 + 2 * n]
        for q, x, y in zip(reqs, on, off):
            total += 1
            gids_in = [int(e.split(":")[0], 16) - 0xE000 + 1 for e in q.split()[-1].split(",")]
            gids_out = [int(e.split(":")[0]) for e in x.split()[2:]] if x.startswith("ok") else None
            if gids_out is not None and gids_out != gids_in:
                nontriv += 1
            if x != y:
                ctx.violation("shaping differs with the digest prefilter on vs off (generated font)",
                              {"stage": "search", "stream": "prefilter-on-off", "font_line": g[0], "request": q,
                               "with_prefilter": x, "without_prefilter": y})
    ctx.note_search("prefilter-generated", total, nontriv,
                    rule="random GSUB/GDEF recipes (tools/gsubgen.py) x random PUA texts x user features through shape(); "
                         "non-trivial = some glyph was substituted")


def prefilter_syllabic(ctx, shim, r, nfonts, per_font):
    """Pause functions of the syllabic shapers (reordering, dotted-circle insertion) change the glyph set in the middle of the GSUB
    pass: lookups keyed on glyphs that only appear there (e.g. the dotted circle) must still run.  Fonts and texts: tools/syllabic.py
    (one generated font per (script, GSUB tag) the crate sends to the Indic old / new spec, Khmer, Myanmar or Universal shaper; small
    SingleSubst / LigatureSubst lookups over {dotted circle, marks, consonants} under features of the shaper's own list, incl. the
    topographical ones; texts of syllables, broken clusters, typed U+25CC, spaces)."""
    import syllabic as SY
    fgroups = SY.feature_groups(shim, r, nfonts, prefix="Y", topographical=True, mark_first_ligatures=True, composites=True)
    groups, meta = [], []
    for g in fgroups:
        reqs = []
        for _ in range(per_font):
            text = SY.syllable_text(r, g)
            t = ",".join(f"{cp:x}:{j}" for j, cp in enumerate(text))
            sc = g["iso"] if r.chance(3, 4) else "-"
            reqs.append(f"shape {g['fid']} {r.choice(['-', '-', '-', 'l', 'r', 't'])} {sc} - {r.choice([0, 3, 3, 0x10, 0x43])} {r.below(3)} - - - {t}")
        mon = [ln for q in reqs for ln in (q, "digestmon")]
        groups.append([g["reg"], "prefilter on", "digestmon"] + mon + ["prefilter off"] + reqs + ["prefilter on"])
        meta.append((reqs, g))
    outs = vlib.run_groups(shim, groups, timeout=600)
    total = nontriv = 0
    kinds, reported, stale = {}, 0, 0
    for (reqs, g), o, grp in zip(meta, outs, groups):
        n = len(reqs)
        on = o[3:3 + 2 * n:2]; events = o[4:4 + 2 * n:2]; off = o[4 + 2 * n:4 + 3 * n]
        inv = {gid: cp for cp, gid in g["recipe"]["cmap"].items()}
        for q, x, y, ev in zip(reqs, on, off, events):
            total += 1
            if ev != "0":
                # the monitor inside apply_layout_table (hook layout::digest_monitor): after some stage the context digest did not
                # report a glyph of the buffer, i.e. the hypothesis of C10_skip_lookup_sound was false for the following lookups
                stale += 1
                if stale <= 3:
                    ctx.violation(f"the buffer digest kept by apply_layout_table went stale ({ev} stage(s)): a glyph of the buffer is not "
                                  "reported by it, later lookups covering that glyph are skipped",
                                  {"stage": "search", "stream": "prefilter-syllabic", "monitor": "digest-superset", "font_line": grp[0],
                                   "request": q, "font_profile": g["profile"], "stale_stages": ev, "with_prefilter": x,
                                   "without_prefilter": y})
            kinds[g["kind"]] = kinds.get(g["kind"], 0) + 1
            if len(y.split()) - 2 > len(q.split()[-1].split(",")) or any(int(e.split(":")[0]) not in inv for e in y.split()[2:] if y.startswith("ok")):
                nontriv += 1                    # a glyph was inserted (dotted circle) or substituted
            if x != y:
                reported += 1
                if reported <= 5:
                    ctx.violation("shaping differs with the digest prefilter on vs off (syllabic shaper, glyph set changed in a pause)",
                                  {"stage": "search", "stream": "prefilter-syllabic", "font_line": grp[0], "request": q,
                                   "font_profile": g["profile"], "font_recipe": g["recipe"], "with_prefilter": x, "without_prefilter": y})
    ctx.note_search("prefilter-syllabic", total, nontriv, fonts_by_shaper=kinds, deviations=reported, stale_digest_requests=stale,
                    rule="generated fonts per (script, GSUB script tag) that the crate sends to the Indic (old / new spec), Khmer, Myanmar or "
                         "Universal shaper (dispatch asked from the crate), small single / ligature substitutions over {dotted circle, marks, "
                         "consonants} under the shaper's own feature tags x texts of syllables, broken clusters, typed U+25CC, spaces; two oracles: "
                         "output with the prefilter on == off, and the monitor `digestmon` (after every stage of apply_layout_table the "
                         "context digest reports every glyph of the buffer: the hypothesis of C10_skip_lookup_sound); "
                         "non-trivial = the shaper inserted a glyph or a lookup substituted one")


def run(ctx):
    ctx.assumptions += [
        "the theorems are about the Lean model of set_digest.rs, CoverageExt::collect and hb_buffer_t::digest; "
        "the model is tied to the crate by the digest-prims correspondence stream (release semantics, wrapping u64)",
        "that a GSUB subtable does nothing at a position whose current glyph it does not cover is proved on the interpreter "
        "model Gsub.lean (C10_skip_position_is_noop / C10_skip_lookup_is_noop); that model is tied to the crate by the "
        "gsub-interp stream of C06; GPOS appliers are covered by the prefilter-on/off search only",
    ]
    ctx.regen()
    ctx.prove(MODULE)
    shim = vlib.build_harness()
    shifts = [int(x) for x in vlib.run_lines(shim, ["digest shifts"], nproc=1)[0].split()]
    r = ctx.rng("prims")
    ctx.correspond("digest-prims", lines=prim_lines(r, ctx.budget(20000, 400000), shifts), classify=classify)
    soundness_search(ctx, shim, ctx.rng("sound"), ctx.budget(3000, 60000))
    if not ctx.quick:
        exhaustive_search(ctx, shim, shifts)
    prefilter_search(ctx, shim, ctx.rng("prefilter"), ctx.budget(250, 2128), ctx.budget(2, 8))
    prefilter_generated(ctx, shim, ctx.rng("prefilter-gen"), ctx.budget(300, 5000), 6)
    prefilter_syllabic(ctx, shim, ctx.rng("prefilter-syl"), ctx.budget(300, 5000), 8)


def replay(ctx, rp):
    shim = vlib.build_harness()
    if rp.get("stream") in ("prefilter-on-off", "prefilter-syllabic"):
        lines = [rp["font_line"], "prefilter on", "digestmon", rp["request"], "digestmon", "prefilter off", rp["request"]]
        o = vlib.run_groups(shim, [lines], nproc=1)[0]
        print("with prefilter   :", o[3]); print("without prefilter:", o[6]); print("stale-digest stages:", o[4])
        return 0 if o[3] == o[6] and o[4] == "0" else 1
    if "request" in rp:
        model = vlib.build_model()
        a = vlib.run_lines(shim, [rp["request"]], nproc=1)[0]
        b = vlib.run_lines(model, [rp["request"]], nproc=1)[0]
        print("impl :", a); print("model:", b)
        return 0 if a == b and a == rp.get("expected", a) else 1
    print(rp); return 1
