"""C10 — lookup prefilters (glyph-set digests) never change the shaping result."""
import vlib, corpus, gsubgen, fontbuild

MODULE = "RbModel.Props.C10"
LEVEL = "proof"
FULL = (1 << 64) - 1


def rand_mask(r):
    k = r.below(6)
    if k == 0: return 0
    if k == 1: return FULL
    if k == 2: return 1 << r.below(64)
    if k == 3: return FULL ^ (1 << r.below(64))
    if k == 4: return r.next() & r.next() & r.next()
    return r.next()


def rand_gid(r):
    k = r.below(5)
    if k == 0: return r.below(70)
    if k == 1: return r.choice([0, 1, 62, 63, 64, 65, 511, 512, 1023, 1024, 32767, 32768, 65534, 65535])
    if k == 2: return (r.below(1024) << 6) + r.choice([0, 1, 62, 63])
    return r.below(65536)


def rand_range(r):
    a = rand_gid(r)
    k = r.below(6)
    if k == 0: b = a
    elif k == 1: b = min(65535, a + r.below(64))
    elif k == 2: b = min(65535, a + 62 + r.below(4))          # around the saturation threshold (shift 0)
    elif k == 3: b = min(65535, a + (r.choice([61, 62, 63, 64]) << r.choice([4, 9])) + r.below(3) - 1)
    elif k == 4: b = rand_gid(r)                              # possibly inverted
    else: b = min(65535, a + r.below(5000))
    return a, max(0, b)


def prim_lines(r, n, shifts):
    lines = []
    for _ in range(n):
        k = r.below(7)
        s = r.choice(shifts)
        if k == 0:
            lines.append(f"digest add {s} {rand_mask(r)} {rand_gid(r)}")
        elif k in (1, 2):
            a, b = rand_range(r)
            lines.append(f"digest range {s} {rand_mask(r)} {a} {b}")
        elif k == 3:
            lines.append(f"digest has {s} {rand_mask(r)} {rand_gid(r)}")
        elif k == 4:
            ops = []
            for _ in range(r.range(1, 6)):
                t = r.below(3)
                if t == 0: ops.append(f"a{rand_gid(r)}")
                elif t == 1:
                    a, b = rand_range(r); ops.append(f"r{a}-{b}")
                else: ops.append("A" + ",".join(str(rand_gid(r)) for _ in range(r.below(5))))
            m = [rand_mask(r) if r.chance(1, 3) else 0 for _ in range(3)]
            lines.append(f"digest full {m[0]} {m[1]} {m[2]} " + " ".join(ops))
        elif k == 5:
            lines.append("digest mayhave " + " ".join(str(rand_mask(r)) for _ in range(6)))
        else:
            lines.append("digest hasglyph " + " ".join(str(rand_mask(r)) for _ in range(3)) + f" {rand_gid(r)}")
    return lines


def rand_table(r):
    """a coverage table as the `digest collect` / `digest covget` requests write it: (fmt, items, glyph ids worth asking
    for, kind).  Half of the tables are NOT sorted: shuffled / rotated / reversed arrays, duplicates, range records that are
    unsorted, overlap, are nested or have start > end — `Coverage::get` is a binary search and still finds some entries."""
    near = r.chance(1, 2)
    base = rand_gid(r)
    def gid():
        return min(65535, base + r.below(40)) if near else rand_gid(r)
    if r.chance(1, 2):
        gs = sorted({gid() for _ in range(r.range(0, 9))})
        kind = r.choice(["sorted", "shuffled", "rotated", "reversed", "duplicates", "one-descent"]) if gs else "empty"
        if kind == "shuffled": gs = r.shuffle(gs)
        elif kind == "rotated":
            j = r.range(1, len(gs)) % len(gs); gs = gs[j:] + gs[:j]
        elif kind == "reversed": gs = gs[::-1]
        elif kind == "duplicates":
            for _ in range(r.range(1, 3)): gs.insert(r.below(len(gs) + 1), r.choice(gs))
        elif kind == "one-descent":
            g = gs.pop(r.below(len(gs))); gs.insert(r.choice([0, len(gs)]), g)
        ask = list(gs)
        return 1, (",".join(map(str, gs)) or "-"), ask, "array:" + kind
    rs, a = [], gid()
    for _ in range(r.range(0, 5)):
        b = min(65535, a + r.choice([0, 0, 1, 3, 10, 70, 600]))
        rs.append((a, b))
        a = min(65535, b + 1 + r.choice([0, 1, 5, 100]))
    kind = r.choice(["sorted", "shuffled", "overlapping", "inverted", "nested-duplicate"]) if rs else "empty"
    if kind == "shuffled": rs = r.shuffle(rs)
    elif kind == "overlapping": rs = [(a, min(65535, b + r.range(0, 12))) for a, b in rs]
    elif kind == "inverted":
        a, b = r.choice(rs); rs.insert(r.below(len(rs) + 1), (min(65535, b + r.below(2)), a))
    elif kind == "nested-duplicate":
        a, b = r.choice(rs); rs.insert(r.below(len(rs) + 1), (a, b))
        c = r.range(a, b); rs.insert(r.below(len(rs) + 1), (c, r.range(c, b)))
    ask = []
    for a, b in rs:
        lo, hi = min(a, b), max(a, b)
        ask += [a, b, (a + b) // 2, r.range(lo, hi), max(0, lo - 1), min(65535, hi + 1)]
    return 2, (",".join(f"{a}-{b}" for a, b in rs) or "-"), ask, "ranges:" + kind


def cov_lines(r, n):
    """`collect` (the real CoverageExt::collect vs Digest.collect) and `covget` (Coverage::get vs the modelled binary
    search) on tables written as given"""
    lines = []
    for _ in range(n):
        fmt, items, ask, kind = rand_table(r)
        if r.chance(1, 2):
            m = [rand_mask(r) if r.chance(1, 3) else 0 for _ in range(3)]
            lines.append(f"digest collect {m[0]} {m[1]} {m[2]} {fmt} {items}")
        else:
            g = r.choice(ask) if ask and r.chance(4, 5) else rand_gid(r)
            lines.append(f"digest covget {fmt} {items} {g}")
    return lines


def table_kind(fmt, items):
    if items == "-": return "empty"
    if fmt == "1":
        gs = [int(x) for x in items.split(",")]
        return "array:sorted" if all(a < b for a, b in zip(gs, gs[1:])) else "array:NOT-strictly-ascending"
    rs = [tuple(int(v) for v in x.split("-")) for x in items.split(",")]
    ok = all(a <= b for a, b in rs) and all(x[1] < y[0] for x, y in zip(rs, rs[1:]))
    return "ranges:sorted-disjoint" if ok else "ranges:NOT-sorted-disjoint"


def classify(ln, out):
    t = ln.split()
    ks = [t[1]]
    if t[1] == "collect":
        ks.append("collect:" + table_kind(t[5], t[6]))
    if t[1] == "covget":
        ks.append("covget:" + table_kind(t[2], t[3]) + (":found" if out != "-" else ":not-found"))
    if t[1] == "range":
        a, b = int(t[4]), int(t[5])
        ks.append("range:inverted" if a > b else ("range:saturated" if out.endswith(" 0") else "range:short"))
        if int(t[3]) == FULL: ks.append("range:already-full")
    return ks


def soundness_search(ctx, shim, r, n):
    """Oracle on the implementation alone: whatever was added must be reported present."""
    reqs, members = [], []
    for _ in range(n):
        ops, mem = [], []
        for _ in range(r.range(1, 5)):
            t = r.below(3)
            if t == 0:
                g = rand_gid(r); ops.append(f"a{g}"); mem.append(g)
            elif t == 1:
                a, b = rand_range(r)
                if a > b: a, b = b, a
                ops.append(f"r{a}-{b}")
                mem += [a, b, (a + b) // 2] + [r.range(a, b) for _ in range(3)]
            else:
                gs = [rand_gid(r) for _ in range(r.below(5))]
                ops.append("A" + ",".join(map(str, gs))); mem += gs
        reqs.append("digest full 0 0 0 " + " ".join(ops)); members.append(mem)
    outs = vlib.run_lines(shim, reqs)
    q, idx = [], []
    for i, (o, mem) in enumerate(zip(outs, members)):
        if o.startswith("panic") or o.startswith("abort"):
            ctx.violation(f"digest construction crashed: {o}", {"stage": "search", "stream": "digest-sound",
                          "request": reqs[i], "observed": o})
            continue
        m = o.split()[:3]
        for g in mem:
            q.append(f"digest hasglyph {m[0]} {m[1]} {m[2]} {g}"); idx.append((i, g))
        # a second digest holding just g must intersect
    res = vlib.run_lines(shim, q)
    bad = 0
    for (i, g), o in zip(idx, res):
        if o != "1":
            bad += 1
            if bad <= 3:
                ctx.violation(f"digest reports glyph {g} absent after it was added ({reqs[i]})",
                              {"stage": "search", "stream": "digest-sound", "request": reqs[i], "glyph": g,
                               "expected": "1", "observed": o})
    ctx.note_search("digest-sound", len(q), len(set(q)),
                    rule="build a digest by random add/add_array/add_range on the crate, then ask may_have_glyph "
                         "for every added id and for end/mid/random points of every added range; distinct = distinct queries")


def coverage_sound_search(ctx, shim, r, n):
    """Oracle on the implementation alone, hook level: whatever `Coverage::get` finds in a table — written in any order —
    must be reported by the digest `CoverageExt::collect` builds from the same table (theorem C10_collect_sound_found)."""
    tabs = [rand_table(r) for _ in range(n)]
    masks = vlib.run_lines(shim, [f"digest collect 0 0 0 {fmt} {items}" for fmt, items, _, _ in tabs])
    q, idx = [], []
    for i, ((fmt, items, ask, kind), m) in enumerate(zip(tabs, masks)):
        if m.startswith("panic") or m.startswith("abort") or len(m.split()) != 3:
            ctx.violation(f"collecting a coverage table crashed: {m[:160]}", {"stage": "search", "stream": "coverage-digest-sound",
                          "request": f"digest collect 0 0 0 {fmt} {items}", "observed": m})
            continue
        for g in sorted(set(ask)):
            q.append(f"digest covget {fmt} {items} {g}"); idx.append((i, g))
    found = vlib.run_lines(shim, q)
    q2, idx2 = [], []
    for (i, g), f in zip(idx, found):
        if f != "-" and not f.startswith("panic"):
            q2.append(f"digest hasglyph {masks[i]} {g}"); idx2.append((i, g, f))
    res = vlib.run_lines(shim, q2)
    bad = 0
    unsorted_found = 0
    for (i, g, f), o in zip(idx2, res):
        fmt, items, _, kind = tabs[i]
        if not kind.endswith(":sorted"):
            unsorted_found += 1
        if o != "1":
            bad += 1
            if bad <= 3:
                ctx.violation(f"Coverage::get finds glyph {g} (coverage index {f}) in a {kind} table, but the digest collected from "
                              f"the same table reports it absent: a lookup keyed on this table is skipped where it would apply",
                              {"stage": "search", "stream": "coverage-digest-sound", "theorem": "C10_collect_sound_found",
                               "request": f"digest collect 0 0 0 {fmt} {items}", "table_format": fmt, "table": items,
                               "table_kind": kind, "glyph": g, "coverage_get": f, "digest": masks[i],
                               "query": f"digest hasglyph {masks[i]} {g}", "expected": "1", "observed": o})
    ctx.note_search("coverage-digest-sound", len(q2), unsorted_found, tables=len(tabs), deviations=bad,
                    rule="coverage tables written as given (format 1: sorted / shuffled / rotated / reversed / duplicates / one descent; "
                         "format 2: sorted / shuffled / overlapping / start > end / nested and repeated ranges) through the real "
                         "CoverageExt::collect and Coverage::get; for every entry, range end, midpoint and neighbour that get() finds, the "
                         "collected digest must answer may_have_glyph; cases = glyphs found; non-trivial = found in a table that is not sorted")


# ------------------------------------------------------------------------------------------------
# malformed-but-accepted fonts: GSUB and GPOS subtables of every type (also behind extension lookups) whose coverage and
# class-definition tables are written out of order / with duplicates / with overlapping or inverted ranges

GPOS_TAGS = ["kern", "mark", "mkmk", "curs", "dist", "abvm", "blwm"]


def rand_gpos(r, n, pool=None, pairs=None, types=None):
    """a GPOS table recipe with lookups of every type 1-8 (fontbuild format), well formed.
    `pool` (glyphs that really occur after GSUB) biases every coverage towards those glyphs; `pairs` (adjacent glyph pairs
    that occur after GSUB) aims part of the pair / attachment subtables at such a pair: second glyph in the mark (second)
    coverage, first glyph in the base / ligature / mark2 (first) coverage; `types` overrides the lookup-type weights.
    With none of them given the draws are the ones this function always made."""
    def cov(kmin=1, kmax=5, must=None):
        if pool is None:
            return sorted(set(r.sample(list(range(1, n)), r.range(kmin, min(kmax, n - 1)))))
        k = r.range(kmin, min(kmax, n - 1))
        gs = {(r.choice(pool) if r.chance(2, 3) else r.range(1, n - 1)) for _ in range(k)}
        if must is not None: gs.add(must)
        return sorted(gs)
    def aim():
        return r.choice(pairs) if pairs and r.chance(1, 2) else (None, None)
    def vr():
        k = r.below(4)
        if k == 0: return {"xAdvance": r.range(-60, 60)}
        if k == 1: return {"xPlacement": r.range(-40, 40), "yPlacement": r.range(-40, 40)}
        if k == 2: return {"xAdvance": r.range(-60, 60), "yAdvance": r.range(-20, 20), "xPlacement": r.range(-9, 9)}
        return None
    def anc():
        return None if r.chance(1, 8) else (r.range(-200, 200), r.range(-200, 200))
    classdefs = [{g: r.range(1, 2) for g in range(1, n) if r.chance(1, 2)} for _ in range(2)] + [{}]
    nl = r.range(2, 6)
    lookups = []
    for li in range(nl):
        t = r.choice(types or [1, 2, 2, 3, 4, 5, 6, 7, 8])
        subs = []
        for _ in range(r.range(1, 2)):
            if t == 1:
                c = cov()
                subs.append({"format": 1, "coverage": c, "value": vr() or {"xAdvance": 7}} if r.chance(1, 2) else
                            {"format": 2, "coverage": c, "values": [vr() or {"xAdvance": 3} for _ in c]})
            elif t == 2:
                first, second = aim() if pool is not None else (None, None)
                c = cov(must=first)
                if r.chance(1, 2):
                    subs.append({"format": 1, "coverage": c, "pairsets": [
                        [(s2, vr() or {"xAdvance": 5}, vr()) for s2 in sorted(set(r.sample(list(range(1, n)), r.range(1, 3)))
                                                                             | ({second} if g1 == first else set()))] for g1 in c]})
                else:
                    cd1, cd2 = r.choice(classdefs), r.choice(classdefs)
                    n1, n2 = max(cd1.values(), default=0) + 1, max(cd2.values(), default=0) + 1
                    subs.append({"format": 2, "coverage": cov(2, 7), "classdef1": dict(cd1), "classdef2": dict(cd2),
                                 "matrix": [[(vr() or {"xAdvance": 9}, vr()) for _ in range(n2)] for _ in range(n1)]})
            elif t == 3:
                first, second = aim() if pool is not None else (None, None)
                c = cov(2, 6, first)
                if second is not None: c = sorted(set(c) | {second})
                subs.append({"coverage": c, "entry_exit": [(anc(), anc()) for _ in c]})
            elif t in (4, 5, 6):
                k = r.range(1, 2)
                if pool is None:
                    mc, bc = cov(1, 4), cov(1, 5)
                else:
                    first, second = aim()
                    mc, bc = cov(1, 4, second), cov(1, 5, first)
                marks = [(r.below(k), anc() or (1, 1)) for _ in mc]
                if t == 4:
                    subs.append({"mark_coverage": mc, "base_coverage": bc, "class_count": k, "marks": marks,
                                 "bases": [[anc() for _ in range(k)] for _ in bc]})
                elif t == 5:
                    subs.append({"mark_coverage": mc, "lig_coverage": bc, "class_count": k, "marks": marks,
                                 "ligs": [[[anc() for _ in range(k)] for _ in range(r.range(1, 3))] for _ in bc]})
                else:
                    subs.append({"mark1_coverage": mc, "mark2_coverage": bc, "class_count": k, "marks": marks,
                                 "mark2": [[anc() for _ in range(k)] for _ in bc]})
            else:
                subs.append(gsubgen.rand_subtable(r, t - 2, n, nl, li, classdefs))     # GPOS 7 / 8 = the GSUB 5 / 6 layouts
        lookups.append({"type": t, "flag": r.choice([0, 0, 0, 8, 2]), "subtables": subs})
    tags = r.sample(GPOS_TAGS, r.range(1, 3))
    feats = [{"tag": t, "lookups": sorted(set(r.sample(list(range(nl)), r.range(1, nl))))} for t in tags]
    return {"features": feats, "lookups": lookups}


def malformed_fonts(r, nfonts, prefix="M"):
    """[(font id, recipe, hex, statistics of the table kinds written)]"""
    out = []
    stats = {}
    for i in range(nfonts):
        rec = gsubgen.rand_recipe(r)
        kind = r.below(3)
        if kind >= 1:
            rec["gpos"] = rand_gpos(r, rec["num_glyphs"])
        if kind == 2:
            del rec["gsub"]
        gsubgen.malform_recipe(r, rec, stats)
        try:
            out.append((f"{prefix}{i}", rec, fontbuild.hexfont(rec)))
        except fontbuild.FontBuildError:
            continue
    return out, stats


def coverage_as_written(c):
    """(fmt, items) of a recipe coverage as fontbuild serialises it, in the syntax of the `digest` requests; None = not derivable"""
    if isinstance(c, dict):
        if not c.get("raw"):
            return None
        if "ranges" in c:
            return 2, (",".join(f"{int(x[0])}-{int(x[1])}" for x in c["ranges"]) or "-")
        return 1, (",".join(str(int(g)) for g in c.get("glyphs", [])) or "-")
    if isinstance(c, (list, tuple)):
        return 1, (",".join(str(g) for g in sorted({int(g) for g in c})) or "-")
    return None


def primary_coverage(table, ltype, st):
    """the coverage table `subtable.coverage()` returns (what the lookup digest is built from), as written"""
    if isinstance(st, dict) and "extension" in st:
        return primary_coverage(table, st["ext_type"], st["extension"])
    ctx_types = (5, 6) if table == "gsub" else (7, 8)
    if table == "gpos" and ltype in (4, 5):
        c = st.get("mark_coverage")
    elif table == "gpos" and ltype == 6:
        c = st.get("mark1_coverage")
    elif ltype in ctx_types and st.get("format") == 3:
        cs = st.get("coverages", st.get("input")) or [None]
        c = cs[0]
    else:
        c = st.get("coverage")
    return coverage_as_written(c)


def lookup_digest_groups(fonts):
    """correspondence requests: the digest the crate built for every lookup of the malformed fonts vs Digest.lookupDigest over
    the subtables' coverage tables as written in the recipe"""
    groups = []
    for fid, rec, hexf in fonts:
        lines = [f"font {fid} {hexf}"]
        for table in ("gsub", "gpos"):
            for li, lk in enumerate((rec.get(table) or {}).get("lookups", [])):
                covs = [primary_coverage(table, lk["type"], st) for st in lk["subtables"]]
                if any(c is None for c in covs):
                    continue
                lines.append(f"digest lookupdigest {fid} {table} {li} COVS " + " ".join(f"{f} {it}" for f, it in covs))
        groups.append(lines)
    return groups


def classify_lookup(ln, out):
    t = ln.split()
    ks = [t[3]]
    covs = t[6:]
    kinds = {table_kind(covs[i], covs[i + 1]) for i in range(0, len(covs), 2)}
    ks += ["lookup:" + k for k in sorted(kinds)]
    ks.append(f"subtables:{len(covs) // 2}")
    return ks


def lookup_digest_search(ctx, shim, fonts, stats):
    """Oracle on the crate alone, font level: for every GSUB / GPOS lookup as the crate parsed it and every glyph that the
    coverage of one of its subtables reports (Coverage::get), the lookup's digest must answer may_have_glyph."""
    groups = [[f"font {fid} {hexf}", f"digest lookups {fid} gsub {rec['num_glyphs']}", f"digest lookups {fid} gpos {rec['num_glyphs']}"]
              for fid, rec, hexf in fonts]
    outs = vlib.run_groups(shim, groups, timeout=300)
    q, idx = [], []
    nlook = 0
    for (fid, rec, hexf), o in zip(fonts, outs):
        for ti, table in ((1, "gsub"), (2, "gpos")):
            x = o[ti]
            if not x.startswith("ok "):
                if x.startswith("panic") or x.startswith("abort") or x == "timeout":
                    ctx.violation(f"reading the lookup digests of a generated font does not return normally: {x[:160]}",
                                  {"stage": "search", "stream": "lookup-digest-sound", "font_line": groups[0][0][:80], "recipe": rec,
                                   "request": f"digest lookups {fid} {table} {rec['num_glyphs']}", "observed": x})
                continue
            for li, tok in enumerate(x.split()[2:]):
                m0, m1, m2, gl = tok.split(":")
                nlook += 1
                if gl == "-":
                    continue
                for g in gl.split(","):
                    q.append(f"digest hasglyph {m0} {m1} {m2} {g}"); idx.append((fid, rec, hexf, table, li, int(g), (m0, m1, m2)))
    res = vlib.run_lines(shim, q)
    bad = 0
    for (fid, rec, hexf, table, li, g, m), o in zip(idx, res):
        if o != "1":
            bad += 1
            if bad <= 3:
                lk = (rec.get(table) or {}).get("lookups", [])
                ctx.violation(f"{table.upper()} lookup {li}: the coverage of a subtable reports glyph {g}, the lookup digest does not "
                              f"(the prefilter skips the lookup where it would apply)",
                              {"stage": "search", "stream": "lookup-digest-sound", "theorem": "C10_lookup_digest_sound_found",
                               "font_line": f"font {fid} {hexf}", "request": f"digest lookups {fid} {table} {rec['num_glyphs']}",
                               "table": table, "lookup": li, "lookup_recipe": lk[li] if li < len(lk) else None, "glyph": g,
                               "digest": " ".join(m), "query": f"digest hasglyph {' '.join(m)} {g}", "expected": "1", "observed": o})
    ctx.note_search("lookup-digest-sound", len(q), len(q), fonts=len(fonts), lookups=nlook, deviations=bad, tables_written=dict(stats),
                    rule="generated GSUB (types 1-6, 8) and GPOS (types 1-8) fonts, a fifth of the lookups behind extension lookups, every "
                         "coverage / class definition rewritten malformed-but-accepted (tools/gsubgen.py malform_recipe); cases = (lookup, "
                         "glyph) pairs where some subtable's Coverage::get reports the glyph; each must be in the lookup digest")


def prefilter_malformed(ctx, shim, r, fonts, per_font):
    """prefilter on vs off through shape() on the malformed fonts"""
    groups, meta = [], []
    for fid, rec, hexf in fonts:
        n = rec["num_glyphs"]
        tags = [f["tag"] for t in ("gsub", "gpos") for f in (rec.get(t) or {}).get("features", [])]
        reqs = []
        for _ in range(per_font):
            feats = []
            for t in tags:
                if r.chance(2, 3):
                    feats.append(f"{gsubgen.tag_hex(t)}:{r.choice([1, 1, 1, 2, 0])}:0:4294967295")
            text = [0xE000 + r.range(1, n - 1) - 1 for _ in range(r.range(1, 10))]
            t = ",".join(f"{cp:x}:{j}" for j, cp in enumerate(text))
            reqs.append(f"shape {fid} {r.choice(['l', 'r', '-'])} - - {r.choice([0, 3])} {r.below(3)} {','.join(feats) or '-'} - - {t}")
        groups.append([f"font {fid} {hexf}", "prefilter on"] + reqs + ["prefilter off"] + reqs + ["prefilter on"])
        meta.append((reqs, rec))
    outs = vlib.run_groups(shim, groups, timeout=600)
    total = nontriv = bad = 0
    for (reqs, rec), o, g in zip(meta, outs, groups):
        n = len(reqs)
        on = o[2:2 + n]; off = o[3 + n:3 + 2 * n]
        for q, x, y in zip(reqs, on, off):
            total += 1
            gids_in = [int(e.split(":")[0], 16) - 0xE000 + 1 for e in q.split()[-1].split(",")]
            es = [e.split(":") for e in y.split()[2:]] if y.startswith("ok") else []
            if es and ([int(e[0]) for e in es] != gids_in or any(e[5:7] != ["0", "0"] for e in es if len(e) >= 7)):
                nontriv += 1
            if x != y:
                bad += 1
                if bad <= 3:
                    ctx.violation("shaping differs with the digest prefilter on vs off (font with malformed-but-accepted coverage tables)",
                                  {"stage": "search", "stream": "prefilter-on-off", "generator": "malformed", "font_line": g[0],
                                   "request": q, "with_prefilter": x, "without_prefilter": y, "recipe": rec})
    ctx.note_search("prefilter-malformed", total, nontriv, deviations=bad,
                    rule="the malformed fonts of lookup-digest-sound x random PUA texts x features on / off, directions, cluster levels, "
                         "through shape(); non-trivial = some glyph was substituted or moved")


def exhaustive_search(ctx, shim, shifts):
    """thorough: all 65536 ids x 3 shifts for add; all ranges of width <= 130 from a set of anchors."""
    lines = [f"digest add {s} 0 {g}" for s in shifts for g in range(65536)]
    outs = vlib.run_lines(shim, lines)
    q = [f"digest has {s} {o} {g}" for (s, g), o in zip(((s, g) for s in shifts for g in range(65536)), outs)]
    res = vlib.run_lines(shim, q)
    for ln, o in zip(q, res):
        if o != "1":
            ctx.violation("add then may_have_glyph is false", {"stage": "search", "stream": "digest-exhaustive",
                          "request": ln, "observed": o}); break
    n = len(q)
    anchors = list(range(0, 200)) + list(range(32700, 32800)) + list(range(65300, 65536))
    lines, keys = [], []
    for s in shifts:
        for a in anchors:
            for w in range(0, 131):
                b = a + (w << s if s else w)
                if b > 65535: break
                lines.append(f"digest range {s} 0 {a} {b}"); keys.append((s, a, b))
    outs = vlib.run_lines(shim, lines)
    q = []
    for (s, a, b), o in zip(keys, outs):
        m = o.split()[0]
        for g in {a, b, (a + b) // 2, min(b, a + 63), max(a, b - 63)}:
            q.append(f"digest has {s} {m} {g}")
    res = vlib.run_lines(shim, q)
    for ln, o in zip(q, res):
        if o != "1":
            ctx.violation("add_range then may_have_glyph is false", {"stage": "search",
                          "stream": "digest-exhaustive", "request": ln, "observed": o}); break
    ctx.note_search("digest-exhaustive", n + len(q), n + len(set(q)), exhaustive_add=True,
                    rule="every 16-bit id x every shift through add; ranges of <=131 distinct bit slots from 536 anchors")


def prefilter_search(ctx, shim, r, ncases, nvariants):
    """shape() with the prefilter enabled vs answering 'maybe' everywhere: identical output required."""
    cases = corpus.load()
    cases = r.shuffle(cases)[:ncases]
    groups, meta = [], []
    for fid, reg, cs in corpus.font_groups(cases):
        lines = [reg]
        reqs = []
        for c in cs:
            reqs.append(c.shape_line(fid))
            for _ in range(nvariants):
                t = list(c.text)
                k = r.below(4)
                if k == 0 and len(t) > 1: t = r.shuffle(t)
                elif k == 1: t = t[r.below(len(t)):] or t
                elif k == 2: t = t + t[: r.below(len(t) + 1)]
                else: t = [r.choice(t) for _ in range(r.range(1, 8))]
                reqs.append(c.shape_line(fid, text="".join(t), dir=r.choice([None, "l", "r", "t"]),
                                         level=r.below(3), flags=r.choice([0, 3, 0x43, 8])))
        lines += ["prefilter on"] + reqs + ["prefilter off"] + reqs + ["prefilter on"]
        groups.append(lines); meta.append((len(reqs), reqs))
    outs = vlib.run_groups(shim, groups, timeout=900)
    total = nontriv = 0
    for (n, reqs), o, g in zip(meta, outs, groups):
        on = o[2:2 + n]; off = o[3 + n:3 + 2 * n]
        for q, x, y in zip(reqs, on, off):
            total += 1
            if x.startswith("ok") and len(x.split()) > 2:
                nontriv += 1
            if x != y:
                ctx.violation("shaping differs with the digest prefilter on vs off",
                              {"stage": "search", "stream": "prefilter-on-off", "font_line": g[0], "request": q,
                               "with_prefilter": x, "without_prefilter": y})
    ctx.note_search("prefilter-on-off", total, nontriv,
                    rule="corpus (font,text,options) of tests/shaping plus shuffled/sliced/resampled texts, random "
                         "direction/level/flags; non-trivial = shaping returned at least one glyph")


def prefilter_generated(ctx, shim, r, nfonts, per_font):
    """the same on/off comparison through shape() on generated GSUB/GDEF fonts (all lookup types, nesting)"""
    groups, meta = [], []
    for i in range(nfonts):
        rec = gsubgen.rand_recipe(r)
        try:
            hexf = fontbuild.hexfont(rec)
        except fontbuild.FontBuildError:
            continue
        n = rec["num_glyphs"]
        reqs = []
        for _ in range(per_font):
            feats = gsubgen.user_features(r, rec)
            text = [0xE000 + r.range(1, n - 1) - 1 for _ in range(r.range(1, 10))]
            t = ",".join(f"{cp:x}:{j}" for j, cp in enumerate(text))
            reqs.append(f"shape P{i} {r.choice(['l', 'r', '-'])} - - {r.choice([0, 3, 0x43])} {r.below(3)} {feats} - - {t}")
        groups.append([f"font P{i} {hexf}", "prefilter on"] + reqs + ["prefilter off"] + reqs + ["prefilter on"])
        meta.append(reqs)
    outs = vlib.run_groups(shim, groups, timeout=600)
    total = nontriv = 0
    for reqs, o, g in zip(meta, outs, groups):
        n = len(reqs)
        on = o[2:2 + n]; off = o[3 + n:3 + 2 * n]
        for q, x, y in zip(reqs, on, off):
            total += 1
            gids_in = [int(e.split(":")[0], 16) - 0xE000 + 1 for e in q.split()[-1].split(",")]
            gids_out = [int(e.split(":")[0]) for e in x.split()[2:]] if x.startswith("ok") else None
            if gids_out is not None and gids_out != gids_in:
                nontriv += 1
            if x != y:
                ctx.violation("shaping differs with the digest prefilter on vs off (generated font)",
                              {"stage": "search", "stream": "prefilter-on-off", "font_line": g[0], "request": q,
                               "with_prefilter": x, "without_prefilter": y})
    ctx.note_search("prefilter-generated", total, nontriv,
                    rule="random GSUB/GDEF recipes (tools/gsubgen.py) x random PUA texts x user features through shape(); "
                         "non-trivial = some glyph was substituted")


def prefilter_syllabic(ctx, shim, r, nfonts, per_font):
    """Pause functions of the syllabic shapers (reordering, dotted-circle insertion) change the glyph set in the middle of the GSUB
    pass: lookups keyed on glyphs that only appear there (e.g. the dotted circle) must still run.  Fonts and texts: tools/syllabic.py
    (one generated font per (script, GSUB tag) the crate sends to the Indic old / new spec, Khmer, Myanmar or Universal shaper; small
    SingleSubst / LigatureSubst lookups over {dotted circle, marks, consonants} under features of the shaper's own list, incl. the
    topographical ones; texts of syllables, broken clusters, typed U+25CC, spaces)."""
    import syllabic as SY
    fgroups = SY.feature_groups(shim, r, nfonts, prefix="Y", topographical=True, mark_first_ligatures=True, composites=True)
    groups, meta = [], []
    for g in fgroups:
        reqs = []
        for _ in range(per_font):
            text = SY.syllable_text(r, g)
            t = ",".join(f"{cp:x}:{j}" for j, cp in enumerate(text))
            sc = g["iso"] if r.chance(3, 4) else "-"
            reqs.append(f"shape {g['fid']} {r.choice(['-', '-', '-', 'l', 'r', 't'])} {sc} - {r.choice([0, 3, 3, 0x10, 0x43])} {r.below(3)} - - - {t}")
        mon = [ln for q in reqs for ln in (q, "digestmon")]
        groups.append([g["reg"], "prefilter on", "digestmon"] + mon + ["prefilter off"] + reqs + ["prefilter on"])
        meta.append((reqs, g))
    outs = vlib.run_groups(shim, groups, timeout=600)
    total = nontriv = 0
    kinds, reported, stale = {}, 0, 0
    for (reqs, g), o, grp in zip(meta, outs, groups):
        n = len(reqs)
        on = o[3:3 + 2 * n:2]; events = o[4:4 + 2 * n:2]; off = o[4 + 2 * n:4 + 3 * n]
        inv = {gid: cp for cp, gid in g["recipe"]["cmap"].items()}
        for q, x, y, ev in zip(reqs, on, off, events):
            total += 1
            if ev != "0":
                # the monitor inside apply_layout_table (hook layout::digest_monitor): after some stage the context digest did not
                # report a glyph of the buffer, i.e. the hypothesis of C10_skip_lookup_sound was false for the following lookups
                stale += 1
                if stale <= 3:
                    ctx.violation(f"the buffer digest kept by apply_layout_table went stale ({ev} stage(s)): a glyph of the buffer is not "
                                  "reported by it, later lookups covering that glyph are skipped",
                                  {"stage": "search", "stream": "prefilter-syllabic", "monitor": "digest-superset", "font_line": grp[0],
                                   "request": q, "font_profile": g["profile"], "stale_stages": ev, "with_prefilter": x,
                                   "without_prefilter": y})
            kinds[g["kind"]] = kinds.get(g["kind"], 0) + 1
            if len(y.split()) - 2 > len(q.split()[-1].split(",")) or any(int(e.split(":")[0]) not in inv for e in y.split()[2:] if y.startswith("ok")):
                nontriv += 1                    # a glyph was inserted (dotted circle) or substituted
            if x != y:
                reported += 1
                if reported <= 5:
                    ctx.violation("shaping differs with the digest prefilter on vs off (syllabic shaper, glyph set changed in a pause)",
                                  {"stage": "search", "stream": "prefilter-syllabic", "font_line": grp[0], "request": q,
                                   "font_profile": g["profile"], "font_recipe": g["recipe"], "with_prefilter": x, "without_prefilter": y})
    ctx.note_search("prefilter-syllabic", total, nontriv, fonts_by_shaper=kinds, deviations=reported, stale_digest_requests=stale,
                    rule="generated fonts per (script, GSUB script tag) that the crate sends to the Indic (old / new spec), Khmer, Myanmar or "
                         "Universal shaper (dispatch asked from the crate), small single / ligature substitutions over {dotted circle, marks, "
                         "consonants} under the shaper's own feature tags x texts of syllables, broken clusters, typed U+25CC, spaces; two oracles: "
                         "output with the prefilter on == off, and the monitor `digestmon` (after every stage of apply_layout_table the "
                         "context digest reports every glyph of the buffer: the hypothesis of C10_skip_lookup_sound); "
                         "non-trivial = the shaper inserted a glyph or a lookup substituted one")


WOULD_APPLY_SCRIPTS = [   # (script, GSUB tags, consonants, RA, virama, pre-base matra, other matra)
    ("Deva", ["dev2", "deva"], [0x0915, 0x0916, 0x0917, 0x092F], 0x0930, 0x094D, 0x093F, 0x0941),
    ("Beng", ["bng2", "beng"], [0x0995, 0x0996, 0x09AC, 0x09AF], 0x09B0, 0x09CD, 0x09BF, 0x09C1),
    ("Mlym", ["mlm2", "mlym"], [0x0D15, 0x0D16, 0x0D2F, 0x0D32], 0x0D30, 0x0D4D, 0x0D46, 0x0D41),
    ("Telu", ["tel2", "telu"], [0x0C15, 0x0C16, 0x0C2F, 0x0C32], 0x0C30, 0x0C4D, 0x0C46, 0x0C41),
    ("Khmr", ["khmr"], [0x1780, 0x1781, 0x1799, 0x179B], 0x179A, 0x17D2, 0x17C1, 0x17BB),
]
WOULD_APPLY_FEATURES = ["blwf", "pstf", "pref", "half", "rphf", "vatu", "abvf", "cjct"]


def would_apply_recipe(r):
    """a font of a syllabic shaper whose would_substitute-queried features (blwf / pstf / pref / half / rphf / vatu …) are Context or
    ChainContext lookups of formats 1-3 with the Coverage table drawn INDEPENDENTLY of the class definitions / rule sets (strict
    subset, disjoint, superset): the shapers classify consonants by asking `would_substitute`, whose lookup-level digest prefilter
    is built from the coverages"""
    script, tags, cons, ra, virama, prem, mat = r.choice(WOULD_APPLY_SCRIPTS)
    chars = cons + [ra, virama, prem, mat, 0x25CC, 0x20]
    cmap = {cp: 1 + i for i, cp in enumerate(chars)}
    base_n = len(chars) + 1
    n = base_n + 80
    g = lambda cp: cmap[cp]
    letters = [g(c) for c in cons] + [g(ra)]
    fillers = [base_n + 64 + r.below(12) for _ in range(2)]      # glyph ids far from the letters (digest patterns differ)
    lookups, feats = [], []
    for tag in r.shuffle(list(WOULD_APPLY_FEATURES))[:r.range(1, 4)]:
        target = r.choice(letters); alt = base_n + r.below(40)
        single = len(lookups) + 1
        first, second = r.choice([(g(virama), target), (target, g(virama))])
        members = r.choice([[first], [first] + fillers[:1], [first] + letters[:2]])
        cov = r.choice([fillers[:1], fillers, [x for x in members if x != first] or fillers[:1], members, members + fillers])
        fmt = r.choice([2, 2, 2, 1, 3])
        chain = r.chance(1, 3)
        if fmt == 2:
            cd = {x: 1 for x in members}; cd[second] = 2
            st = {"format": 2, "coverage": sorted(set(cov)), ("input_classdef" if chain else "classdef"): cd,
                  "classsets": [[], [{"input": [2], "lookups": [[1, single]]}], []]}
            if chain:
                st["classsets"][1][0].update({"backtrack": [], "lookahead": []})
                st["backtrack_classdef"] = {}; st["lookahead_classdef"] = {}
        elif fmt == 1:
            cv = sorted(set(cov) | {first}) if r.chance(1, 2) else sorted(set(cov))
            st = {"format": 1, "coverage": cv,
                  "rulesets": [([dict({"input": [second], "lookups": [[1, single]]}, **({"backtrack": [], "lookahead": []} if chain else {}))]
                                if x == first or r.chance(1, 2) else []) for x in cv]}
        else:
            st = {"format": 3, "coverages": [sorted(set(cov)), [second]], "lookups": [[1, single]]}
            if chain: st.update({"input": st.pop("coverages"), "backtrack": [], "lookahead": []})
        lookups.append({"type": 6 if chain else 5, "flag": 0, "subtables": [st]})
        lookups.append({"type": 1, "flag": 0, "subtables": [{"format": 2, "coverage": [second], "subst": [alt]}]})
        feats.append({"tag": tag, "lookups": [len(lookups) - 2]})
    tag = r.choice(tags)
    rec = {"num_glyphs": n, "cmap": cmap, "advances": [400 + 7 * i for i in range(n)],
           "gsub": {"scripts": [{"tag": tag, "default": {"features": list(range(len(feats)))}, "langs": []}],
                    "features": feats, "lookups": lookups}}
    return rec, script, cons, ra, virama, prem, mat


WOULD_APPLY_WITNESS = {   # D53: Context format 2 whose coverage excludes the virama although the virama's class has a rule set
    "num_glyphs": 80, "cmap": {0x0915: 1, 0x0930: 2, 0x094D: 3, 0x093F: 4, 0x25CC: 6, 0x20: 7}, "advances": [500] * 80,
    "gsub": {"scripts": [{"tag": "dev2", "default": {"features": [0]}, "langs": []}],
             "features": [{"tag": "blwf", "lookups": [0]}],
             "lookups": [{"type": 5, "flag": 0, "subtables": [{"format": 2, "coverage": [70], "classdef": {3: 1, 70: 1, 2: 2},
                                                               "classsets": [[], [{"input": [2], "lookups": [[1, 1]]}], []]}]},
                         {"type": 1, "flag": 0, "subtables": [{"format": 2, "coverage": [2], "subst": [5]}]}]}}


def prefilter_would_apply(ctx, shim, r, nfonts, per_font):
    """prefilter on vs off where the shapers ASK the font (`would_substitute`): the answer must not depend on the digest"""
    groups, meta = [], []
    fonts = [(WOULD_APPLY_WITNESS, "Deva", [0x0915], 0x0930, 0x094D, 0x093F, 0x093F)]
    for _ in range(nfonts):
        fonts.append(would_apply_recipe(r))
    kinds = {}
    for i, (rec, script, cons, ra, virama, prem, mat) in enumerate(fonts):
        try:
            hexf = fontbuild.hexfont(rec)
        except fontbuild.FontBuildError:
            continue
        fid = f"WA{i}"
        reqs = []
        if i == 0:
            reqs.append(f"shape {fid} l Deva - 0 0 - - - 915:0,94d:1,930:2,93f:3")
        for _ in range(per_font if i else 0):
            t = []
            for _s in range(r.range(1, 3)):
                t.append(r.choice(cons + [ra]))
                for _k in range(r.below(3)):
                    t += [virama, r.choice(cons + [ra, ra])]
                if r.chance(1, 2): t.append(r.choice([prem, mat]))
                if r.chance(1, 6): t.append(0x20)
            txt = ",".join(f"{cp:x}:{j}" for j, cp in enumerate(t))
            reqs.append(f"shape {fid} {r.choice(['l', 'l', 'r', 't'])} {script} - {r.choice([0, 3, 0x43])} {r.below(2)} - - - {txt}")
        for lk in rec["gsub"]["lookups"]:
            if lk["type"] in (5, 6):
                k = f"type{lk['type']}-format{lk['subtables'][0].get('format')}"
                kinds[k] = kinds.get(k, 0) + 1
        groups.append([f"font {fid} {hexf}", "prefilter on"] + reqs + ["prefilter off"] + reqs + ["prefilter on"])
        meta.append((reqs, rec))
    outs = vlib.run_groups(shim, groups, timeout=900)
    total = nontriv = bad = 0
    for (reqs, rec), o, gl in zip(meta, outs, groups):
        n = len(reqs)
        on = o[2:2 + n]; off = o[3 + n:3 + 2 * n]
        for q, x, y in zip(reqs, on, off):
            total += 1
            if x.startswith("ok") and len(x.split()) > 2: nontriv += 1
            if x != y:
                bad += 1
                if bad <= 3:
                    ctx.violation("shaping differs with the digest prefilter on vs off (a shaper's would_substitute query)",
                                  {"stage": "search", "stream": "prefilter-on-off", "generator": "would-apply", "font_line": gl[0], "request": q,
                                   "font_recipe": rec, "with_prefilter": x, "without_prefilter": y})
    ctx.note_search("prefilter-would-apply", total, nontriv, deviations=bad, contextual_lookups=kinds,
                    rule="fonts of the Indic (old / new spec) and Khmer shapers whose would_substitute-queried features (blwf, pstf, pref, half, rphf, "
                         "vatu, abvf, cjct) are Context / ChainContext lookups of formats 1-3 with the Coverage table drawn independently of the class "
                         "definitions and rule sets (subset / disjoint / superset), x consonant-virama-consonant-matra texts; plus the permanent "
                         "witness of D53; prefilter on vs off must agree")


def run(ctx):
    ctx.assumptions += [
        "the theorems are about the Lean model of set_digest.rs, CoverageExt::collect and hb_buffer_t::digest; "
        "the model is tied to the crate by the digest-prims correspondence stream (release semantics, wrapping u64), which also feeds "
        "coverage tables written in any order through the real CoverageExt::collect and Coverage::get (hooks in ot_layout_common.rs)",
        "that a GSUB subtable does nothing at a position whose current glyph it does not cover is proved on the interpreter "
        "model Gsub.lean (C10_skip_position_is_noop / C10_skip_lookup_is_noop); that model is tied to the crate by the "
        "gsub-interp stream of C06; GPOS appliers are covered by the prefilter-on/off search only",
    ]
    ctx.regen()
    ctx.prove(MODULE)
    shim = vlib.build_harness()
    shifts = [int(x) for x in vlib.run_lines(shim, ["digest shifts"], nproc=1)[0].split()]
    r = ctx.rng("prims")
    ctx.correspond("digest-prims", lines=prim_lines(r, ctx.budget(20000, 400000), shifts)
                   + cov_lines(ctx.rng("prims-cov"), ctx.budget(8000, 150000)), classify=classify)
    soundness_search(ctx, shim, ctx.rng("sound"), ctx.budget(3000, 60000))
    coverage_sound_search(ctx, shim, ctx.rng("cov-sound"), ctx.budget(3000, 60000))
    mfonts, mstats = malformed_fonts(ctx.rng("malformed"), ctx.budget(300, 5000))
    ctx.correspond("lookup-digest", groups=lookup_digest_groups(mfonts), classify=classify_lookup,
                   only=lambda ln: ln.startswith("digest "))
    lookup_digest_search(ctx, shim, mfonts, mstats)
    prefilter_malformed(ctx, shim, ctx.rng("prefilter-malformed"), mfonts, 6)
    if not ctx.quick:
        exhaustive_search(ctx, shim, shifts)
    prefilter_search(ctx, shim, ctx.rng("prefilter"), ctx.budget(250, 2128), ctx.budget(2, 8))
    prefilter_generated(ctx, shim, ctx.rng("prefilter-gen"), ctx.budget(300, 5000), 6)
    prefilter_syllabic(ctx, shim, ctx.rng("prefilter-syl"), ctx.budget(300, 5000), 8)
    prefilter_would_apply(ctx, shim, ctx.rng("prefilter-wa"), ctx.budget(150, 3000), 8)


def replay(ctx, rp):
    shim = vlib.build_harness()
    if rp.get("stream") in ("prefilter-on-off", "prefilter-syllabic"):
        lines = [rp["font_line"], "prefilter on", "digestmon", rp["request"], "digestmon", "prefilter off", rp["request"]]
        o = vlib.run_groups(shim, [lines], nproc=1)[0]
        print("with prefilter   :", o[3]); print("without prefilter:", o[6]); print("stale-digest stages:", o[4])
        return 0 if o[3] == o[6] and o[4] == "0" else 1
    if rp.get("stream") == "coverage-digest-sound":
        m = vlib.run_lines(shim, [rp["request"]], nproc=1)[0]
        f = vlib.run_lines(shim, [f"digest covget {rp['table_format']} {rp['table']} {rp['glyph']}"], nproc=1)[0]
        h = vlib.run_lines(shim, [f"digest hasglyph {m} {rp['glyph']}"], nproc=1)[0]
        print("collected digest :", m); print("Coverage::get    :", f); print("may_have_glyph   :", h)
        return 1 if (f != "-" and h != "1") else 0
    if rp.get("stream") == "lookup-digest-sound":
        o = vlib.run_groups(shim, [[rp["font_line"], rp["request"]]], nproc=1)[0]
        print("lookups:", o[1][:3000])
        tok = o[1].split()[2 + rp["lookup"]].split(":")
        covered = str(rp["glyph"]) in tok[3].split(",")
        h = vlib.run_lines(shim, [f"digest hasglyph {tok[0]} {tok[1]} {tok[2]} {rp['glyph']}"], nproc=1)[0]
        print("covered:", covered, " may_have_glyph:", h)
        return 1 if (covered and h != "1") else 0
    if "request" in rp:
        model = vlib.build_model()
        a = vlib.run_lines(shim, [rp["request"]], nproc=1)[0]
        b = vlib.run_lines(model, [rp["request"]], nproc=1)[0]
        print("impl :", a); print("model:", b)
        return 0 if a == b and a == rp.get("expected", a) else 1
    print(rp); return 1
