"""C08 — cmap-only fonts: no character is lost, duplicated or moved across clusters."""
import os, sys, unicodedata
import vlib, fontbuild
import _lattice as L

sys.path.insert(0, os.path.join(os.path.dirname(os.path.dirname(os.path.abspath(__file__))), "gens"))

MODULE = "RbModel.Props.C08"
LEVEL = "proof"

DI_RANGES = [(0xAD, 0xAD), (0x34F, 0x34F), (0x61C, 0x61C), (0x115F, 0x1160), (0x17B4, 0x17B5), (0x180B, 0x180F),
             (0x200B, 0x200F), (0x202A, 0x202E), (0x2060, 0x206F), (0x3164, 0x3164), (0xFE00, 0xFE0F), (0xFEFF, 0xFEFF),
             (0xFFA0, 0xFFA0), (0xFFF0, 0xFFF8), (0x1BCA0, 0x1BCA3), (0x1D173, 0x1D17A), (0xE0000, 0xE0FFF)]


def is_di(cp):
    return any(a <= cp <= b for a, b in DI_RANGES)


# variation selectors (CharExt::is_variation_selector): Inherited script, valid after any character of any script;
# default ignorable, general category Mn
VS_POOL = [0xFE00, 0xFE01, 0xFE0E, 0xFE0F, 0xE0100, 0xE0101, 0xE01EF]


def is_vs(cp):
    return 0xFE00 <= cp <= 0xFE0F or 0xE0100 <= cp <= 0xE01EF


def vs_run(r):
    """one selector, or several consecutive ones"""
    return [r.choice(VS_POOL) for _ in range(r.choice([1, 1, 2, 2, 3]))]


def add_selectors(r, text, marks_set, prefer=None):
    """variation selectors where the normalizer's variation-selector round distinguishes cases: after a base, after
    a mark (inside / at the end of a mark run), at the start, and in a later unrelated cluster"""
    t = list(text)
    for _ in range(r.choice([1, 1, 2])):
        marks = [i for i, c in enumerate(t) if c in marks_set]
        bases = [i for i, c in enumerate(t) if c not in marks_set and not is_vs(c)]
        k = r.below(7)
        if prefer and r.chance(1, 2):
            # a base the font has variation sequences for, followed by selector(s), as a cluster of its own
            i = r.below(len(t) + 1)
            while i < len(t) and (t[i] in marks_set or is_vs(t[i])):
                i += 1
            t[i:i] = [r.choice(prefer)] + vs_run(r)
        elif k < 3 and bases:
            i = r.choice(bases); t[i + 1:i + 1] = vs_run(r)
        elif k < 5 and marks:
            i = r.choice(marks); t[i + 1:i + 1] = vs_run(r)
        elif k == 5:
            t[0:0] = vs_run(r)
        elif bases:
            t += [t[r.choice(bases)]] + vs_run(r)
        else:
            t += vs_run(r)
    return t


# script name -> (ISO tag used only for reporting, code point ranges); strings are drawn from one entry at a time
SCRIPTS = {
    "latin": [(0x41, 0x5A), (0x61, 0x7A), (0xC0, 0x17F), (0x1E00, 0x1EFF), (0x300, 0x345), (0x346, 0x34E), (0x350, 0x36F)],
    "greek": [(0x370, 0x3FF), (0x1F00, 0x1FFF), (0x300, 0x314), (0x342, 0x345)],
    "cyrillic": [(0x400, 0x4FF), (0x300, 0x30F), (0x483, 0x489)],
    "hebrew": [(0x591, 0x5C7), (0x5D0, 0x5EA), (0x5EF, 0x5F4)],
    "arabic": [(0x600, 0x6FF), (0x750, 0x77F), (0x8A0, 0x8FF)],
    "syriac": [(0x700, 0x74F)],
    "thai": [(0xE01, 0xE3A), (0xE3F, 0xE5B)],
    "lao": [(0xE81, 0xEDF)],
    "hangul": [(0x1100, 0x11FF), (0xA960, 0xA97C), (0xD7B0, 0xD7FB), (0xAC00, 0xAC80), (0xD788, 0xD7A3), (0x302E, 0x302F)],
    "devanagari": [(0x900, 0x97F)], "bengali": [(0x980, 0x9FF)], "gurmukhi": [(0xA00, 0xA7F)], "gujarati": [(0xA80, 0xAFF)],
    "oriya": [(0xB00, 0xB7F)], "tamil": [(0xB80, 0xBFF)], "telugu": [(0xC00, 0xC7F)], "kannada": [(0xC80, 0xCFF)],
    "malayalam": [(0xD00, 0xD7F)], "sinhala": [(0xD80, 0xDFF)],
    "khmer": [(0x1780, 0x17B3), (0x17B6, 0x17DD), (0x17E0, 0x17E9)],
    "myanmar": [(0x1000, 0x109F)],
    "javanese": [(0xA980, 0xA9DF)], "balinese": [(0x1B00, 0x1B7F)], "tibetan": [(0xF00, 0xFDA)],
    "sundanese": [(0x1B80, 0x1BBF)], "tai_tham": [(0x1A20, 0x1AAD)], "cham": [(0xAA00, 0xAA5F)], "brahmi": [(0x11000, 0x1107F)],
}

SYLLABIC = {"devanagari", "bengali", "gurmukhi", "gujarati", "oriya", "tamil", "telugu", "kannada", "malayalam", "sinhala",
            "khmer", "myanmar", "javanese", "balinese", "tibetan", "sundanese", "tai_tham", "cham", "brahmi"}
RTL_SCRIPTS = {"hebrew", "arabic", "syriac"}

KHMER_SPLIT = {0x17BE, 0x17BF, 0x17C0, 0x17C4, 0x17C5}
SARA_AM = {0x0E33: (0x0E4D, 0x0E32), 0x0EB3: (0x0ECD, 0x0EB2)}
DOTTED_CIRCLE = 0x25CC


def assigned(cp):
    return unicodedata.category(chr(cp)) not in ("Cn", "Cs", "Co")


_CANON = None


def composed_of(chars):
    """every character whose full canonical decomposition consists of `chars` only and has more than one character or
    differs from it: the primary composites AND the composition-excluded forms (presentation forms, singletons …) — the
    characters canonically equivalent to a sequence over `chars`.  (Hangul syllables are covered by their ranges.)"""
    global _CANON
    if _CANON is None:
        _CANON = []
        for c in range(0x110000):
            if 0xD800 <= c <= 0xDFFF:
                continue
            dm = unicodedata.decomposition(chr(c))
            if dm and not dm.startswith("<"):
                _CANON.append((c, frozenset(ord(x) for x in unicodedata.normalize("NFD", chr(c)))))
    cs = set(chars)
    return [c for c, d in _CANON if d <= cs and c not in cs]


def alphabet(name):
    """the assigned, visible characters of the script's ranges (also used by tools/scriptgen.py)"""
    out = []
    for a, b in SCRIPTS[name]:
        for cp in range(a, b + 1):
            if assigned(cp) and not is_di(cp) and not (0xFE00 <= cp <= 0xFE0F):
                out.append(cp)
    return out


_ALPHA = {}


def alphabet_x(name):
    """the script's ranges plus every character canonically equivalent to a sequence of them (compositions under NFC
    and presentation forms such as U+FB1D..FB4E for Hebrew): a font of the conservation search maps all of them, so
    a composition the shaper makes becomes visible, and the texts draw from them too"""
    if name not in _ALPHA:
        out = alphabet(name)
        _ALPHA[name] = out + [c for c in composed_of(out) if assigned(c) and not is_di(c)]
    return list(_ALPHA[name])


def closure(cps):
    """the alphabet plus everything its characters can decompose / compose into (each gets its own glyph)"""
    s = set(cps)
    todo = list(cps)
    while todo:
        cp = todo.pop()
        for c in unicodedata.normalize("NFD", chr(cp)):
            if ord(c) not in s:
                s.add(ord(c)); todo.append(ord(c))
        if cp in SARA_AM:
            for c in SARA_AM[cp]:
                if c not in s:
                    s.add(c); todo.append(c)
    if any(c in KHMER_SPLIT for c in s):
        s.add(0x17C1)
    return sorted(s)


MIRRORED = -1
HIDDEN_DI = -2     # a default ignorable shown as the invisible (space) glyph: default flags, font with a space glyph


def full_decomp(cps, rtl=False):
    """canonical decomposition + the documented SARA AM decomposition, as a sorted multiset.
    In right-to-left results characters with the Bidi_Mirrored property may be replaced by their mirror
    image (standard bidi mirroring): they are compared as one anonymous token."""
    out = []
    flat = []
    for cp in cps:
        flat.extend(cp if isinstance(cp, tuple) else [cp])
    for cp in flat:
        if cp == HIDDEN_DI:
            out.append(cp); continue
        for c in unicodedata.normalize("NFD", chr(cp)):
            if rtl and unicodedata.mirrored(c):
                out.append(MIRRORED); continue
            c = ord(c)
            if c in SARA_AM:
                out.extend(SARA_AM[c])
            else:
                out.append(c)
    return sorted(out)


def make_font(name, with_dotted_circle, with_space, vs_glyphs=True, uvs_bases=None):
    """uvs_bases: None | characters that get cmap format 14 entries with some selectors: a non-default mapping
    (a glyph of its own standing for the pair) or a default entry (the base's nominal glyph stands for the pair).
    Returns the recipe, the cmap, the inverse map glyph -> character (or tuple of characters) and the set of
    (base, selector) pairs with a default entry."""
    cps = closure(alphabet_x(name))
    extra = ([DOTTED_CIRCLE] if with_dotted_circle else []) + ([0x20] if with_space else [])
    # DI characters used by the REMOVE stream get glyphs too
    extra += [0x200C, 0x200D, 0x00AD, 0x034F, 0x2060]
    if vs_glyphs:
        extra += VS_POOL
    allc = []
    for c in cps + extra:
        if c not in allc:
            allc.append(c)
    cmap = {cp: i + 1 for i, cp in enumerate(allc)}
    ng = len(allc) + 1
    inv = {g: cp for cp, g in cmap.items()}
    default_pairs = set()
    rec = {"cmap": cmap}
    if uvs_bases:
        uvs = []
        # non-default mappings only: the glyph of a sequence is recovered as (base, selector) whatever the buffer order
        # was when the pair met (a forced direction reverses the text by graphemes first); default entries (the base's
        # own glyph stands for the pair, the selector is not recoverable) are exercised by the norm-run streams
        for bi, b in enumerate(uvs_bases):
            for vi, v in enumerate(VS_POOL):
                if (bi + vi) % 3 != 2:
                    uvs.append([b, v, ng]); inv[ng] = (b, v); ng += 1
        wide = any(cp > 0xFFFF for cp in cmap)
        rec = {"cmap_subtables": [{"platform": 0, "encoding": 5, "format": 14, "uvs": uvs},
                                  {"platform": 3, "encoding": 10 if wide else 1, "format": 12 if wide else 4, "map": cmap}]}
    rec.update({"num_glyphs": ng, "advances": [600] * ng})
    if not with_dotted_circle:
        # the vowel-constraint pass inserts U+25CC as a *character*; a font without that glyph shows .notdef
        inv[0] = DOTTED_CIRCLE
    return rec, cmap, inv, default_pairs


def class_key(cp):
    nm = unicodedata.name(chr(cp), "")
    return (unicodedata.category(chr(cp)), unicodedata.combining(chr(cp)), " ".join(nm.split()[:2]),
            bool(unicodedata.decomposition(chr(cp))))


def boundaries(alpha):
    """characters at which some class (category, ccc, name family, decomposability, contiguity) changes: shaper
    tables are ranges, and off-by-one slips live at their ends"""
    out = []
    for i, cp in enumerate(alpha):
        prev = alpha[i - 1] if i else None
        nxt = alpha[i + 1] if i + 1 < len(alpha) else None
        if (prev is None or nxt is None or prev != cp - 1 or nxt != cp + 1
                or class_key(prev) != class_key(cp) or class_key(nxt) != class_key(cp)):
            out.append(cp)
    return out


SHAPER_SOURCES = {
    "hangul": ["ot_shaper_hangul.rs"], "thai": ["ot_shaper_thai.rs"], "lao": ["ot_shaper_thai.rs"],
    "arabic": ["ot_shaper_arabic.rs"], "syriac": ["ot_shaper_arabic.rs"], "hebrew": ["ot_shaper_hebrew.rs"],
    "khmer": ["ot_shaper_khmer.rs"], "myanmar": ["ot_shaper_myanmar.rs"],
}
for _n in ("devanagari", "bengali", "gurmukhi", "gujarati", "oriya", "tamil", "telugu", "kannada", "malayalam", "sinhala"):
    SHAPER_SOURCES[_n] = ["ot_shaper_indic.rs", "ot_shaper_vowel_constraints.rs"]


def source_boundaries(name, alpha, with_unicode=True):
    """white-box help for the generator: code points that occur as literals in the shaper's source, and the ends of the
    ranges `BASE .. BASE + COUNT` that its constants span (with their neighbours) — off-by-one slips live there"""
    import os, re
    aset = set(alpha)
    hexes, decs = set(), set()
    for fn in SHAPER_SOURCES.get(name, []) + (["unicode.rs"] if with_unicode else []):
        path = os.path.join(vlib.REPO, "src", "hb", fn)
        if not os.path.exists(path):
            continue
        src = open(path).read()
        src = src.split("pub mod verif_hooks")[0]        # the hook module's own literals are not the shaper's
        if fn == "unicode.rs":
            src = src[:60000]
        for m in re.finditer(r"0x([0-9A-Fa-f]{3,6})\b", src):
            hexes.add(int(m.group(1), 16))
        if fn != "unicode.rs":
            for m in re.finditer(r"(?<![\w.])(\d{1,3})\b", src):
                v = int(m.group(1))
                if 2 <= v <= 64:
                    decs.add(v)
    out = set()
    for h in hexes:
        for d in (-1, 0, 1):
            if h + d in aset:
                out.add(h + d)
        for c in decs:
            for d in (-2, -1, 0, 1):
                if h + c + d in aset:
                    out.add(h + c + d)
    return sorted(out)


def tight_boundaries(name, alpha):
    """the ends of the ranges the shaper's NAMED constants span: for every `const X_BASE = b` with a `const X_COUNT = n` in the
    shaper's source b-1, b, b+1 and b+n-2 … b+n+1, and the neighbours of every other hex constant — a short list, so that each
    class boundary is drawn often (the full `source_boundaries` set grows with every literal in the file)"""
    import os, re
    aset = set(alpha)
    out = set()
    for fn in SHAPER_SOURCES.get(name, []):
        path = os.path.join(vlib.REPO, "src", "hb", fn)
        if not os.path.exists(path):
            continue
        src = open(path).read().split("pub mod verif_hooks")[0]
        consts = {}
        for m in re.finditer(r"const\s+(\w+)\s*:\s*\w+\s*=\s*(0x[0-9A-Fa-f]+|\d+)\s*;", src):
            consts[m.group(1)] = int(m.group(2), 0)
        for k, b in consts.items():
            if b < 0x80:
                continue
            out.update([b - 1, b, b + 1])
            if k.endswith("_BASE") and k[:-5] + "_COUNT" in consts:
                n = consts[k[:-5] + "_COUNT"]
                out.update([b + n - 2, b + n - 1, b + n, b + n + 1])
    return sorted(x for x in out if x in aset)


def rand_string(r, alpha, marks, n, edge=None):
    s = []
    for _ in range(n):
        k = r.below(10)
        if edge and k < 4:
            s.append(r.choice(edge))
        elif k < 6 and marks:
            s.append(r.choice(marks))
        else:
            s.append(r.choice(alpha))
    return s


def check_case(text, out, inv, flags, has_dc, removed_ok, rtl=False, hidden=False, default_pairs=()):
    """text: list of cps (cluster = index); out: [(gid, cluster)]. Returns None or a description.
    inv: glyph -> character, or -> (base, selector) for the glyph of a variation sequence (cmap format 14).
    hidden: neither PRESERVE nor REMOVE is set and the font has a space glyph: every default ignorable of the text
    (a variation selector is one) must come out as exactly one invisible (space) glyph in its cluster.
    default_pairs: (base, selector) pairs for which the font's cmap format 14 subtable says "use the base's own
    glyph": such a selector directly after that base may be absent (it is part of the variation sequence)."""
    if not out:
        kept = [c for c in text if not (removed_ok and is_di(c))]
        return None if not kept else {"kind": "all output lost", "input": text}

    def want_of(cps):
        cps = [x for x in cps if not (removed_ok and is_di(x))]
        return [HIDDEN_DI if (hidden and is_di(x)) else x for x in cps]

    def got_of(chars, own_spaces):
        """characters recovered from glyphs -> comparable tokens"""
        res = []
        for x in chars:
            if isinstance(x, tuple):
                # the glyph of a variation sequence stands for all its characters; the selector inside it is
                # neither removed nor hidden separately
                for y in x:
                    if is_di(y) and removed_ok:
                        continue
                    res.append(HIDDEN_DI if (hidden and is_di(y)) else y)
            elif hidden and x == 0x20:
                # the space glyphs stand for the text's own spaces first, the rest for hidden ignorables
                if own_spaces[0] > 0:
                    own_spaces[0] -= 1
                    res.append(x)
                else:
                    res.append(HIDDEN_DI)
            else:
                res.append(x)
        return res

    absorb = {}
    for i in range(len(text) - 1):
        if (text[i], text[i + 1]) in default_pairs and not removed_ok:
            tok = HIDDEN_DI if hidden else text[i + 1]
            absorb[tok] = absorb.get(tok, 0) + 1
    clusters = sorted({c for _, c in out})
    # partition the input by the output cluster values
    parts = {c: [] for c in clusters}
    for i, cp in enumerate(text):
        owner = clusters[0]
        for c in clusters:
            if c <= i:
                owner = c
        parts[owner].append(cp)
    everything = [inv.get(g) for g, _ in out]
    for c in clusters:
        got = [inv.get(g) for g, cl in out if cl == c]
        if any(x is None for x in got):
            return {"kind": "glyph outside the cmap", "cluster": c, "glyphs": [g for g, cl in out if cl == c]}
        show = [hex(v) if isinstance(v, int) else "+".join(hex(y) for y in v) for v in got]
        dg = full_decomp(got_of(got, [sum(1 for x in parts[c] if x == 0x20)]), rtl)
        dw = full_decomp(want_of(parts[c]), rtl)
        # allowed optional additions: dotted circles (unless forbidden / impossible), 17C1 per Khmer split vowel
        extra = list(dg)
        for x in dw:
            if x in extra:
                extra.remove(x)
            elif absorb.get(x, 0) > 0:
                absorb[x] -= 1          # absorbed into a default variation sequence of the font
            else:
                name = hex(x) if x >= 0 else "mirrored" if x == MIRRORED else "hidden-default-ignorable"
                # vanished: the whole output has fewer of this character than the text (it did not just move)
                vanished = None not in everything and \
                    full_decomp(got_of(everything, [sum(1 for v in text if v == 0x20)]), rtl).count(x) + \
                    sum(1 for i in range(len(text) - 1) if (text[i], text[i + 1]) in default_pairs and
                        (HIDDEN_DI if hidden else text[i + 1]) == x) < \
                    full_decomp(want_of(text), rtl).count(x)
                d = {"kind": "character lost or moved out of its cluster", "cluster": c, "missing": name,
                     "vanished": vanished, "cluster_input": [hex(v) for v in parts[c]], "cluster_output": show}
                # attribution of one upstream-inherited behaviour: the font has a variation-sequence glyph for
                # (base, selector) of this cluster, the pair became that one glyph (replace_glyphs(2, 1): the record
                # keeps the base's code point), and the recomposition round then composed the base with a following
                # mark into a character the font maps: the composite's nominal glyph replaces the sequence glyph, the
                # selector is gone.  Signature: a selector is missing, the cluster holds such a pair, and its output
                # holds a composite of that base that the input does not.
                sel_missing = (x == HIDDEN_DI) or (x >= 0 and is_vs(x))
                if vanished and sel_missing:
                    pairs = {v for v in inv.values() if isinstance(v, tuple)}
                    for b in parts[c]:
                        if not any((b, v) in pairs for v in parts[c] if is_vs(v)):
                            continue
                        nb = unicodedata.normalize("NFD", chr(b))
                        for y in got:
                            if isinstance(y, int) and y >= 0 and y not in parts[c]:
                                ny = unicodedata.normalize("NFD", chr(y))
                                if len(ny) > len(nb) and ny.startswith(nb):
                                    d["sequence_base_recomposed"] = [hex(b), hex(y)]
                return d
        n_split = sum(1 for x in parts[c] if x in KHMER_SPLIT)
        for x in extra:
            if x == DOTTED_CIRCLE and not (flags & 0x10):
                continue
            if x == 0x17C1 and n_split > 0:
                n_split -= 1
                continue
            return {"kind": "character added or duplicated in a cluster", "cluster": c,
                    "extra": hex(x) if x >= 0 else "mirrored" if x == MIRRORED else "hidden-default-ignorable",
                    "cluster_input": [hex(v) for v in parts[c]], "cluster_output": show}
    return None


def parse_shape(reply):
    t = reply.split()
    if t[0] != "ok":
        return None
    return [(int(e.split(":")[0]), int(e.split(":")[1])) for e in t[2:]]


def conservation_search(ctx, shim, r, per_script, scripts=None):
    groups, meta = [], []
    names = scripts or sorted(SCRIPTS)
    for si, name in enumerate(names):
        alpha = alphabet_x(name)
        marks = [c for c in alpha if unicodedata.category(chr(c)).startswith("M")]
        edge = sorted(set(boundaries(alpha)) | set(source_boundaries(name, alpha)))
        src_edge = source_boundaries(name, alpha, with_unicode=False) or edge
        tight = tight_boundaries(name, alpha) or src_edge
        marks_set = set(marks)
        non_marks = [c for c in alpha if c not in marks_set]
        # font variants: (dotted circle, glyphs for the selectors, cmap format 14 variation sequences)
        for variant, (has_dc, vs_glyphs, fmt14) in enumerate([(True, True, False), (False, True, True), (True, False, False)]):
            uvs_bases = r.sample(non_marks, min(6, len(non_marks))) if fmt14 else None
            rec, cmap, inv, default_pairs = make_font(name, has_dc, True, vs_glyphs, uvs_bases)
            fid = f"S{si}v{variant}"
            lines = [f"font {fid} {fontbuild.hexfont(rec)}"]
            cases = []
            # Hangul: every kind of syllable head followed by every tight class-boundary jamo, exhaustively (small), then random
            forced_texts = []
            if name == "hangul" and variant == 0:
                heads = [[0x1100, 0x1161], [0x1112, 0x1175], [0xAC00], [0xAC1C], [0xAC01], [0xAC1B], [0x1100], [0x1161]]
                forced_texts = [h + [e] + tail for h in heads for e in tight for tail in ([], [0x302E])]
            for k_case in range(len(forced_texts) + (per_script if variant < 2 else per_script // 2)):
                n = r.range(1, 8)
                text = rand_string(r, alpha, marks, n, edge)
                if k_case < len(forced_texts):
                    text = list(forced_texts[k_case])
                elif name == "hangul" and r.chance(1, 3):
                    # structured: a syllable head followed by a class-boundary jamo (composition arithmetic lives there)
                    lv = 0xAC00 + 28 * r.below(4)
                    head = r.choice([[0x1100 + r.below(19), 0x1161 + r.below(21)], [lv], [lv + r.range(1, 27)],
                                     [0x1100 + r.below(19)], [0x1100, 0x1161]])
                    text = ([r.choice(alpha)] if r.chance(1, 3) else []) + head + [r.choice(tight if r.chance(2, 3) else src_edge)] + \
                           ([r.choice([0x302E, 0x302F])] if r.chance(1, 4) else [])
                mode = r.below(6)
                flags = r.choice([0, 3, 0x10, 0x13])
                removed_ok = hidden = False
                with_vs = r.chance(1, 3) if variant < 2 else True
                if k_case < len(forced_texts):
                    with_vs = False; mode = 5
                if with_vs:
                    # variation selectors are characters of the text like any other: kept (PRESERVE), each shown as the
                    # invisible glyph (default flags) or removed (REMOVE); a font without glyphs for them can only be
                    # asked for the last two
                    if r.chance(1, 4):
                        text = text[:r.range(1, 2)]
                    text = add_selectors(r, text, marks_set, uvs_bases)
                    k = r.choice([0, 4, 4, 8] if vs_glyphs else [0, 8])
                    flags |= k
                    removed_ok, hidden = k == 8, k == 0
                if mode == 0 and not hidden:
                    # default ignorables present: REMOVE must delete exactly them, PRESERVE keeps them
                    for _ in range(r.range(1, 2)):
                        text.insert(r.below(len(text) + 1), r.choice([0x200C, 0x200D, 0x00AD, 0x034F, 0x2060]))
                    if not with_vs:
                        if r.chance(1, 2):
                            flags |= 8; removed_ok = True
                        else:
                            flags |= 4
                d = r.choice(["-", "-", "-", "l", "r"])
                t = ",".join(f"{cp:x}:{i}" for i, cp in enumerate(text))
                lines.append(f"shape {fid} {d} - - {flags} 0 - - - {t}")
                native = "r" if name in RTL_SCRIPTS else "l"
                forced = d != "-" and d != native
                cases.append((text, flags, removed_ok, forced, hidden))
            groups.append(lines); meta.append((name, has_dc, inv, default_pairs, cases))
    outs = vlib.run_groups(shim, groups, timeout=600)
    total = nontriv = bad = 0
    per = {}
    by_class = {}
    dist = {}
    for (name, has_dc, inv, default_pairs, cases), g, o in zip(meta, groups, outs):
        for (text, flags, removed_ok, forced, hidden), ln, x in zip(cases, g[1:], o[1:]):
            total += 1
            out = parse_shape(x)
            if out is None:
                bad += 1
                if bad <= 3:
                    ctx.violation(f"shaping a cmap-only font did not return normally: {x[:160]}",
                                  {"stage": "search", "stream": "conservation", "script": name, "font_line": g[0],
                                   "request": ln, "observed": x})
                continue
            if len(text) > 1:
                nontriv += 1
            rtl = ln.split()[2] == "r" or (ln.split()[2] == "-" and name in RTL_SCRIPTS)
            d = check_case(text, out, inv, flags, has_dc, removed_ok, rtl, hidden, default_pairs)
            sel = [i for i, c in enumerate(text) if is_vs(c)]
            if sel:
                ks = ["selector", "selector:" + ("removed" if removed_ok else "hidden" if hidden else "preserved")]
                if any(i + 1 in sel for i in sel): ks.append("selector:consecutive")
                if any(i and not is_vs(text[i - 1]) and unicodedata.category(chr(text[i - 1])).startswith("M") for i in sel): ks.append("selector:after-mark")
                if any(len(inv) and isinstance(inv.get(gl), tuple) for gl, _ in out): ks.append("selector:variation-sequence-glyph")
                if default_pairs: ks.append("selector:font-has-format14")
                for k_ in ks:
                    dist[k_] = dist.get(k_, 0) + 1
            if d:
                bad += 1
                per[name] = per.get(name, 0) + 1
                if True:
                    joiner = any(is_di(cp) and not is_vs(cp) for cp in text)
                    # F1 / F4 are cluster SPLITS: a character ends up in a neighbouring cluster.  A character that is
                    # missing from the whole output is a different thing and never matches them.
                    cls = ("syllabic" if name in SYLLABIC else "other") + (
                        ":variation-sequence-recomposed" if d.get("sequence_base_recomposed") else
                        ":character-vanished" if d.get("vanished") else
                        ":forced-direction" if forced else ":default-ignorable-in-text" if joiner else
                        ":variation-selector-in-text" if sel else ":native-direction")
                    # report per class (a class that is a known finding must not use up the quota of another one)
                    by_class[cls] = by_class.get(cls, 0) + 1
                    if by_class[cls] > 3 and not (per[name] == 1 and by_class[cls] <= 6):
                        continue
                    ctx.violation(f"{name}: {d['kind']} ({' '.join(f'{c:04X}' for c in text)})",
                                  {"stage": "search", "stream": "conservation", "script": name, "font_line": g[0],
                                   "class": cls, "kind": d["kind"],
                                   "request": ln, "text": [f"{c:04X}" for c in text], "flags": flags, "deviation": d,
                                   "observed": x})
    ctx.note_search("conservation", total, nontriv, deviations=bad, by_script=per, by_class=by_class, scripts=len(names),
                    distribution=dist,
                    rule="per script with a dedicated shaper: random strings (30 % marks, incl. ill-formed sequences) over the "
                         "script's assigned characters on a generated font mapping every character (and every decomposition "
                         "product) to its own glyph, with/without U+25CC; a third of the strings carry variation selectors (one "
                         "or several consecutive ones after a base, after a mark, inside / at the end of a mark run, at the "
                         "start, in a later cluster) under PRESERVE_DEFAULT_IGNORABLES (kept), default flags (each shown as "
                         "one invisible glyph) and REMOVE_DEFAULT_IGNORABLES (removed), on fonts with and without glyphs for "
                         "the selectors and with and without cmap format 14 variation sequences (the glyph of a sequence "
                         "stands for base + selector); level 0; the characters recovered per output cluster "
                         "must equal the input characters of that cluster up to order and canonical equivalence (+ documented "
                         "additions/removals); non-trivial = more than one character")


def report(ctx, stream, name, font_line, ln, x, text, flags, d, extra=None, inv_=None, rtl_=False):
    cls = ("syllabic" if name in SYLLABIC else "other") + (":character-vanished" if d.get("vanished") else ":native-direction")
    rp = {"stage": "search", "stream": stream, "script": name, "font_line": font_line, "class": cls, "kind": d["kind"],
          "request": ln, "text": [f"{c:04X}" for c in text], "flags": flags, "deviation": d, "observed": x}
    rp.update(extra or {})
    used = {c for c in text} | {inv_[g] for g, _ in (parse_shape(x) or []) if isinstance(inv_.get(g), int)} if inv_ else set()
    if inv_:
        # enough of the font's glyph -> character map to judge the case again (`./check C08 --replay`)
        rp["glyph_chars"] = {str(g): c for g, c in inv_.items() if isinstance(c, int) and (c in used or g in [q for q, _ in (parse_shape(x) or [])])}
        rp["rtl"] = bool(rtl_)
    ctx.violation(f"{name}: {d['kind']} ({' '.join(f'{c:04X}' for c in text)})", rp)


def pair_search(ctx, shim, r, cap, U9):
    """every (letter, mark) pair of a script whose mark is named in the shaper's source (the marks the shaper treats
    specially: presentation-form tables, reordering rules, split vowels …), on the script's font — which maps every
    composition and presentation form of the script — alone and with a mark of a lower class in between"""
    groups, meta = [], []
    for si, name in enumerate(sorted(SHAPER_SOURCES)):
        alpha = alphabet_x(name)
        marks = [c for c in alpha if unicodedata.category(chr(c)).startswith("M")]
        mset = set(marks)
        letters = [c for c in alpha if c not in mset and unicodedata.category(chr(c))[0] == "L"]
        named = [c for c in source_boundaries(name, alpha, with_unicode=False) if c in mset]
        if not letters or not named:
            continue
        pairs = [(l, m) for l in letters for m in named]
        if len(pairs) > cap:
            pairs = r.sample(pairs, cap)
        rec, cmap, inv, _ = make_font(name, True, True)
        fid = f"P{si}"
        lines = [f"font {fid} {fontbuild.hexfont(rec)}"]
        cases = []
        for l, m in pairs:
            lower = [x for x in marks if 0 < U9.mcc.get(x, 0) < U9.mcc.get(m, 0)]
            texts = [[l, m]]
            if lower and r.chance(1, 3):
                texts.append([l, r.choice(lower), m])
            for t in texts:
                lines.append(f"shape {fid} - - - 0 0 - - - " + ",".join(f"{c:x}:{i}" for i, c in enumerate(t)))
                cases.append(t)
        groups.append(lines); meta.append((name, inv, cases))
    outs = vlib.run_groups(shim, groups, timeout=600)
    total = bad = 0
    per, composed = {}, {}
    for (name, inv, cases), g, o in zip(meta, groups, outs):
        rtl = name in RTL_SCRIPTS
        for t, ln, x in zip(cases, g[1:], o[1:]):
            total += 1
            out = parse_shape(x)
            if out is None:
                bad += 1
                if bad <= 3:
                    ctx.violation(f"shaping a cmap-only font did not return normally: {x[:160]}",
                                  {"stage": "search", "stream": "letter-mark-pairs", "script": name, "font_line": g[0],
                                   "request": ln, "observed": x})
                continue
            if len(out) < len(t):
                composed[name] = composed.get(name, 0) + 1
            d = check_case(t, out, inv, 0, True, False, rtl, True)
            if d:
                bad += 1
                per[name] = per.get(name, 0) + 1
                if per[name] <= 2 and sum(1 for v in per.values() if v) <= 4:
                    report(ctx, "letter-mark-pairs", name, g[0], ln, x, t, 0, d, None, inv, rtl)
    ctx.note_search("letter-mark-pairs", total, sum(composed.values()), deviations=bad, by_script=per, composed_by_script=composed,
                    rule="per script with a dedicated shaper source: every pair <letter, mark> where the mark (or a neighbour) is a "
                         "literal of the shaper's source, all pairs up to the cap (sampled beyond), one in three also with a mark "
                         "of a lower modified class in between; the script's cmap-only font maps every character of the script's "
                         "ranges and every character canonically equivalent to a sequence of them (NFC compositions, presentation "
                         "forms); oracle as in `conservation`; non-trivial = the output has fewer glyphs than the text (composed)")


def callback_search(ctx, shim, U9):
    """probe-guided: every composition / decomposition that a shaper's own normalizer callback offers (enumerated on the
    compiled crate by tools/gens/shaper_callbacks.py, cmap-only plan: has_gpos_mark = false) is exercised through
    shape() on a font that has the composite, the two parts and everything they decompose to"""
    import shaper_callbacks as SC
    try:
        R = SC.probe(shim)
    except vlib.BuildError as e:
        ctx.broken.append({"stage": "search", "stream": "callback-compositions", "log_tail": str(e)[-500:]})
        return
    ents = []
    for (sh, g), ts in sorted(R["compose"].items()):
        if g == 0:
            ents += [("compose", sh, a, b, ab) for a, b, ab in ts]
    for sh, ts in sorted(R["decompose"].items()):
        ents += [("decompose", sh, a, b, ab) for ab, a, b in ts]
    groups, meta = [], []
    for kind, sh, a, b, ab in ents:
        core = [c for c in (a, b, ab) if c]
        if any(not assigned(c) for c in core):
            continue
        cps = closure(core)
        blk = [c for c in range(a & ~0x7F, (a | 0x7F) + 1) if assigned(c)]
        lower = [m for m in blk if b and 0 < U9.mcc.get(m, 0) < U9.mcc.get(b, 0)]
        extra = lower[:2]
        allc = sorted(set(cps) | set(composed_of(cps + extra)) | set(extra)) + [0x20, DOTTED_CIRCLE]
        cmap = {cp: i + 1 for i, cp in enumerate(allc)}
        inv = {g_: cp for cp, g_ in cmap.items()}
        rec = {"cmap": cmap, "num_glyphs": len(allc) + 1, "advances": [600] * (len(allc) + 1)}
        texts = [[a, b], [a, a, b, a]] + [[a, m, b] for m in extra] if kind == "compose" else [[ab], [a, ab, a] if a not in U9.marks else [ab, ab]]
        lines = [f"font C {fontbuild.hexfont(rec)}"]
        for t in texts:
            lines.append("shape C - - - 0 0 - - - " + ",".join(f"{c:x}:{i}" for i, c in enumerate(t)))
        groups.append(lines); meta.append((kind, sh, a, b, ab, inv, texts))
    outs = vlib.run_groups(shim, groups, timeout=600)
    total = bad = used = 0
    dist = {}
    for (kind, sh, a, b, ab, inv, texts), g, o in zip(meta, groups, outs):
        rtl = unicodedata.bidirectional(chr(a)) in ("R", "AL")
        for t, ln, x in zip(texts, g[1:], o[1:]):
            total += 1
            key = f"{kind}:{sh}"
            dist[key] = dist.get(key, 0) + 1
            out = parse_shape(x)
            d = {"kind": "no output"} if out is None else check_case(t, out, inv, 0, True, False, rtl, True)
            if out is not None and kind == "compose" and any(inv.get(g_) == ab for g_, _ in out):
                used += 1
            if d:
                bad += 1
                if bad <= 4:
                    name = next((n for n in sorted(SCRIPTS) if any(lo <= a <= hi for lo, hi in SCRIPTS[n])), "other")
                    report(ctx, "callback-compositions", name, g[0], ln, x, t, 0, d,
                           {"callback": f"{sh}::{kind}", "offered": [f"{a:04X}", f"{b:04X}", f"{ab:04X}"]}, inv, rtl)
    ctx.note_search("callback-compositions", total, used, deviations=bad, distribution=dist, entries=len(ents),
                    rule="every (a, b, ab) that a shaper's own compose / decompose callback answers on the compiled crate over the "
                         "blocks of its scripts (Hebrew presentation forms, Indic / Khmer / USE rules; plan without GPOS mark "
                         "positioning), through shape(): <a b>, <a a b a>, <a m b> with a mark m of a lower class (compose), "
                         "<ab> alone and in context (decompose), on a cmap-only font that maps a, b, ab, their decompositions "
                         "and every character canonically equivalent to a sequence of them; oracle as in `conservation`; "
                         "non-trivial = the offered composite's glyph is in the output")


RECOMPOSED_CLASS = "variation-sequence-recomposed"


def recomposed_witness(ctx, shim):
    """Permanent witness of the finding `variation-sequence-recomposed`: Greek <U+1F40 U+FE00 U+0301>, native
    direction, PRESERVE_DEFAULT_IGNORABLES, on a font with a variation-sequence glyph for (U+1F40, U+FE00) and a glyph
    for U+1F44: the pair becomes the sequence glyph, the recomposition round then composes U+1F40 + U+0301 and puts
    the nominal glyph of U+1F44 there; U+FE00 and the variation are gone.  Replayed on every run once the finding is
    registered in known_findings.json (until then the random search reports it when it meets it)."""
    import json
    if not any(k.get("property") == "C08" and RECOMPOSED_CLASS in json.dumps(k.get("signature", {})) for k in ctx.kf):
        return
    rec, cmap, inv, _ = make_font("greek", False, True, True, [0x1F40])
    text = [0x1F40, 0xFE00, 0x0301]
    grp = [f"font W {fontbuild.hexfont(rec)}", "shape W l - - 4 0 - - - " + ",".join(f"{c:x}:{i}" for i, c in enumerate(text))]
    o = vlib.run_groups(shim, [grp], nproc=1)[0]
    out = parse_shape(o[1])
    d = check_case(text, out, inv, 4, False, False) if out is not None else {"kind": "no output"}
    if d:
        cls = "other:" + (RECOMPOSED_CLASS if d.get("sequence_base_recomposed") else "character-vanished" if d.get("vanished") else "native-direction")
        ctx.violation(f"greek: {d['kind']} ({' '.join(f'{c:04X}' for c in text)})",
                      {"stage": "search", "stream": "conservation", "script": "greek", "font_line": grp[0], "class": cls,
                       "kind": d["kind"], "request": grp[1], "text": [f"{c:04X}" for c in text], "flags": 4,
                       "deviation": d, "observed": o[1], "witness": True})


def thai_stream(ctx, r, n):
    """Thai / Lao preprocessing: hook vs Lean model on strings dense in SARA AM and above-base marks"""
    groups = []
    for name, base in (("thai", 0), ("lao", 0x80)):
        rec, cmap, inv, _ = make_font(name, True, True)
        lines = [f"font T{base} {fontbuild.hexfont(rec)}"]
        pool = [0x0E33 + base] * 4 + [0x0E31 + base, 0x0E34 + base, 0x0E35 + base, 0x0E48 + base, 0x0E49 + base, 0x0E4A + base,
                                       0x0E4D + base, 0x0E32 + base, 0x0E01 + base, 0x0E14 + base, 0x0E38 + base, 0x0E3B + base, 0x41]
        for _ in range(n):
            text = [r.choice(pool) for _ in range(r.range(0, 8))]
            t = ",".join(f"{c:x}" for c in text) or "-"
            lines.append(f"thai T{base} {r.below(3)} {t}")
        groups.append(lines)
    def classify(ln, out):
        t = ln.split()[3]
        ks = ["sara-am" if ("e33" in t or "eb3" in t) else "no-sara-am"]
        if out.count(",") + 1 != t.count(",") + 1 and t != "-": ks.append("decomposed")
        return ks
    ctx.correspond("thai-preprocess", groups=groups, classify=classify, only=lambda ln: ln.startswith("thai "),
                   canon=lambda x: "panic" if x.startswith("panic") else x)


LATTICE_RULE = ("font support lattice (tools/props/_lattice.py): every character with a canonical decomposition (key families — "
                "the scripts with a dedicated shaper, singletons, spaces, multi-level marks — exhaustively, the Latin / Greek / "
                "CJK bulk sampled in quick), sample Hangul syllables, General Punctuation and the spaces x cmap-only fonts for "
                "every subset of {c, the halves and inner pieces of its decomposition, U+0020, U+2010, U+2011, U+25CC} x one "
                "script per shaper (default, arabic, hebrew, thai, hangul, indic, khmer, myanmar, use; dispatch read from the "
                "compiled crate) and the script of c's block x {c, c + mark, base + c, base + c + mark}; kept: the font maps "
                "every character of the text (the property's premise); oracle as in `conservation`: per output cluster the "
                "characters recovered from the glyphs are canonically equivalent to the input characters of the cluster")


def run(ctx):
    ctx.assumptions += [
        "canonical equivalence is decided with CPython's unicodedata (Unicode 14): alphabets are restricted to characters assigned there",
        "the syllabic shapers (Indic, USE, Khmer, Myanmar) are not modelled in Lean: for them the property rests on this search only",
        "C08_default_shaper_conserves is about RbModel/Pipeline.lean (default shaper, fonts without layout tables), tied to the crate by the pipeline-shape stream",
        "C08_hebrew_compose_canonical / C08_shaper_callbacks_canonical are about the answers of the shapers' own compose / decompose callbacks as probed on the compiled crate (Gen/HebrewCompose.lean, Gen/ShaperCallbacks.lean: hook verif::normalize::probe_compose / probe_decompose) over the blocks of their scripts, judged against CPython's canonical data (Gen/NormRef.lean); the same answers are shaped by the callback-compositions search",
        "C08_decompose_current_conserves is about Norm.decomposeCurrentCharacter (RbModel/Norm.lean: decompose / decompose_current_character in both modes), tied to the crate by the norm-run-lattice stream (hook verif::normalize::normalize_vs, every normalization preference, lattice requests of tools/props/_lattice.py); the support-lattice search carries the same statement through shape() for every shaper",
        "C08_vs_round_keeps / C08_vs_round_chars are about Norm.vsLoop (RbModel/Norm.lean: handle_variation_selector_cluster with cmap format 14 as a parameter), tied to the crate by the norm-run-selectors stream (hook verif::normalize::normalize_vs)",
    ]
    ctx.regen()
    ctx.prove(MODULE)
    shim = vlib.build_harness()
    thai_stream(ctx, ctx.rng("thai"), ctx.budget(4000, 100000))
    # C08_default_shaper_conserves is a statement about the Pipeline model: its tie to the crate (C16's stream, same generator)
    import C16, _pipeline as P
    chars = P.Chars(shim)
    chars.load(C16.LETTERS + C16.MIRROR + C16.VERT + C16.SPACES + C16.CONT + C16.MARKS0 + C16.DI + C16.MAC + [0x25CC])
    P.correspond(ctx, "pipeline-shape", C16.shape_lines(ctx.rng("shape"), chars, ctx.budget(300, 20000)), classify=C16.classify_shape)
    # C08_vs_round_keeps / C08_vs_round_chars are statements about Norm.vsLoop (handle_variation_selector_cluster): its
    # tie to the crate is C09's norm-run stream, here restricted to texts with variation selectors
    import C09
    U9 = C09.UData(shim)
    sel_lines = [ln for ln in C09.gen_run_lines(ctx.rng("norm-selectors"), ctx.budget(8000, 150000), U9)
                 if any(c in U9.vs for c, _, _ in C09.parse_text_tok(ln.split()[9]))]
    dis = ctx.correspond("norm-run-selectors", lines=sel_lines, classify=C09.classify_run)
    # a model / crate disagreement is promoted into shape() inputs (the request's own font, one script per shaper), judged by
    # the conservation oracle; then the font support lattice: every decomposable character x every subset of the glyphs
    # its normalization can depend on x every shaper, on fonts that map every character of the text
    env = L.Env(shim)
    L.promote_norm_run(ctx, shim, env, dis, ctx.budget(40, 300), [L.judge_conservation_p], "norm-run-selectors")
    # C08_decompose_current_conserves is a statement about Norm.decomposeCurrentCharacter in every mode: its tie to the crate
    # is the same protocol on lattice requests (multi-level decompositions on fonts with partial support)
    dis2 = ctx.correspond("norm-run-lattice", lines=L.lattice_run_lines(ctx.rng("norm-lattice"), ctx.budget(6000, 150000), 1),
                          classify=C09.classify_run)
    if dis2:
        L.promote_norm_run(ctx, shim, env, dis2, ctx.budget(40, 300), [L.judge_conservation_p], "norm-run-lattice")
    L.search(ctx, shim, env, ctx.rng("lattice"), ("decomposable", "plain"),
             lambda c, S, text, tag: all(x in S for x in text), [L.judge_conservation], LATTICE_RULE)
    recomposed_witness(ctx, shim)
    callback_search(ctx, shim, U9)
    pair_search(ctx, shim, ctx.rng("pairs"), ctx.budget(1500, 40000), U9)
    conservation_search(ctx, shim, ctx.rng("conservation"), ctx.budget(400, 12000))


def replay(ctx, rp):
    shim = vlib.build_harness()
    if rp.get("stream") == L.STREAM:
        return L.replay(shim, rp, [L.judge_conservation])
    if rp.get("stream") == L.PROMOTED:
        return L.replay_promoted(shim, rp, [L.judge_conservation_p])
    o = vlib.run_groups(shim, [[rp["font_line"], rp["request"]]], nproc=1)[0]
    print(o[1])
    if "glyph_chars" in rp:
        inv = {int(g): c for g, c in rp["glyph_chars"].items()}
        text = [int(c, 16) for c in rp["text"]]
        out = parse_shape(o[1])
        d = {"kind": "no output"} if out is None else check_case(text, out, inv, rp.get("flags", 0), True, False, rp.get("rtl", False), True)
        print("deviation:", d)
        return 1 if d else 0
    return 0
