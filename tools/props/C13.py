"""C13 — default-ignorable characters are invisible unless preservation is requested."""
import os, sys
import vlib
import fontbuild
import _pipeline as P
import _dienv

sys.path.insert(0, os.path.join(vlib.ROOT, "tools", "gens"))

MODULE = "RbModel.Props.C13"
LEVEL = "proof"

PRESERVE, REMOVE = 4, 8
LETTERS = [0x41, 0x42, 0x43, 0x44, 0xE000, 0xE001, 0x4E00, 0x5D0]      # no marks, nothing mirrors/decomposes
# characters whose glyph may be missing on purpose (fallbacks of decompose_current_character)
FALLBACKS = [0x2003, 0x2007, 0x2011, 0xA0]


def spec_ranges(model):
    o = vlib.run_lines(model, ["pl dispecranges"], nproc=1)[0]
    return [tuple(int(x) for x in t.split("-")) for t in o.split()]


def all_spec_di(model):
    return [c for a, b in spec_ranges(model) for c in range(a, b + 1)]


def impl_ranges(shim):
    import di
    return [tuple(r) for r in di.di_ranges(shim)]


def in_ranges(rs, c):
    return any(a <= c <= b for a, b in rs)


# ----------------------------------------------------------------------------------------------
# search 1: the set

def di_set_search(ctx, shim, model):
    """is_default_ignorable of the compiled crate (all 0x110000 code points, through the hook) against
    Spec.DI.isDI (asked from the Lean driver, the single written-out copy of the Unicode list)."""
    spec = spec_ranges(model)
    impl = impl_ranges(shim)
    pts = set()
    for a, b in spec + impl:
        pts.update((a, b + 1))
    pts = sorted(pts)
    diff = []
    # the two indicator functions are constant between consecutive breakpoints
    for i, p in enumerate(pts):
        q = pts[i + 1] if i + 1 < len(pts) else p + 1
        if in_ranges(spec, p) != in_ranges(impl, p):
            diff += list(range(p, q))
    # double-check every reported point and every range end with single-point hook/driver queries
    probe = sorted(set(diff) | {x for a, b in spec + impl for x in (a - 1, a, b, b + 1) if 0 <= x < 0x110000})
    a = vlib.run_lines(shim, [f"pl di {c}" for c in probe])
    b = vlib.run_lines(model, [f"pl dispec {c}" for c in probe])
    g = vlib.run_lines(model, [f"pl digen {c}" for c in probe])
    for c, x, y, z in zip(probe, a, b, g):
        if x != z:
            ctx.violation(f"generated table Gen/DI.lean disagrees with the compiled crate at U+{c:04X}",
                          {"stage": "correspond", "stream": "di-gen", "codepoint": c, "impl": x, "gen": z})
        if (x != y) != (c in diff):
            ctx.violation(f"internal: range comparison and point probe disagree at U+{c:04X}",
                          {"stage": "search", "stream": "di-set-internal", "codepoint": c})
    # one violation per maximal run of differing code points; `codepoint` is the first of the run
    runs = []
    for c in sorted(diff):
        if runs and runs[-1][1] + 1 == c and in_ranges(spec, c) == in_ranges(spec, runs[-1][0]):
            runs[-1][1] = c
        else:
            runs.append([c, c])
    ctx.di_runs = runs
    for a0, b0 in runs:
        want = in_ranges(spec, a0)
        name = f"U+{a0:04X}" if a0 == b0 else f"U+{a0:04X}..U+{b0:04X}"
        ctx.violation(
            f"{name} {'is' if a0 == b0 else 'are'}{'' if want else ' not'} Default_Ignorable_Code_Point (Unicode 16, "
            f"minus the four Hangul fillers) but is_default_ignorable returns {str(not want).lower()}",
            {"stage": "search", "stream": "di-set", "codepoint": a0, "range": [a0, b0], "expected": int(want),
             "observed": int(not want)})
    ctx.note_search("di-set", 0x110000, len(probe),
                    rule="every code point 0..0x10FFFF through the hook (block scans merged into ranges) against "
                         "Spec.DI.isDI; non-trivial = range ends +-1 and differing points re-probed one by one")
    return spec, impl


# ----------------------------------------------------------------------------------------------
# correspondence streams

def uprops_lines(r, chars, pool, n):
    lines = [f"pl uinit {chars.tok(c)}" for c in pool]
    special = [0x200D, 0x200C, 0xA9, 0x1F468, 0x1F469, 0x1F3FB, 0x1F3FF, 0x1F1E6, 0x1F1E7, 0x1F1FF, 0xFF9E, 0xFF9F,
               0xE0020, 0xE007F, 0x34F, 0x301, 0x41, 0x20, 0x2003, 0x5D0, 0x30]
    special = [c for c in special if c in chars.p and chars.p[c]]
    for _ in range(n):
        k = r.range(1, 8)
        seq = [r.choice(special) if r.chance(2, 3) else r.choice(pool) for _ in range(k)]
        lines.append("pl useq " + ",".join(chars.tok(c) for c in seq))
    return lines


def rand_items(r, n, di_bias=True):
    """gid.props.gprops:cluster items with random IGNORABLE / CONTINUATION bits and cluster shapes"""
    k = r.below(5)
    cl, c = [], r.below(3)
    for i in range(n):
        if k == 0: c = i
        elif k == 1: c += r.below(3)
        elif k == 2: c = n - i
        elif k == 3: c = r.below(4)
        else: c = c + r.below(2) if i else c
        cl.append(c)
    if k == 2:
        pass
    out = []
    for i in range(n):
        gc = r.choice([1, 5, 7, 12, 12, 1, 29, 10])
        props = gc | (0x20 if r.chance(2, 5) else 0) | (0x80 if (gc in (10, 11, 12) or r.chance(1, 5)) else 0)
        gprops = r.choice([0, 2, 8, 0x12, 0])          # 0x10 = SUBSTITUTED
        out.append(f"{100 + i}.{props}.{gprops}:{cl[i]}")
    return ",".join(out) or "-"


def cluster_lines(r, n):
    lines = []
    for _ in range(n):
        op = r.choice(["fc", "rg", "del", "del"])
        lines.append(f"pl {op} {r.below(3)} {rand_items(r, r.range(0, 9))}")
    return lines


def shape_corr_lines(r, chars, di_pool, n):
    lines = []
    alpha = LETTERS + FALLBACKS + [0x20, 0x2010, 0x30, 0x2E, 0x25CC]
    for _ in range(n):
        rec = P.rand_recipe(r, alpha + r.sample(di_pool, 6), allow_mac=False, allow_symbol=r.chance(1, 8),
                            space=r.choice([True, True, False, None]))
        ft = P.font_tokens(rec)
        for _ in range(3):
            k = r.range(0, 10)
            text = [r.choice(LETTERS) if r.chance(9, 10) else r.choice(FALLBACKS + [0x20]) for _ in range(k)]
            for _ in range(r.range(1, 3)):
                text.insert(r.below(len(text) + 1), r.choice(di_pool))
            text = [c for c in text if chars.in_scope(c)]
            m = r.below(4)
            if m == 0: cl = list(range(len(text)))
            elif m == 1: cl = [2 * i + 3 for i in range(len(text))]
            elif m == 2:
                cl, c = [], 0
                for _ in text:
                    cl.append(c); c += r.below(2)
            else: cl = list(range(len(text)))[::-1]
            flags = r.choice([0, 0, PRESERVE, REMOVE, PRESERVE | REMOVE, 1, 1 | REMOVE, 17, 3])
            lines.append(P.shape_line(chars, ft, r.choice("llrtb"), r.choice(list(P.SCRIPTS)), flags, r.below(3),
                                      text, cl, npre=r.choice([0, 0, 0, 1])))
    return lines


def classify_shape(ln, out):
    t = ln.split()
    ks = ["dir:" + t[4], "level:" + t[8], "flags:" + t[7], "script:" + t[5]]
    if out.startswith("ok"):
        n_in = 0 if t[10] == "-" else len(t[10].split(","))
        n_out = int(out.split()[1])
        ks.append("len:same" if n_in == n_out else ("len:shorter" if n_out < n_in else "len:longer(dotted-circle)"))
    else:
        ks.append("reply:" + out.split()[0])
    return ks


# ----------------------------------------------------------------------------------------------
# search 2: invisibility through the public API

def search_font(di_all, space):
    """letters 1..8, (space 9), every default ignorable its own glyph 10+i (so PRESERVE can be told apart).
    Built with the shared tools/fontbuild.py (one (3,10) format 12 subtable; 11 long metrics, the last one
    applies to all default-ignorable glyphs).  Returns hex."""
    cmap = {c: i + 1 for i, c in enumerate(LETTERS)}
    if space:
        cmap[0x20] = 9
    cmap.update({c: 10 + i for i, c in enumerate(di_all)})
    return fontbuild.hexfont(dict(num_glyphs=10 + len(di_all), upem=1000, ascender=800, descender=-200,
                                  cmap=cmap, advances=[0, 310, 420, 530, 640, 750, 860, 970, 1080, 250, 777]))


def invisibility_search(ctx, shim, chars, di_all, di_pick, r):
    gid_of = {c: i + 1 for i, c in enumerate(LETTERS)}
    di_gid = {c: 10 + i for i, c in enumerate(di_all)}
    adv = lambda g: [0, 310, 420, 530, 640, 750, 860, 970, 1080, 250][g] if g < 10 else 777
    fonts = {"sp": search_font(di_all, True), "nosp": search_font(di_all, False)}
    base = LETTERS[:4]
    cfgs = [(d, fl, lv) for d in "lrtb" for fl in (0, PRESERVE, REMOVE) for lv in ((0, 1, 2) if not ctx.quick else (0, 1))]
    groups, meta = [], []
    for fname, hx in fonts.items():
        for chunk_i in range(0, len(di_pick), 64):
            lines = [f"font F {hx}"]
            ms = []
            for d in di_pick[chunk_i:chunk_i + 64]:
                d2 = r.choice(di_pick)
                variants = [
                    ("lead", [d] + base), ("mid", base[:2] + [d] + base[2:]), ("trail", base + [d]),
                    ("pair", base[:1] + [d, d2] + base[1:]), ("only", [d]),
                    ("rand", None),
                ]
                for vname, text in variants:
                    if text is None:
                        text = [r.choice(LETTERS) for _ in range(r.range(1, 6))]
                        for _ in range(r.range(1, 3)):
                            text.insert(r.below(len(text) + 1), r.choice([d, d2]))
                    pick = cfgs if vname in ("mid", "lead") else [r.choice(cfgs), r.choice(cfgs)]
                    for (dr, fl, lv) in pick:
                        tt = ",".join(f"{c:x}:{i}" for i, c in enumerate(text))
                        lines.append(f"shape F {dr} Latn - {fl} {lv} - - - {tt}")
                        ms.append((fname, vname, text, dr, fl, lv))
            groups.append(lines); meta.append(ms)
    outs = vlib.run_groups(shim, groups, timeout=1200)
    total = bad = bad_reported = 0
    dist = {}
    impl_di = lambda c: chars.p[c]["di"] == 1
    for ms, o, g in zip(meta, outs, groups):
        for (fname, vname, text, dr, fl, lv), reply, req in zip(ms, o[1:], g[1:]):
            total += 1
            key = f"{vname}/{dr}/f{fl}/{fname}"
            dist[key] = dist.get(key, 0) + 1
            err = check_case(chars, text, dr, fl, lv, fname == "sp", reply, gid_of, di_gid, adv)
            if err:
                bad += 1
                dis = [c for c in text if c in di_gid]
                cp = next((c for c in dis if not impl_di(c)), dis[0])
                # a character the crate does not classify as default-ignorable is the `di-set` finding seen
                # end to end: attribute it there (same replay keys), everything else is its own stream
                if not impl_di(cp):
                    # end-to-end confirmation of a `di-set` difference (already reported there, same finding):
                    # kept in the evidence, one example per differing run
                    first = next((a0 for a0, b0 in getattr(ctx, "di_runs", []) if a0 <= cp <= b0), cp)
                    ex = ctx.cov.setdefault("di_set_seen_through_shape", {})
                    e = ex.setdefault(f"U+{first:04X}", {"cases": 0})
                    e["cases"] += 1
                    e.setdefault("example", {"shown": cp, "font": fname, "request": req, "reply": reply, "what": err})
                elif bad_reported < 2:
                    bad_reported += 1
                    ctx.violation(f"default ignorable U+{cp:04X} not invisible: {err}",
                                  {"stage": "search", "stream": "di-invisible", "codepoint": cp, "font": fname,
                                   "font_hex": fonts[fname], "request": req, "reply": reply})
    ctx.note_search("di-invisible", total, total, distribution_keys=len(dist), violations=bad,
                    rule="shape() (public API) on cmap-only fonts with / without a space glyph; every selected default "
                         "ignorable of Spec.DI x {leading, middle, trailing, followed by a second one, alone, random "
                         "text} x {default, PRESERVE, REMOVE} x 4 directions x cluster levels; oracle: zero advance/"
                         "offsets + space glyph, or removed with the cluster inside the neighbour's range; PRESERVE: "
                         "own glyph; the other glyphs' ids/advances/offsets equal to the text without the ignorables")


def is_continuation(chars, c):
    """grapheme continuation as set_unicode_props sees it, for the characters the search uses"""
    p = chars.p[c]
    return p["gc"] in (10, 11, 12) or (c == 0x200D and p["di"]) or 0xE0020 <= c <= 0xE007F or 0xFF9E <= c <= 0xFF9F


def visual_order(chars, text, dr):
    """(logical index, char) in the order the glyphs come out: logical for l / t; for r / b (script Latn:
    the run is reversed up front by ensure_native_direction) graphemes in reverse order, each in its own order"""
    idx = list(enumerate(text))
    if dr in "lt":
        return idx
    groups = []
    for i, c in idx:
        if groups and is_continuation(chars, c):
            groups[-1].append((i, c))
        else:
            groups.append([(i, c)])
    return [x for g in reversed(groups) for x in g]


def check_case(chars, text, dr, fl, lv, has_space, reply, gid_of, di_gid, adv):
    """returns None or a description of what is wrong"""
    t = reply.split()
    if not t or t[0] != "ok":
        return f"shape failed: {reply[:80]}"
    gl = [tuple(int(x) for x in g.split(":")) for g in t[2:]]     # gid cluster flags xa ya xo yo
    n = len(text)
    horiz = dr in "lr"
    vis = visual_order(chars, text, dr)

    def letter_ok(c, g):
        gid, cl, _, xa, ya, xo, yo = g
        if gid != gid_of[c]:
            return f"glyph of U+{c:04X} is {gid}, expected {gid_of[c]}"
        if horiz:
            if (xa, ya, xo, yo) != (adv(gid), 0, 0, 0):
                return f"position of U+{c:04X} is {(xa, ya, xo, yo)}, expected {(adv(gid), 0, 0, 0)}"
        else:
            if (xa, ya, xo, yo) != (0, -1000, -(adv(gid) // 2), -800):
                return f"position of U+{c:04X} is {(xa, ya, xo, yo)}, expected {(0, -1000, -(adv(gid) // 2), -800)}"
        return None

    if fl & PRESERVE:
        if len(gl) != n:
            return f"PRESERVE: {len(gl)} glyphs for {n} characters"
        for (i, c), g in zip(vis, gl):
            if c in di_gid:
                if g[0] != di_gid[c]:
                    return f"PRESERVE: U+{c:04X} rendered with glyph {g[0]}, expected its own glyph {di_gid[c]}"
            else:
                e = letter_ok(c, g)
                if e: return e
        return None
    removed = bool(fl & REMOVE) or not has_space
    if not removed:
        if len(gl) != n:
            return f"{len(gl)} glyphs for {n} characters (nothing should be removed)"
        for (i, c), g in zip(vis, gl):
            if c in di_gid:
                if g[0] != 9 or g[3:] != (0, 0, 0, 0):
                    return (f"U+{c:04X}: glyph {g[0]} advance/offset {g[3:]}, expected the space glyph 9 with "
                            f"zero advance and offsets")
            else:
                e = letter_ok(c, g)
                if e: return e
        return None
    letters = [(i, c) for i, c in vis if c not in di_gid]
    if len(gl) != len(letters):
        return f"{len(gl)} glyphs left, expected the {len(letters)} non-ignorable characters"
    kept = sorted(i for i, _ in letters)
    for (i, c), g in zip(letters, gl):
        e = letter_ok(c, g)
        if e: return e
        # input clusters are 0..n-1: the glyph's cluster must lie in (previous kept character, own index]
        prev = max([k for k in kept if k < i], default=-1)
        if not (prev < g[1] <= i):
            return (f"cluster {g[1]} of U+{c:04X} (character {i}) outside ({prev}, {i}]: a removed cluster was "
                    f"not merged into a neighbour")
    if letters and lv < 2 and min(g[1] for g in gl) != 0:
        return f"smallest cluster {min(g[1] for g in gl)} != 0: the leading removed cluster was dropped"
    return None


# ----------------------------------------------------------------------------------------------
# search 3: insertion next to characters that only get a glyph through the normalizer's fallbacks

def fallback_interference_search(ctx, shim, chars, di_all, r):
    """LTR text without combining marks on a cmap-only font that lacks some characters: fallback spaces
    (rendered with the space glyph and a computed width), U+2011 (rendered as U+2010), a precomposed letter
    (rendered as base + mark).  Inserting a default ignorable after them must not change their glyphs."""
    cmap = {0x41: 1, 0x42: 2, 0x20: 3, 0x2010: 4, 0x65: 5, 0x301: 6, 0x30: 8, 0x2E: 9}
    cmap.update({c: 7 for c in di_all if c < 0x10000})
    hx = fontbuild.hexfont(dict(num_glyphs=10, upem=1000, ascender=800, descender=-200, cmap=cmap,
                                advances=[50, 500, 600, 250, 333, 444, 10, 77, 555, 222]))
    bases = [0x2000, 0x2001, 0x2002, 0x2003, 0x2004, 0x2005, 0x2006, 0x2007, 0x2008, 0x2009, 0x200A, 0x202F,
             0x205F, 0x3000, 0xA0, 0x2011, 0xE9]
    dis = [0xFE00, 0xFE0F, 0x34F, 0x200D, 0x200C, 0x200B, 0xAD, 0x180B, 0x17B4, 0x2060, 0xFEFF, 0x61C]
    dis = [d for d in dis if d in di_all] + r.sample([c for c in di_all if c < 0x10000], ctx.budget(20, 200))
    lines = [f"font F {hx}"]
    meta = []
    for b in bases:
        for fl in (0, REMOVE):
            def req(text):
                return f"shape F l Latn - {fl} 0 - - - " + ",".join(f"{c:x}:{i}" for i, c in enumerate(text))
            lines.append(req([0x41, b, 0x42])); meta.append((b, None, fl))
            for d in dis:
                lines.append(req([0x41, b, d, 0x42])); meta.append((b, d, fl))
                lines.append(req([0x41, d, b, 0x42])); meta.append((b, d, fl))
    outs = vlib.run_groups(shim, [lines])[0][1:]
    base_out = {}
    reported = set()
    n = 0
    for (b, d, fl), o, ln in zip(meta, outs, lines[1:]):
        gl = [tuple(int(x) for x in g.split(":")) for g in o.split()[2:]] if o.startswith("ok") else None
        if d is None:
            base_out[(b, fl)] = gl
            continue
        n += 1
        ref = base_out[(b, fl)]
        vis = [(g[0], g[3], g[4], g[5], g[6]) for g in (gl or []) if not (g[0] in (7, 3) and g[3] == 0)]
        want = [(g[0], g[3], g[4], g[5], g[6]) for g in ref]
        if gl is None or vis != want:
            kind = "variation-selector" if chars.p[d]["vs"] else "other"
            key = kind
            if key in reported:
                ctx.cov["fallback_interference_more"] = ctx.cov.get("fallback_interference_more", 0) + 1
                continue
            reported.add(key)
            ctx.violation(
                f"inserting default ignorable U+{d:04X} next to U+{b:04X} (no glyph of its own; rendered through a "
                f"normalizer fallback) changes the other glyphs: {want} -> {vis}",
                {"stage": "search", "stream": "di-vs-fallback", "inserted_kind": kind, "base": b, "codepoint": d,
                 "font_hex": hx, "request": ln, "reply": o, "without_ignorable": want})
    ctx.note_search("di-fallback-interference", n, n,
                    rule="A X B vs A X d B / A d X B, LTR, X in {fallback spaces, U+2011, U+00E9} missing from the font, "
                         "d in named + random default ignorables; the non-ignorable glyphs (id, advances, offsets) "
                         "must be those of the text without d")


# ----------------------------------------------------------------------------------------------

def run(ctx):
    ctx.assumptions += [
        "the theorems are about the Lean model RbModel/Pipeline.lean of the default-shaper pipeline for fonts "
        "without layout tables (no GSUB/GPOS/GDEF/kern/AAT, no outlines, no cmap format 14); it is tied to the "
        "crate by the di-uprops / di-clusters (hooks) and di-shape (public shape()) correspondence streams",
        "texts on which the normalizer could act (decomposable characters, composing marks, ccc != 0) are outside "
        "the model (`oos` on both sides); default ignorables that a font's lookups substitute are outside the "
        "property; not_found_variation_selector is None",
        "Spec/DI.lean is a hand-written copy of Unicode 16 DerivedCoreProperties (27 rows, 4174 code points, "
        "count proved) minus the four Hangul fillers",
    ]
    ctx.regen()
    ctx.prove(MODULE)
    shim = vlib.build_harness()
    model = vlib.build_model()

    spec, impl = di_set_search(ctx, shim, model)
    di_all = [c for a, b in spec for c in range(a, b + 1)]
    ends = sorted({x for a, b in spec for x in (a, b)})
    chars = P.Chars(shim)
    chars.load(di_all + LETTERS + FALLBACKS + [0x20, 0x2010, 0x30, 0x2E, 0x25CC, 0x200D, 0x200C, 0xA9, 0x1F468,
                                               0x1F469, 0x1F3FB, 0x1F3FF, 0x1F1E6, 0x1F1E7, 0x1F1FF, 0xFF9E, 0xFF9F,
                                               0x34F, 0x301, 0x5D0])
    di_pool = [c for c in di_all if chars.in_scope(c)]
    if len(di_pool) != len(di_all):
        ctx.cov.setdefault("notes", []).append(
            f"{len(di_all) - len(di_pool)} default ignorables are out of the model's scope (ccc / composition)")

    r = ctx.rng("uprops")
    pool = ends + r.sample(di_pool, ctx.budget(200, len(di_pool))) + LETTERS + [0x301, 0x20, 0x2003]
    pool = [c for c in dict.fromkeys(pool) if chars.p.get(c)]
    P.correspond(ctx, "di-uprops", uprops_lines(r, chars, pool, ctx.budget(3000, 200000)),
                   classify=lambda ln, out: [ln.split()[1]])
    P.correspond(ctx, "di-clusters", cluster_lines(ctx.rng("clusters"), ctx.budget(6000, 600000)),
                   classify=lambda ln, out: [ln.split()[1] + ":level" + ln.split()[2]])
    r = ctx.rng("shape")
    pick = ends + r.sample(di_pool, 300)
    P.correspond(ctx, "di-shape", shape_corr_lines(r, chars, [c for c in pick if chars.in_scope(c)],
                                                      ctx.budget(700, 50000)), classify=classify_shape)

    ctx.correspond("trak-position-complex",
                   lines=_dienv.position_complex_lines(shim, ctx.rng("poscx"), ctx.budget(6, 60), ctx.budget(25, 120)),
                   classify=_dienv.classify_poscx)

    ctx.correspond("gdef-class-props", lines=_dienv.gdef_props_lines(ctx.rng("gdefprops"), ctx.budget(400, 6000)),
                   classify=_dienv.classify_gdef_props)

    r = ctx.rng("invisible")
    if ctx.quick:
        di_pick = sorted(set(ends) | set(di_all[::8]))
    else:
        di_pick = di_all
    invisibility_search(ctx, shim, chars, di_all, di_pick, r)
    _dienv.search(ctx, shim, chars, di_all, ctx.rng("invisible-env"))
    chars.load([0x2000 + i for i in range(11)] + [0x202F, 0x205F, 0x3000, 0xA0, 0x2011, 0xE9])
    fallback_interference_search(ctx, shim, chars, di_all, ctx.rng("fallback"))


def replay(ctx, rp):
    shim = vlib.build_harness()
    st = rp.get("stream")
    if st == "di-invisible-env":
        return _dienv.replay(shim, rp)
    if st in ("di-set", "di-gen") and "request" not in rp:
        model = vlib.build_model()
        c = rp["codepoint"]
        a = vlib.run_lines(shim, [f"pl di {c}"], nproc=1)[0]
        b = vlib.run_lines(model, [f"pl dispec {c}"], nproc=1)[0]
        print(f"U+{c:04X}: is_default_ignorable={a} Spec.DI.isDI={b}")
        return 0 if a == b else 1
    if "font_hex" in rp or rp.get("via") == "shape()":
        hx = rp.get("font_hex")
        if hx is None:
            model = vlib.build_model()
            di_all = all_spec_di(model)
            hx = search_font(di_all, rp["font"] == "sp")
        o = vlib.run_groups(shim, [[f"font F {hx}", rp["request"]]], nproc=1)[0]
        print("request:", rp["request"]); print("reply  :", o[1]); print("recorded:", rp.get("reply"))
        return 1
    if "request" in rp:
        model = vlib.build_model()
        a = vlib.run_lines(shim, [rp["request"]], nproc=1)[0]
        b = vlib.run_lines(model, [rp["request"]], nproc=1)[0]
        print("impl :", a); print("model:", b)
        return 0 if a == b else 1
    print(rp); return 1
