"""C11 — joining scripts follow the Unicode cursive-joining rules (DESIGN.md §5 C11).

prove       lake build RbModel.Props.C11 (+ axiom audit)
correspond  arabic-consts / arabic-resolve / arabic-ctx / arabic-join / arabic-masks / arabic-mong:
            the same request through the crate's hooks and through the Lean model
            arabic-ctxseq / arabic-joinraw: sequences of context calls on ONE buffer (raw arrays + lengths read back) and the
            joining pass on raw context arrays with arbitrary characters BEHIND the context length
search      context-history: the joining pass after any history of context calls == after the last calls alone; characters
                          behind the context length change nothing
            joining-dispatch: joining_type() of the compiled crate vs JOINING_TABLE laid out by its own offset constants
                          (both PARSED from the source, tools/gens/arabic_dispatch.py); gc=Cf without entry -> T
            spec-oracle:  `arabic cls` — the crate's joining pass on representative characters of the 8 classes
                          vs the Lean *spec* (Spec/Joining.lean) evaluated on the classes; exhaustive words
                          <= 6 x contexts of length 0/1 in thorough, a stride of it in quick; random long words
            known-chars:  joining class of well-known characters (independent mini-source for the table)
            metamorphic:  context-as-text and T-insertion on the crate alone, random real characters
            shape-e2e:    through shape() on generated positional-forms fonts, per script that owns joining letters
                          in the crate's table (scripts, letters, OpenType tags, directions all derived from the crate's
                          data; needs tools/fontbuild.py) one font per ScriptList layout: own tag(s), only DFLT / dflt /
                          latn, several fall-backs, features under a language system selected (or not) by the buffer
                          language, no usable record; layouts for which the default shaper is due by design are counted
"""
import itertools, os, sys
import vlib
sys.path.insert(0, os.path.join(os.path.dirname(os.path.abspath(__file__)), "..", "gens"))
import arabic_dispatch

MODULE = "RbModel.Props.C11"
LEVEL = "proof"

CLASSES = "ULRDCTAS"          # U L R D C T Alaph DalathRish(S)
JT_NUM = {"U": 0, "L": 1, "R": 2, "D": 3, "C": 3, "A": 4, "S": 5, "T": 7}
ACTION_NAMES = ["isol", "fina", "fin2", "fin3", "medi", "med2", "init", "none"]

# Well-known characters and their Unicode joining class (ArabicShaping.txt / DerivedJoiningType.txt, from memory of
# the standard, NOT from the crate).  Used (a) as an independent spot check of the table, (b) as representatives.
KNOWN = {
    "U": [0x0041, 0x0020, 0x0621, 0x200C, 0x0030, 0x0674, 0x002E, 0x4E00,
          # format / punctuation characters that ArabicShaping.txt lists EXPLICITLY as non-joining (they are gc=Cf or would
          # otherwise be derived): Arabic number signs, end of ayah, MVS, NNBSP, the four bidi isolate controls
          0x0600, 0x0601, 0x0602, 0x0603, 0x0604, 0x0605, 0x0608, 0x060B, 0x06DD, 0x08E2, 0x1806, 0x180E, 0x202F,
          0x2066, 0x2067, 0x2068, 0x2069],
    "L": [0xA872, 0x10ACD, 0x10D00, 0x10AD7],
    "R": [0x0627, 0x062F, 0x0631, 0x0648, 0x0622, 0x0717, 0x0718, 0x0840, 0x10AC5],
    "D": [0x0628, 0x0633, 0x064A, 0x0645, 0x0712, 0x071D, 0x07CA, 0x1820, 0x1807, 0x0841, 0x10AC0, 0xA840],
    "C": [0x0640, 0x200D, 0x07FA, 0x180A, 0x0883, 0x0884, 0x0885],
    "T": [0x064B, 0x0651, 0x070F, 0x0300, 0xFE00, 0x200E, 0x0670, 0x180B, 0x1885, 0x0730],
    "A": [0x0710],
    "S": [0x0715, 0x0716, 0x072A, 0x072F],
}


# The basic Arabic letters U+0620..U+064A and the Syriac letters U+0710..U+072F, class by class, as the script
# works (alef/dal/thal/reh/zain/waw and teh marbuta join only backwards, hamza not at all, tatweel causes joining; ...).
ARABIC_BLOCK = "DURRRRDRDRDDDDDRRRRDDDDDDDDDDDDD" "CDDDDDDDRDD"          # 0620..064A
SYRIAC_BLOCK = "ATDDDSSRRRDDDDRD" "DDDDDDDDRDSDRDDS"                      # 0710..072F
for _i, _k in enumerate(ARABIC_BLOCK):
    if 0x620 + _i not in KNOWN[_k]:
        KNOWN[_k].append(0x620 + _i)
for _i, _k in enumerate(SYRIAC_BLOCK):
    if 0x710 + _i not in KNOWN[_k]:
        KNOWN[_k].append(0x710 + _i)
N_KNOWN = sum(len(v) for v in KNOWN.values())


def q(shim, lines, **kw):
    return vlib.run_lines(shim, lines, **kw)


class Chars:
    """Class pools of real characters, checked through the hook."""

    def __init__(self, ctx, shim):
        self.gc = {}
        self.res = {}
        self.raw = {}
        out = q(shim, ["arabic ranges"], nproc=1)[0]
        self.ranges = []
        for e in out.split():
            se, raw = e.split(":")
            s, e2 = se.split("-")
            self.ranges.append((int(s), int(e2), int(raw)))
        self.table_cps = [c for s, e, _ in self.ranges for c in range(s, e + 1)]
        allc = sorted(set(self.table_cps) | {c for v in KNOWN.values() for c in v})
        self.learn(shim, allc)
        # independent spot check of the per-character table
        bad = 0
        for k, cps in KNOWN.items():
            for c in cps:
                if self.res[c] != JT_NUM[k]:
                    bad += 1
                    ctx.violation(f"U+{c:04X} has Unicode joining class {k} but the crate resolves it to joining type "
                                  f"{self.res[c]} (expected {JT_NUM[k]})",
                                  {"stage": "search", "stream": "known-chars", "request": f"arabic jt {c}",
                                   "expected": JT_NUM[k], "observed": self.res[c]})
        # Unicode's derivation rule for Joining_Type (ArabicShaping.txt): every nonspacing and every enclosing mark is
        # Transparent.  General categories from CPython's unicodedata (an older Unicode: assigned categories are stable).
        import unicodedata
        marks = [c for c in range(0x110000) if unicodedata.category(chr(c)) in ("Mn", "Me")]
        self.learn(shim, marks + [0x0300, 0x20DD])
        # … and only where the crate's own general category (a newer Unicode) still says Mn / Me (U+1171E became Mc)
        mark_gcs = {self.gc[0x0300], self.gc[0x20DD]}
        marks = [c for c in marks if self.gc[c] in mark_gcs]
        wrong = [c for c in marks if self.res[c] != JT_NUM["T"]]
        if wrong:
            c = wrong[0]
            ctx.violation(f"U+{c:04X} is a {unicodedata.category(chr(c))} mark, hence Joining_Type Transparent, but the crate resolves "
                          f"it to joining type {self.res[c]} ({len(wrong)} marks, e.g. {[hex(x) for x in wrong[:8]]})",
                          {"stage": "search", "stream": "known-chars", "request": f"arabic jt {c}",
                           "expected": JT_NUM["T"], "observed": self.res[c], "count": len(wrong)})
        ctx.note_search("marks-transparent", len(marks), len(marks),
                        rule="every code point of general category Mn or Me (per CPython unicodedata AND per the crate's own general category) resolves to joining type T")
        n = sum(len(v) for v in KNOWN.values())
        ctx.note_search("known-chars", n, n, rule=f"joining class of {N_KNOWN} well-known characters (all of U+0620..064A and "
                        "U+0710..072F; samples of N'Ko, Mandaic, Mongolian, Phags-pa, Manichaean, Hanifi Rohingya, controls, "
                        "marks) vs the crate")
        # pools per class: known characters first, then everything else the table puts into the class
        cset = set(KNOWN["C"])
        self.pool = {k: list(v) for k, v in KNOWN.items()}
        for c in self.table_cps:
            r = self.res[c]
            for k in "ULRDAST":
                if r == JT_NUM[k] and c not in cset and c not in self.pool[k]:
                    self.pool[k].append(c)
        # keep only members that really are in the class for the crate (a mutated table must not derail the streams)
        for k in self.pool:
            self.pool[k] = [c for c in self.pool[k] if self.res[c] == JT_NUM[k]] or [KNOWN[k][0]]

    def learn(self, shim, cps):
        cps = [c for c in cps if c not in self.gc]
        outs = q(shim, ["arabic jt " + " ".join(map(str, cps[i:i + 400])) for i in range(0, len(cps), 400)])
        k = 0
        for o in outs:
            for e in o.split():
                raw, res, gc = map(int, e.split(":"))
                c = cps[k]; k += 1
                self.raw[c], self.res[c], self.gc[c] = raw, res, gc

    def tok(self, c):
        return f"{c}:{self.gc[c]}"

    def reps(self, r):
        """one representative per class -> the comma list of the `cls` request"""
        return ",".join(str(r.choice(self.pool[k][:12])) for k in CLASSES)

    def rand_cp(self, r):
        k = r.below(10)
        if k < 6:
            return r.choice(self.pool[r.choice(CLASSES)][:40])
        if k < 8:
            return r.choice(self.table_cps)
        if k == 8:
            return r.choice([0x41, 0x20, 0x5D0, 0x915, 0x3042, 0x1F600, 0xE000, 0x10FFFF, 0x0, 0x7F, 0x80, 0x600, 0x605,
                             0x8E2, 0x6DD, 0x70F, 0x2066, 0x2069, 0x202F, 0x1806, 0x180E, 0x180F, 0xFE0F, 0xE0100])
        c = r.below(0x110000)
        return c if not (0xD800 <= c <= 0xDFFF) else 0x41


def rand_word(r, maxlen, weights="UULLRRRDDDDCTTTAAS"):
    if not weights:
        return ""
    return "".join(r.choice(weights) for _ in range(r.range(0, maxlen)))


# ------------------------------------------------------------------------------------------------
# correspondence streams


def stream_resolve(ctx, shim, ch, r, n, exhaustive):
    cps = [ch.rand_cp(r) for _ in range(n)]
    ch.learn(shim, sorted(set(cps)))
    lines = []
    for c in cps:
        gc = ch.gc[c] if r.chance(1, 2) else r.below(30)
        lines.append(f"arabic resolve {c} {gc}")
    if exhaustive:
        allc = [c for c in range(0x110000) if not (0xD800 <= c <= 0xDFFF)]
        ch.learn(shim, allc)
        lines += [f"arabic resolve {c} {ch.gc[c]}" for c in allc]

    def classify(ln, out):
        return ["jt=" + out]
    ctx.correspond("arabic-resolve", lines=lines, classify=classify)


def stream_ctx(ctx, r, n):
    lines = []
    for _ in range(n):
        a = [r.range(32, 2000) for _ in range(r.range(0, 9))]
        b = [r.range(32, 2000) for _ in range(r.range(0, 9))]
        lines.append("arabic ctx " + " ".join(map(str, a)) + " / " + " ".join(map(str, b)))
    ctx.correspond("arabic-ctx", lines=lines,
                   classify=lambda ln, out: ["prelen=%d" % len(out.split("/")[0].split())])


def join_line(ch, pre, text, post):
    f = lambda xs: " ".join(ch.tok(c) for c in xs)
    return f"arabic join {f(pre)} / {f(text)} / {f(post)}"


def stream_join(ctx, shim, ch, r, n):
    cases = []
    for _ in range(n):
        k = r.below(10)
        tl = r.range(0, 4) if k < 3 else (r.range(5, 14) if k < 9 else r.range(15, 60))
        text = [ch.rand_cp(r) for _ in range(tl)]
        pre = [ch.rand_cp(r) for _ in range(r.choice([0, 0, 1, 1, 2, 3, 4, 5, 5, 6, 8]))]
        post = [ch.rand_cp(r) for _ in range(r.choice([0, 0, 1, 1, 2, 3, 4, 5, 5, 6, 8]))]
        cases.append((pre, text, post))
    ch.learn(shim, sorted({c for p, t, q_ in cases for c in p + t + q_}))
    lines = [join_line(ch, *c) for c in cases]

    def classify(ln, out):
        ks = []
        t = out.split()
        if t and t[0] == "ok":
            for a in set(t[1:]):
                ks.append("action=" + ACTION_NAMES[int(a)] if int(a) < 8 else "action=?")
            ks.append("len=%s" % ("0" if len(t) == 1 else "1-4" if len(t) <= 5 else "5-14" if len(t) <= 15 else "15+"))
        else:
            ks.append(t[0] if t else "empty")
        parts = ln[len("arabic join "):].split("/")
        ks.append("pre=%d" % min(6, len(parts[0].split())))
        ks.append("post=%d" % min(6, len(parts[2].split())))
        return ks
    ctx.correspond("arabic-join", lines=lines, classify=classify)


def strip_flags(out):
    """masks replies: drop glyph-flag bits 0..2 (set by unsafe_to_concat / safe_to_insert_tatweel inside
    arabic_joining; they belong to the buffer model, C03/C04, and are not modelled here)"""
    t = out.split()
    if not t or t[0] != "ok":
        return out
    res = ["ok"]
    for e in t[1:]:
        a, m = e.split(":")
        res.append(f"{a}:{int(m) & ~7}")
    return " ".join(res)


MONG = [0x1820, 0x1821, 0x1822, 0x1828, 0x182D, 0x1836, 0x180A, 0x1807, 0x1887]
FVS = [0x180B, 0x180C, 0x180D, 0x180F]
FVS_S = {str(c) for c in FVS}
NEAR_FVS = [0x180A, 0x180E, 0x1810, 0x200D, 0xFE00]


def stream_masks(ctx, shim, ch, r, n):
    cases = []
    for _ in range(n):
        mong = r.below(2)
        bits = r.shuffle(list(range(3, 31)))[:7]
        ma = [(1 << b) if r.chance(5, 6) else 0 for b in bits] + [0 if r.chance(4, 5) else (1 << r.range(3, 30))]
        text = []
        for _ in range(r.range(0, 10)):
            k = r.below(8)
            if k < 3: text.append(r.choice(MONG))
            elif k < 5: text.append(r.choice(FVS))
            elif k == 5: text.append(r.choice(NEAR_FVS))
            else: text.append(ch.rand_cp(r))
        masks = [(r.next() & 0x7FFFFFF8) if r.chance(1, 2) else 0 for _ in text]
        pre = [r.choice(MONG + FVS) if r.chance(1, 2) else ch.rand_cp(r) for _ in range(r.range(0, 3))]
        post = [r.choice(MONG + FVS) if r.chance(1, 2) else ch.rand_cp(r) for _ in range(r.range(0, 3))]
        cases.append((mong, ma, pre, text, masks, post))
    ch.learn(shim, sorted({c for _, _, p, t, _, q_ in cases for c in p + t + q_}))
    lines = []
    for mong, ma, pre, text, masks, post in cases:
        f = lambda xs: " ".join(ch.tok(c) for c in xs)
        tx = " ".join(f"{ch.tok(c)}:{m}" for c, m in zip(text, masks))
        lines.append(f"arabic masks {mong} {' '.join(map(str, ma))} / {f(pre)} / {tx} / {f(post)}")

    def classify(ln, out):
        ks = ["mong=" + ln.split()[2]]
        toks = ln.split()
        if any(t.split(":")[0] in FVS_S for t in toks[12:]):
            ks.append("has-fvs")
        return ks
    ctx.correspond("arabic-masks", lines=lines, classify=classify, canon=strip_flags)
    # oracle on the crate alone: mask_out = mask_in | mask_array[action], action = the joining pass's own result
    # (Mongolian: a free variation selector takes the action of the item before it)
    jl = [join_line(ch, pre, text, post) for _, _, pre, text, _, post in cases]
    mo = q(shim, lines)
    jo = q(shim, jl)
    bad = 0
    for (mong, ma, pre, text, masks, post), ln, m, j in zip(cases, lines, mo, jo):
        acts = [int(x) for x in j.split()[1:]]
        if mong:
            for i in range(1, len(acts)):
                if text[i] in FVS:
                    acts[i] = acts[i - 1]
        exp = "ok " + " ".join(f"{a}:{mk | ma[a]}" for a, mk in zip(acts, masks)) if acts else "ok"
        if strip_flags(m) != exp:
            bad += 1
            if bad <= 3:
                ctx.violation(f"setup_masks does not OR exactly the form's 1-mask into the item masks: {ln}",
                              {"stage": "search", "stream": "masks-oracle", "request": ln, "expected": exp,
                               "observed": strip_flags(m)})
    ctx.note_search("masks-oracle", len(cases), sum(1 for c in cases if c[3]), mismatches=bad,
                    rule="setup_masks_inner on the crate vs mask_in | mask_array[action of the crate's own joining pass] "
                         "(+ FVS copy for Mongolian); glyph-flag bits 0..2 ignored; non-trivial = non-empty text")


def stream_mong(ctx, r, n):
    lines = []
    for _ in range(n):
        items = []
        for _ in range(r.range(0, 10)):
            k = r.below(6)
            cp = r.choice(FVS) if k < 3 else (r.choice(NEAR_FVS) if k == 3 else r.choice(MONG + [0x41, 0x628, 0x180B - 1, 0x180F + 1]))
            items.append(f"{cp}:{r.below(10)}")
        lines.append("arabic mong " + " ".join(items))
    ctx.correspond("arabic-mong", lines=lines,
                   classify=lambda ln, out: ["fvs-first" if ln.split()[2:3] and int(ln.split()[2].split(":")[0]) in FVS else "other"])


# ------------------------------------------------------------------------------------------------
# raw context arrays: histories of context calls on one buffer, characters behind the context length

CTX_SLOTS = 5


def _ctx_chars(ch, r, k, joiny=True):
    """k context characters: mostly letters that join / transparent marks (what makes a stale slot matter)"""
    out = []
    for _ in range(k):
        x = r.below(10)
        if joiny and x < 5:
            out.append(r.choice(ch.pool[r.choice("DDDLRCAS")][:20]))
        elif x < 7:
            out.append(r.choice(ch.pool["T"][:20]))
        else:
            out.append(ch.rand_cp(r))
    return out


def ctx_history(ch, r):
    """-> (calls, effective pre text, effective post text).  calls = [(kind p|q|a, [cp…])…] on ONE UnicodeBuffer without
    clear(): earlier, mostly LONGER contexts of joining letters, then a last call per side that is empty, transparent-only,
    shorter, or arbitrary; `a` = add() of characters (zeroes the post-context length, keeps the array)."""
    calls = []
    for _ in range(r.range(1, 4)):
        k = r.below(7)
        if k < 3:
            calls.append(("p", _ctx_chars(ch, r, r.range(1, 7))))
        elif k < 6:
            calls.append(("q", _ctx_chars(ch, r, r.range(1, 7))))
        else:
            calls.append(("a", _ctx_chars(ch, r, r.range(0, 2))))

    def last(r):
        k = r.below(8)
        if k < 2: return []
        if k < 4: return [r.choice(ch.pool["T"][:20]) for _ in range(r.range(1, 4))]
        if k < 6: return _ctx_chars(ch, r, r.range(1, 2))
        return _ctx_chars(ch, r, r.range(0, 7), joiny=r.chance(1, 2))
    tail = []
    if r.chance(5, 6): tail.append(("p", last(r)))
    if r.chance(5, 6): tail.append(("q", last(r)))
    if r.chance(1, 2): tail.reverse()
    if r.chance(1, 6): tail.insert(r.below(len(tail) + 1), ("a", _ctx_chars(ch, r, r.range(0, 2))))
    calls += tail
    pre, post = [], []
    for k, t in calls:
        if k == "p": pre = t
        elif k == "q": post = t
        elif t: post = []
    return calls, pre, post


def ctxseq_line(calls):
    return ("arabic ctxseq " + " ".join(f"{k}:{','.join(map(str, t))}" for k, t in calls)).rstrip()


def joinraw_line(ch, pl, ql, pre, text, post):
    f = lambda xs: " ".join(ch.tok(c) for c in xs)
    return f"arabic joinraw {pl} {ql} {f(pre)} / {f(text)} / {f(post)}"


def stream_ctxraw(ctx, shim, ch, r, n):
    """(1) correspondence `arabic-ctxseq`: histories of set_pre_context / set_post_context / add on one buffer, raw arrays
    and lengths read back; (2) correspondence `arabic-joinraw`: the joining pass on raw arrays with arbitrary characters
    behind the lengths; (3) oracle `context-history` on the crate alone: the joining pass after a history == the joining
    pass on a fresh buffer given only the effective (last) contexts; garbage behind the length == NUL behind the length."""
    hist = [ctx_history(ch, r) for _ in range(n)]
    seq_lines = [ctxseq_line(c) for c, _, _ in hist]
    ctx.correspond("arabic-ctxseq", lines=seq_lines,
                   classify=lambda ln, out: ["calls=%d" % min(6, len(ln.split()) - 2),
                                             "prelen=" + out.split()[0], "postlen=" + (out.split()[1] if len(out.split()) > 1 else "?")])
    seq_out = q(shim, seq_lines)
    cases = []          # (how, description, slots pre, prelen, text, slots post, postlen, effective pre text, effective post text)
    for (calls, pre, post), o in zip(hist, seq_out):
        try:
            head, a, b = o.split("/")
            pl, ql = (int(x) for x in head.split())
            a, b = [int(x) for x in a.split()], [int(x) for x in b.split()]
        except ValueError:
            ctx.violation(f"context calls on one buffer: unreadable reply {o[:100]}",
                          {"stage": "search", "stream": "context-history", "request": ctxseq_line(calls), "observed": o[:300]})
            continue
        text = [r.choice(ch.pool[r.choice("DDRRASLC")][:20])] if r.chance(3, 4) else []
        text += [ch.rand_cp(r) for _ in range(r.range(0, 4))]
        if r.chance(3, 4):
            text.append(r.choice(ch.pool[r.choice("DDLC")][:20]))
        cases.append(("history", ctxseq_line(calls), a, pl, text, b, ql, pre, post))
    # arbitrary characters behind the lengths, set directly
    for _ in range(n):
        pl, ql = r.below(CTX_SLOTS + 1), r.below(CTX_SLOTS + 1)
        vis = lambda k: [r.choice(ch.pool["T"][:20]) for _ in range(k)] if r.chance(1, 2) else _ctx_chars(ch, r, k)
        a = vis(pl) + _ctx_chars(ch, r, CTX_SLOTS - pl)
        b = vis(ql) + _ctx_chars(ch, r, CTX_SLOTS - ql)
        text = [r.choice(ch.pool[r.choice("DDRRASLC")][:20])] + [ch.rand_cp(r) for _ in range(r.range(0, 4))]
        if r.chance(3, 4):
            text.append(r.choice(ch.pool[r.choice("DDLC")][:20]))
        cases.append(("slots", "-", a, pl, text, b, ql, a[:pl][::-1], b[:ql]))
    ch.learn(shim, sorted({c for x in cases for c in x[2] + x[4] + x[5] + x[7] + x[8]} | {0}))
    raw_lines = [joinraw_line(ch, pl, ql, a, t, b) for _, _, a, pl, t, b, ql, _, _ in cases]
    nul_lines = [joinraw_line(ch, pl, ql, a[:pl] + [0] * (CTX_SLOTS - pl), t, b[:ql] + [0] * (CTX_SLOTS - ql))
                 for _, _, a, pl, t, b, ql, _, _ in cases]
    api_lines = [join_line(ch, pre, t, post) for _, _, _, _, t, _, _, pre, post in cases]

    def classify(ln, out):
        t = ln.split()
        pl, ql = int(t[2]), int(t[3])
        return ["prelen=%d" % pl, "postlen=%d" % ql, out.split()[0] if out else "empty"]
    ctx.correspond("arabic-joinraw", lines=raw_lines, classify=classify)
    ro, no, ao = q(shim, raw_lines), q(shim, nul_lines), q(shim, api_lines)
    bad = stale = 0
    fails = []
    for (how, desc, a, pl, t, b, ql, pre, post), rl, nl, al, x, y, z in zip(cases, raw_lines, nul_lines, api_lines, ro, no, ao):
        # non-trivial: a non-transparent character sits behind a length that hides it
        hidden = [c for c in a[pl:] + b[ql:] if c and ch.res.get(c) != JT_NUM["T"]]
        if hidden:
            stale += 1
        if x != z or x != y:
            bad += 1
            fails.append((len(desc) + len(rl), how, desc, rl, nl, al, x, y, z))
    fails.sort()
    # the shortest failing input of each kind, then the next shortest
    picked = [next((f for f in fails if f[1] == h), None) for h in ("history", "slots")] + fails[:1]
    seen = set()
    for f in picked:
        if f is None or f[3] in seen:
            continue
        seen.add(f[3])
        _, how, desc, rl, nl, al, x, y, z = f
        ctx.violation("the joining pass on a buffer with a HISTORY of context calls differs from the pass on a fresh buffer given "
                      "only the effective (last) context of each side — it depends on what earlier set_pre_context / "
                      "set_post_context / add calls left in the context arrays or lengths: "
                      + (f"after the calls `{desc}` " if how == "history" else "")
                      + f"{rl} -> {x}; the same text on a fresh buffer with only the effective context ({al}) -> {z}; "
                      f"with NUL behind the lengths -> {y}",
                      {"stage": "search", "stream": "context-history", "how": how, "calls": desc, "request": rl,
                       "fresh_request": al, "nul_request": nl, "observed": x, "expected": z})
    ctx.note_search("context-history", len(cases), stale, mismatches=bad,
                    rule="crate alone, real arabic_joining through the hook joining_raw (context arrays and lengths set "
                         "separately): (a) arrays and lengths as a HISTORY of public context calls on one UnicodeBuffer left them "
                         "(1-4 earlier set_pre_context / set_post_context / add calls with up to 7 mostly joining letters, then a "
                         "last call per side that is empty, transparent-only, shorter or arbitrary, add() interleaved), (b) "
                         "arbitrary letters behind arbitrary lengths; oracle: == the pass on a fresh buffer given only the "
                         "effective contexts (hook joining, public setters) and == the pass with NUL behind the lengths; "
                         "non-trivial = a non-transparent character sits behind a length")


# ------------------------------------------------------------------------------------------------
# the dispatch in front of the table


def dispatch_search(ctx, shim, ch):
    """joining_type() of the compiled crate vs the table laid out by its own offset constants, both parsed from the
    source; and the derivation rule for characters without an entry.  -> layout {cp: entry} (None when unreadable)"""
    import unicodedata
    try:
        d = arabic_dispatch.parse()
    except (vlib.BuildError, OSError) as e:
        ctx.violation(f"joining table source not readable: {e}", {"stage": "search", "stream": "joining-dispatch"}, found_input=False)
        return None
    lay = arabic_dispatch.layout(d)
    X = 8
    if ctx.quick:
        cps = set(lay)
        for c in list(lay):
            cps.update(range(max(c - 96, 0), min(c + 97, 0x110000)))
        for page, lo, end, base, off, _ in d["arms"]:
            cps.update(range(max(lo - 96, 0), min(end + 97, 0x110000)))
            cps.update(range((page << d["shift"]), (page << d["shift"]) + 64))
            cps.update(range(((page + 1) << d["shift"]) - 64, min(((page + 1) << d["shift"]) + 64, 0x110000)))
        cps.update(c for c in range(0x110000) if unicodedata.category(chr(c)) == "Cf")
    else:
        cps = set(range(0x110000))
    cps = sorted(c for c in cps if not 0xD800 <= c <= 0xDFFF)
    ch.learn(shim, cps)
    tgcs = {int(x) for x in q(shim, ["arabic tgcs"], nproc=1)[0].split()}
    bad = nb = nn = 0
    for c in cps:
        want = lay.get(c, X)
        if ch.raw[c] != want:
            bad += 1
            # the resolved type tells whether the slip changes behaviour at this code point (a missed entry U of a
            # character that is derived U anyway does not): only then it is a failing input
            behav = ch.res[c] != (want if want != X else JT_NUM["T"] if ch.gc[c] in tgcs else JT_NUM["U"])
            if (behav and nb < 3) or (not behav and nn < 1):
                nb, nn = nb + behav, nn + (not behav)
                where = f"JOINING_TABLE[{[o for s_, o in d['offsets'] if s_ <= c][-1] + c - [s_ for s_, o in d['offsets'] if s_ <= c][-1]}]" if c in lay else "no table entry"
                ctx.violation(f"joining_type(U+{c:04X}) returns {ch.raw[c]} but the table's own layout gives U+{c:04X} "
                              f"{'the entry ' + str(want) + ' (' + where + ')' if c in lay else 'no entry (X = 8)'}: a range test of "
                              f"the dispatch does not cover exactly its slice of JOINING_TABLE",
                              {"stage": "search", "stream": "joining-dispatch", "request": f"arabic jt {c}", "what_field": "raw",
                               "expected": want, "observed": ch.raw[c], "behavioural": behav}, found_input=behav)
    # derivation for characters WITHOUT an explicit entry: Mn / Me / Cf -> T, everything else U; WITH one: the entry
    fmt_gc = ch.gc.get(0x200E, ch.gc.get(0x00AD))
    cf = [c for c in cps if unicodedata.category(chr(c)) == "Cf" and ch.gc[c] == fmt_gc]
    bad2 = 0
    for c in cps:
        e = lay.get(c, X)
        if e != X:
            want = e
        elif c in ch.gc and ch.gc[c] == fmt_gc and unicodedata.category(chr(c)) == "Cf":
            want = JT_NUM["T"]
        else:
            continue
        if ch.res[c] != want:
            bad2 += 1
            if bad2 <= 2:
                ctx.violation(f"U+{c:04X} ({unicodedata.category(chr(c))}) resolves to joining type {ch.res[c]}, expected {want} "
                              f"({'its explicit table entry' if e != X else 'a format character without table entry is Transparent'})",
                              {"stage": "search", "stream": "joining-dispatch", "request": f"arabic jt {c}", "what_field": "resolved",
                               "expected": want, "observed": ch.res[c]})
    explicit_cf = sorted(c for c in cf if lay.get(c, X) != X)
    ctx.note_search("joining-dispatch", len(cps), len(lay), mismatches=bad + bad2, format_characters=len(cf),
                    format_characters_with_entry=["%04X:%d" % (c, lay[c]) for c in explicit_cf],
                    arms=[f"{lo:04X}..{end - 1:04X}@{off}" for _, lo, end, _, off, _ in d["arms"]],
                    rule="JOINING_TABLE, the JOINING_OFFSET_* constants and the range tests of joining_type() are PARSED from "
                         "ot_shaper_arabic_table.rs on every run; reference = the table laid out by the offset constants alone (tile k "
                         "starts at the code point in the constant's name and runs to the next constant / the table's end; no range "
                         "bound is used); compared with joining_type() of the compiled crate (hook) on every code point of every tile "
                         "and arm +-96, the page borders and every gc=Cf code point (ALL code points in thorough): raw entry equal, "
                         "outside the tiles X; resolved type = the explicit entry where there is one, T for every gc=Cf code point "
                         "without one (CPython unicodedata AND the crate's own category); non-trivial = code points with an entry")
    return lay


# ------------------------------------------------------------------------------------------------
# search: the Lean spec as an oracle on the crate


def spec_oracle(ctx, shim, model, name, lines, rule, chunk=400000):
    total = nontriv = bad = 0
    dist = {}
    for i in range(0, len(lines), chunk):
        part = lines[i:i + chunk]
        a = q(shim, part)
        b = q(model, part)
        for ln, x, y in zip(part, a, b):
            total += 1
            t = x.split()
            if len(t) > 1:
                nontriv += 1
            for act in t[1:]:
                dist[act] = dist.get(act, 0) + 1
            if x != y:
                bad += 1
                if bad <= 3:
                    ctx.violation(f"joining pass of the crate differs from the cursive-joining spec: {ln} -> crate {x}, spec {y}",
                                  {"stage": "search", "stream": name, "request": ln, "expected": y, "observed": x})
    ctx.note_search(name, total, nontriv, rule=rule, mismatches=bad,
                    actions={ACTION_NAMES[int(k)] if k.isdigit() and int(k) < 8 else k: v for k, v in sorted(dist.items())})


def exhaustive_lines(ch, r, maxlen, stride):
    ctxs = ["-"] + list(CLASSES)
    lines = []
    k = 0
    for pre in ctxs:
        for post in ctxs:
            reps = ch.reps(r)
            for n in range(0, maxlen + 1):
                for w in itertools.product(CLASSES, repeat=n):
                    k += 1
                    if stride > 1 and k % stride:
                        continue
                    lines.append(f"arabic cls {reps} {pre} {''.join(w) or '-'} {post}")
    return lines


def random_long_lines(ch, r, n):
    lines = []
    for _ in range(n):
        pre = rand_word(r, r.choice([0, 1, 2, 3, 5, 5, 7])) or "-"
        post = rand_word(r, r.choice([0, 1, 2, 3, 5, 5, 7])) or "-"
        w = rand_word(r, r.choice([8, 12, 20, 40])) or "-"
        lines.append(f"arabic cls {ch.reps(r)} {pre} {w} {post}")
    return lines


def metamorphic(ctx, shim, ch, r, n):
    """On the crate alone: (1) contexts of <= 5 characters act as text, (2) inserting a transparent character
    changes nothing else."""
    cases = []
    for _ in range(n):
        text = [ch.rand_cp(r) for _ in range(r.range(1, 10))]
        pre = [ch.rand_cp(r) for _ in range(r.range(0, 5))]
        post = [ch.rand_cp(r) for _ in range(r.range(0, 5))]
        cases.append((pre, text, post))
    # directed: a joining letter separated from the text by 0..4 transparent context characters (5 slots in all)
    for k in range(5):
        for tc in ch.pool["T"][:6]:
            cases.append(([r.choice(ch.pool["D"][:8])] + [tc] * k, [r.choice(ch.pool["R"][:8])], []))
            cases.append(([], [r.choice(ch.pool["D"][:8])], [tc] * k + [r.choice(ch.pool["R"][:8])]))
            cases.append(([r.choice(ch.pool["S"])] + [tc] * k, [r.choice(ch.pool["A"])], []))
    ch.learn(shim, sorted({c for p, t, q_ in cases for c in p + t + q_}))
    tpool = ch.pool["T"][:20]
    lines = []
    meta = []
    for pre, text, post in cases:
        i = r.below(len(text) + 1)
        tc = r.choice(tpool)
        lines.append(join_line(ch, pre, text, post))
        lines.append(join_line(ch, [], pre + text + post, []))
        lines.append(join_line(ch, pre, text[:i] + [tc] + text[i:], post))
        meta.append((len(pre), len(text), i))
    outs = q(shim, lines)
    bad = 0
    for k, (lp, lt, i) in enumerate(meta):
        a, b, c = (outs[3 * k + j].split()[1:] for j in range(3))
        if a != b[lp:lp + lt]:
            bad += 1
            if bad <= 3:
                ctx.violation("context characters do not act as text", {"stage": "search", "stream": "metamorphic",
                              "request": lines[3 * k], "as_text": lines[3 * k + 1], "observed": a,
                              "expected": b[lp:lp + lt]})
        if c != a[:i] + ["7"] + a[i:]:
            bad += 1
            if bad <= 3:
                ctx.violation("inserting a transparent character changed another character's form",
                              {"stage": "search", "stream": "metamorphic", "request": lines[3 * k],
                               "with_T": lines[3 * k + 2], "observed": c, "expected": a[:i] + ["7"] + a[i:]})
    ctx.note_search("metamorphic", 2 * len(meta), 2 * len(meta), mismatches=bad,
                    rule="random real characters: join(pre,text,post) == slice of join(pre+text+post); "
                         "join with a transparent character inserted == the same with NONE inserted")


# ------------------------------------------------------------------------------------------------


def run(ctx):
    ctx.assumptions += [
        "theorems are about the Lean model of arabic_joining / get_joining_type / setup_masks_inner / "
        "mongolian_variation_selectors with the STATE_TABLE, action numbers, feature list and joining-type ranges "
        "regenerated from the compiled crate; the model is tied to the crate by the arabic-* correspondence streams",
        "the per-character joining-type table has no independent source offline: its use is verified, its content is "
        "spot-checked on ~110 well-known characters and on the two Syriac groups (C11_syriac_groups)",
        "glyph-flag side effects of arabic_joining (unsafe_to_concat, safe_to_insert_tatweel: mask bits 0..2) are not "
        "modelled here (buffer model, C03/C04); the masks stream strips those three bits",
        "Spec/Joining.lean's Syriac part (fin2/fin3/med2) is a reading of the OpenType Syriac document, see the file",
    ]
    ctx.regen()
    ctx.prove(MODULE)
    shim = vlib.build_harness()
    model = vlib.build_model()
    ch = Chars(ctx, shim)
    lay = dispatch_search(ctx, shim, ch)

    ctx.correspond("arabic-consts", lines=["arabic table", "arabic consts", "arabic tgcs", "arabic fvs"])
    stream_resolve(ctx, shim, ch, ctx.rng("resolve"), ctx.budget(20000, 100000), exhaustive=not ctx.quick)
    stream_ctx(ctx, ctx.rng("ctx"), ctx.budget(2000, 20000))
    stream_join(ctx, shim, ch, ctx.rng("join"), ctx.budget(40000, 600000))
    stream_masks(ctx, shim, ch, ctx.rng("masks"), ctx.budget(10000, 150000))
    stream_mong(ctx, ctx.rng("mong"), ctx.budget(5000, 50000))
    stream_ctxraw(ctx, shim, ch, ctx.rng("ctxraw"), ctx.budget(6000, 100000))

    r = ctx.rng("oracle")
    if ctx.quick:
        lines = exhaustive_lines(ch, r, 4, 1) + exhaustive_lines(ch, r, 6, 61)
        rule = ("all words of length <= 4 over the 8 classes x 9 x 9 pre/post contexts of length 0/1, plus every 61st "
                "of the words of length <= 6; representatives re-drawn per context pair; non-trivial = non-empty word")
    else:
        lines = exhaustive_lines(ch, r, 6, 1)
        rule = ("ALL words of length <= 6 over the 8 classes (U L R D C T Alaph Dalath/Rish) x 9 x 9 pre/post contexts "
                "of length 0/1; representatives re-drawn per context pair; non-trivial = non-empty word")
    spec_oracle(ctx, shim, model, "spec-oracle-exhaustive", lines, rule)
    del lines
    spec_oracle(ctx, shim, model, "spec-oracle-random", random_long_lines(ch, ctx.rng("long"), ctx.budget(30000, 500000)),
                "random words of length <= 40 with contexts of 0..7 classes (API keeps 5), random representatives")
    metamorphic(ctx, shim, ch, ctx.rng("meta"), ctx.budget(10000, 150000))
    shape_e2e(ctx, shim, model, ch, ctx.rng("e2e"), ctx.budget(20000, 300000), ctx.budget(26000, 400000), lay or {})


# ------------------------------------------------------------------------------------------------
# shape-e2e: every script that owns joining letters, derived from the crate's data
#
# Nothing below names a script.  The letters come from the crate's joining table (`arabic ranges` / `arabic jt`), their
# script from the Unicode Script property (`arabic script`: the unicode-script crate by name, next to the crate's own
# char -> Script mapping), the OpenType tags of a script from the crate's tag mapping (`scripttags`), its horizontal
# direction from `lcprop s`, and the shaper it is sent to (`shaper`, for the evidence and for the one documented
# exemption: vertical text of a script handled by the Arabic shaper is not shaped as Arabic).

CLASS_OF_RES = {0: "U", 1: "L", 2: "R", 3: "D", 4: "A", 5: "S", 7: "T"}
NEUTRAL_ISO = ("Zyyy", "Zinh", "Zzzz")
# characters of no particular script, offered to every alphabet under the class the crate resolves them to:
# SPACE, ZWNJ (U), ZWJ, TATWEEL (C), LRM, CGJ (T).  Default ignorables survive through PRESERVE_DEFAULT_IGNORABLES.
COMMON_EXTRAS = [0x0020, 0x200C, 0x200D, 0x0640, 0x200E, 0x034F]
FEATS = ["isol", "fina", "fin2", "fin3", "medi", "med2", "init"]       # OpenType names; glyph block j+1 = feature j


def tag_str(t):
    return "".join(chr((t >> s) & 255) for s in (24, 16, 8, 0))


class ScriptData:
    pass


def joining_scripts(ctx, shim, ch, r, cap, lay):
    """-> list of ScriptData, one per script that owns a letter of joining type L/R/D/Alaph/Dalath-Rish.
    The CLASS of a character is its explicit entry in the PARSED table (`lay`: tools/gens/arabic_dispatch.py, the table laid
    out by its own offset constants) where it has one, else what the crate derives (gc rule) — not what joining_type()
    of the compiled crate hands out for it."""
    import unicodedata
    ref = lambda c: lay[c] if lay.get(c, 8) != 8 else ch.res[c]
    win = set()
    for s, e, _ in ch.ranges:
        win.update(range(s & ~0x7F, (e | 0x7F) + 1))
    cands = sorted(c for c in win | set(COMMON_EXTRAS) if not 0xD800 <= c <= 0xDFFF)
    ch.learn(shim, cands)
    toks = " ".join(q(shim, ["arabic script " + " ".join(map(str, cands[i:i + 400])) for i in range(0, len(cands), 400)])).split()
    iso, own = {}, {}
    for c, t in zip(cands, toks):
        a, b = t.split(":")
        iso[c], own[c] = tag_str(int(a)), tag_str(int(b))
    names = []
    for c in cands:
        if ref(c) in (1, 2, 3, 4, 5) and iso[c] not in NEUTRAL_ISO and iso[c] not in names:
            names.append(iso[c])
    # characters with an EXPLICIT non-transparent entry that are not letters (format characters, punctuation, spaces,
    # numbers: U+200C, 200D, 202F, 2066..2069, 0600..0605, 06DD, 180E, ...): every one of them goes into the alphabet of
    # its own script, those of no script into every alphabet
    special = [c for c in cands if lay.get(c, 8) not in (8, 7) and unicodedata.category(chr(c))[0] != "L"
               and unicodedata.category(chr(c)) != "Cn"]
    out = []
    for name in names:
        sd = ScriptData()
        sd.iso = name
        sd.tag = sum(ord(x) << s for x, s in zip(name, (24, 16, 8, 0)))
        o = q(shim, [f"scripttags {sd.tag}", f"lcprop s {name}"], nproc=1)
        sd.ot = [int(x) for x in o[0].split(",")] if o[0] not in ("-", "") else []
        d = o[1].split()
        sd.dir = {"1": "l", "2": "r"}.get(d[1] if len(d) > 1 else "", None)
        if not sd.ot or sd.dir is None:
            ctx.violation(f"script {name} owns joining letters but the crate gives it no OpenType tag / horizontal direction "
                          f"(scripttags -> {o[0]}, lcprop s -> {o[1]})",
                          {"stage": "search", "stream": "shape-e2e", "script": name, "request": f"scripttags {sd.tag}"})
            continue
        sh = q(shim, [f"shaper {sd.tag} {0 if sd.dir == 'l' else 1} {sd.ot[0]}", f"shaper {sd.tag} 2 {sd.ot[0]}"], nproc=1)
        sd.shaper, sd.shaper_v = sh[0].strip(), sh[1].strip()
        # alphabet: the script's own characters of the window by resolved class, sampled to `cap` per class
        # (first and last always), then the common extras
        al = {}
        for c in cands:
            if iso[c] == name:
                al.setdefault(CLASS_OF_RES[ref(c)], []).append(c)
        sd.n_letters = sum(len(v) for k, v in al.items() if k in "LRDAS")
        for k in list(al):
            v = al[k]
            lim = cap if k in "LRDAS" else max(4, cap // 4)
            if len(v) > lim:
                al[k] = sorted(set([v[0], v[-1]] + r.sample(v[1:-1], lim - 2)))
        # the letter classes L, R, D the script lacks are borrowed from the other scripts (two letters each): the joining
        # analysis works on joining types whatever the script of a character (an explicit script shapes the whole text).
        # Not the Syriac groups: fin2/fin3/med2 are features of the Syriac rules, the Universal shaper does not enable them.
        sd.foreign = set()
        for k in "LRD":
            if k not in al:
                other = [c for c in cands if CLASS_OF_RES[ref(c)] == k and iso[c] not in NEUTRAL_ISO]
                if other:
                    al[k] = sorted(set(r.sample(other, 2)))
                    sd.foreign.update(al[k])
        cknown = set(KNOWN["C"])
        sd.specials = [c for c in special if iso[c] == name or iso[c] in NEUTRAL_ISO[:2]]
        for c in sd.specials + COMMON_EXTRAS:
            k = CLASS_OF_RES[ref(c)]
            if k == "D" and c in cknown:
                k = "C"
            if not any(c in v for v in al.values()):
                al.setdefault(k, []).append(c)
        # the normalizer must leave the text alone: drop transparent marks that compose with a character of the alphabet
        allc = [c for v in al.values() for c in v]
        marks = al.get("T", [])
        if marks:
            pairs = [(a_, m) for m in marks for a_ in allc]
            comp = q(shim, [f"norm compose {a_} {m}" for a_, m in pairs])
            dropped = {m for (a_, m), o_ in zip(pairs, comp) if o_.strip() != "-"}
            al["T"] = [m for m in marks if m not in dropped]
            if not al["T"]:
                del al["T"]
        sd.alpha = al
        sd.letters = [c for k in CLASSES for c in al.get(k, [])]
        sd.class_of = {c: k for k in CLASSES for c in al.get(k, [])}
        sd.specials = [c for c in sd.specials if c in sd.class_of]
        sd.own_ok = all(own[c] == name for c in sd.letters if iso[c] == name and ref(c) in (1, 2, 3, 4, 5))
        sd.strong = {c for c in sd.letters if iso[c] == name}
        out.append(sd)
    return out


# The script records select_script falls back to when the font has none of the script's own tags, in its order
# (ot_layout.rs::select_script, hb_ot_layout_table_select_script): 'DFLT', 'dflt' (a frequent typo), 'latn'.
FALLBACK_SCRIPTS = ["DFLT", "dflt", "latn"]
UNRELATED_SCRIPT = "grek"          # a script record no joining script ever selects
LANG_POOL = ["ur", "fa", "ar", "syr", "mn", "ps", "sd", "ug", "ku", "ms", "nqo", "ff"]
OTHER_LANG = "en"


class Variant:
    """One ScriptList layout of the positional-forms font.
    name     label
    records  the ScriptList recipe (tools/fontbuild.py)
    chosen   the script tag select_script must choose for this script's text (None: no usable record)
    lang     None, or (BCP 47 language, its OpenType tag): the 7 features sit ONLY under that language system
    main     the layout with the script's own tags and the features under the default language system
    featmap  None, or which lookups each of the 7 features lists (features SHARING lookups, lookups listed in any order)"""

    def __init__(self, name, records, chosen, lang=None, main=False, featmap=None):
        self.name, self.records, self.chosen, self.lang, self.main = name, records, chosen, lang, main
        # featmap[j] = the lookup indices feature FEATS[j] lists, in the order it lists them (None: feature j -> [lookup j]).
        # Lookup l maps every letter into glyph block l + 1, so a letter that takes form j must come out in the block of the
        # LOWEST lookup its feature lists (lookups of a stage run in index order; a substituted letter is no longer covered)
        self.featmap = featmap

    def lookup_of(self, form):
        """the lookup (= glyph block - 1) a letter of `form` (0..6, 7 = none) must have been substituted by"""
        if form == 7 or self.featmap is None:
            return form
        return min(self.featmap[form])


BASIC_FORMS = [0, 1, 4, 6]          # isol fina medi init: the forms every joining script has (indices into FEATS)


def share_variants(sd, r, recs, chosen):
    """Fonts whose positional features SHARE lookups (initial and medial shape identical, isolated and final shape identical,
    ... — common in real fonts): for every pair and every triple of the forms the script can take, the features of the group
    list ONE lookup (that of a random member; the others' own lookups stay unreferenced); the four basic forms in two shared
    pairs; and `order` layouts where the lookup indices are permuted against the feature order and every feature lists TWO
    lookups — its own and the own lookup of another feature — in random order inside the feature's list."""
    forms = list(range(7)) if ("A" in sd.alpha or "S" in sd.alpha) else BASIC_FORMS
    out = []
    def shared(name, groups):
        fm = [[j] for j in range(7)]
        for g in groups:
            keep = r.choice(list(g))
            for j in g:
                fm[j] = [keep]
        if any(v.name == name for v in out):             # the same group drawn twice: keep the names unique
            name += "#" + str(sum(v.name.split("#")[0] == name for v in out) + 1)
        out.append(Variant(name, recs, chosen, featmap=fm))
    for a, b in itertools.combinations(forms, 2):
        shared(f"share-{FEATS[a]}+{FEATS[b]}", [(a, b)])
    if forms is BASIC_FORMS:
        # a form of the Syriac rules sharing with a basic form (the feature is not enabled for this script: no effect allowed)
        for _ in range(2):
            a, b = r.choice(BASIC_FORMS), r.choice([2, 3, 5])
            shared(f"share-{FEATS[a]}+{FEATS[b]}", [(a, b)])
    for g in itertools.combinations(BASIC_FORMS, 3):
        shared("share-" + "+".join(FEATS[j] for j in g), [g])
    pp = r.shuffle(list(BASIC_FORMS))
    shared("share-" + "+".join(FEATS[j] for j in pp[:2]) + "," + "+".join(FEATS[j] for j in pp[2:]), [pp[:2], pp[2:]])
    for i in range(3):
        perm = r.shuffle(list(range(7)))
        fm = []
        for j in range(7):
            other = r.choice([x for x in forms if x != j])
            fm.append(r.shuffle([perm[j], perm[other]]))
        out.append(Variant(f"order-{i}", recs, chosen, featmap=fm))
    return out


def e2e_variants(sd, lang, r=None):
    """ScriptList layouts a font for script `sd` may come with; every record carries the same 7 features, so the
    output tells whether the joining analysis ran, not which record was read."""
    own = [tag_str(t) for t in sd.ot]
    full = {"required": None, "features": list(range(7))}
    empty = {"required": None, "features": []}

    def rec(t, default=full, langs=()):
        return {"tag": t, "default": default, "langs": list(langs)}
    vs = [Variant("own", [rec(t) for t in own], own[0], main=True)]
    if len(own) > 1:                       # 'new' and 'old' tag of a script alone (the crate maps several tags)
        vs += [Variant("own-only-" + t.strip(), [rec(t)], t) for t in own]
    vs += [Variant("only-" + t, [rec(t)], t) for t in FALLBACK_SCRIPTS]
    vs.append(Variant("DFLT+latn+" + UNRELATED_SCRIPT, [rec("DFLT"), rec("latn"), rec(UNRELATED_SCRIPT)], "DFLT"))
    vs.append(Variant("own+empty-DFLT", [rec(t) for t in own] + [rec("DFLT", empty)], own[0]))
    vs.append(Variant("only-" + UNRELATED_SCRIPT, [rec(UNRELATED_SCRIPT)], None))
    if lang:
        lrec = {"tag": lang[1], "required": None, "features": list(range(7))}
        vs.append(Variant("own/lang", [rec(t, None, [lrec]) for t in own], own[0], lang=lang))
        vs.append(Variant("only-DFLT/lang", [rec("DFLT", empty, [lrec])], "DFLT", lang=lang))
    if r is not None:
        vs += share_variants(sd, r, [rec(t) for t in own], own[0])
    return vs


def e2e_exempt(sd, d, chosen):
    """Shaped WITHOUT the joining analysis by design (hb-ot-shaper.hh, repeated in ot_shaper.rs): "If the designer
    designed the font for the 'DFLT' script (or we ended up arbitrarily pick 'latn'), use the default shaper" — except
    that Arabic SCRIPT keeps the Arabic shaper "even if no OT script tag was found", and the scripts of the Arabic
    shaper have no 'latn' clause; vertical text of the Arabic shaper's scripts goes to the default shaper.  Written
    here from those texts, NOT asked from the crate (the same rule is Props/C11.lean::joiningExempt, proved over the
    regenerated probe); only `sd.shaper` (the shaper for the script's own tag) is the crate's answer."""
    if sd.shaper == "arabic" and d in ("t", "b"):
        return True
    if chosen == "DFLT":
        return sd.iso != "Arab"
    if chosen == "latn":
        return sd.shaper == "use"
    return False


def e2e_font(sd, var=None):
    k = len(sd.letters)
    tags = [tag_str(t) for t in sd.ot]
    scripts = var.records if var is not None else \
        [{"tag": t, "default": {"required": None, "features": list(range(7))}, "langs": []} for t in tags]
    return {
        "num_glyphs": 1 + 8 * k,
        "cmap": {c: 1 + i for i, c in enumerate(sd.letters)},
        "advances": [600] * (1 + 8 * k),
        "gsub": {
            "scripts": scripts,
            "features": [{"tag": f, "lookups": list(var.featmap[j]) if var is not None and var.featmap else [j]}
                         for j, f in enumerate(FEATS)],
            "lookups": [{"type": 1, "flag": 0,
                         "subtables": [{"format": 1, "coverage": {"ranges": [(1, k)]}, "delta": k * (j + 1)}]}
                        for j in range(7)],
        },
    }


def xlang(l):
    return "x" + l.encode().hex()


def shape_e2e(ctx, shim, model, ch, r, n, per_script, lay):
    """End to end through the public shape(), for EVERY script that owns joining letters in the crate's table: per
    script a family of fonts with 7 positional features mapping every letter to a distinct glyph per form, one font per
    ScriptList layout (`e2e_variants`: the script's own OpenType tag(s); only 'DFLT' / 'dflt' / 'latn'; several
    fall-backs; own tags next to an empty 'DFLT'; the features only under a language system that the buffer language
    selects — or does not; no usable record).  The form read off the output glyph must be the spec's form (Lean spec
    through `arabic cls`; for Mongolian additionally: a free variation selector shows the form of the item before it)
    wherever the joining analysis is due (`e2e_exempt` lists where it is not: those cases are counted, not judged)."""
    try:
        import fontbuild
    except ImportError:
        ctx.cov.setdefault("not_run", []).append("shape-e2e: tools/fontbuild.py not available")
        return
    scripts = joining_scripts(ctx, shim, ch, r, ctx.budget(24, 400), lay)
    # language systems: BCP 47 language -> its first OpenType language tag, by the crate's own mapping
    lt = q(shim, [f"tagslang {xlang(l)}" for l in LANG_POOL + [OTHER_LANG]], nproc=1)
    ltag = [tag_str(int(o.split()[1].split(",")[0])) if o.startswith("ok ") else None for o in lt]
    langs = [(l, t) for l, t in zip(LANG_POOL, ltag[:-1]) if t and t != ltag[-1]] if ltag[-1] else []
    cases = []   # (script data, variant, dir, explicit script?, pre, word, post as class words, language mode)
    info, variants = {}, {}
    for sd in scripts:
        cl = [x for x in CLASSES if x in sd.alpha]
        ctxs = [""] + cl
        nc = len(cl)
        variants[sd.iso] = vs = e2e_variants(sd, r.choice(langs) if langs else None, r)
        assert len({v.name for v in vs}) == len(vs), "variant names key the fonts: they must be unique"
        lens = {}
        for var in vs:
            # layouts that are only counted get a token share
            idle = var.chosen is None or e2e_exempt(sd, sd.dir, var.chosen)
            budget = per_script if var.main else max(per_script // (64 if idle or var.featmap else 8), 1)
            mx = 1
            while (nc + 1) ** 2 * sum(nc ** i for i in range(1, mx + 2)) <= budget and mx < 6:
                mx += 1
            lens[var.name] = mx
            for pre in ctxs:
                for post in ctxs:
                    for ln in range(1, mx + 1):
                        for w in itertools.product(cl, repeat=ln):
                            cases.append((sd, var, sd.dir, True, pre, "".join(w), post, "match" if var.lang else None, None))
        info[sd.iso] = {"ot": [tag_str(t) for t in sd.ot], "dir": sd.dir, "shaper": sd.shaper, "classes": "".join(cl),
                        "letters_in_font": len(sd.letters), "joining_letters_of_script": sd.n_letters,
                        "borrowed": ["%04X" % c for c in sorted(sd.foreign)],
                        "specials": ["%04X:%s" % (c, sd.class_of[c]) for c in sd.specials],
                        "exhaustive_len": lens[vs[0].name], "guessable": sd.own_ok,
                        "variants": {v.name: {"chosen": v.chosen, "exhaustive_len": lens[v.name],
                                              **({"language": list(v.lang)} if v.lang else {}),
                                              **({"feature_lookups": {FEATS[j]: v.featmap[j] for j in range(7)}} if v.featmap else {})}
                                     for v in vs}}
    for k in range(2 * n if scripts else 0):
        sd = r.choice(scripts)
        vs = variants[sd.iso]
        var = vs[0] if k < n else r.choice(vs[1:])
        wts = [x for x in "UULLRRRDDDDCTTTAAS" if x in sd.alpha]
        # vertical text: every script but those of the Arabic shaper (ot_shaper.rs: "Arabic shaping is applicable only
        # to horizontal layout; for vertical text, just use the generic shaper instead")
        d = "t" if sd.shaper != "arabic" and r.chance(1, 5) else sd.dir
        lm = r.choice(["match", "match", "absent", "other"]) if var.lang else None
        cases.append((sd, var, d, not r.chance(1, 4), rand_word(r, r.choice([0, 1, 2, 5]), wts),
                      rand_word(r, r.choice([5, 8, 12, 30]), wts) or "D", rand_word(r, r.choice([0, 1, 2, 5]), wts), lm, None))
    # directed: EVERY special character of the alphabet (explicit non-transparent table entry, not a letter) between two
    # letters that could join each other — inside the text, as the nearest pre-context character, as the nearest
    # post-context character, and with transparent marks around it
    n_special = 0
    for sd in scripts:
        left = [k for k in "DLC" if k in sd.alpha]
        right = [k for k in "DRCAS" if k in sd.alpha]
        tm = sd.alpha.get("T", [])
        word = lambda xs: "".join(sd.class_of[c] for c in xs)
        for var in [v for v in variants[sd.iso] if v.main or (v.chosen and not v.lang and not e2e_exempt(sd, sd.dir, v.chosen))][:3]:
            for sp in sd.specials if left and right else []:
                for _ in range(2 if var.main else 1):
                    a, b = r.choice(sd.alpha[r.choice(left)]), r.choice(sd.alpha[r.choice(right)])
                    forms_ = [([], [a, sp, b], []), ([a, sp], [b], []), ([], [a], [sp, b])]
                    if tm:
                        t1, t2 = r.choice(tm), r.choice(tm)
                        forms_ += [([], [a, t1, sp, t2, b], []), ([a, sp, t1], [t2, b], []), ([], [a, t1], [t2, sp, b])]
                    for p_, t_, q__ in forms_:
                        n_special += 1
                        cases.append((sd, var, sd.dir, True, word(p_), word(t_), word(q__), None, (p_, t_, q__)))
    fid = {(sd.iso, v.name): f"c11e2e{sd.iso}v{i}" for sd in scripts for i, v in enumerate(variants[sd.iso])}
    fontlines = {(sd.iso, v.name): f"font {fid[(sd.iso, v.name)]} " + fontbuild.hexfont(e2e_font(sd, v))
                 for sd in scripts for v in variants[sd.iso]}
    lines, oracle, meta, rlines = [], [], [], []
    for sd, var, d, explicit, pre, w, post, lm, forced in cases:
        pick = lambda word: [r.choice(sd.alpha[x]) for x in word]
        p, t, q_ = forced if forced else (pick(pre), pick(w), pick(post))
        if not explicit:
            first = next((c for c in t if c in sd.strong or c in sd.foreign), None)
            if first not in sd.strong:
                explicit = True       # the first character with a script of its own must be one of this script
        hx = lambda xs: ",".join("%x" % c for c in xs) or "-"
        text = ",".join("%x:%d" % (c, i) for i, c in enumerate(t))
        lang = xlang(var.lang[0]) if lm == "match" else xlang(OTHER_LANG) if lm == "other" else "-"
        # flags 4 | 16 = PRESERVE_DEFAULT_IGNORABLES | DO_NOT_INSERT_DOTTED_CIRCLE, cluster level 1 = monotone characters
        lines.append(f"shape {fid[(sd.iso, var.name)]} {d} {sd.iso if explicit else '-'} {lang} 20 1 - {hx(p)} {hx(q_)} {text}")
        # the same request through a RECYCLED buffer: an earlier use with join-causing pre- and post-context (shaped, then
        # GlyphBuffer::clear(); or only filled, then UnicodeBuffer::clear()), then the request filled with push_str and the
        # context calls a caller makes for the DECLARED context only (none at all for an empty one)
        jc = [x for x in "DCLR" if x in sd.alpha] or list(sd.alpha)
        jl = lambda k: [r.choice(sd.alpha[r.choice(jc[:1] * 3 + jc)]) for _ in range(k)]
        early = [f"pre {hx(jl(r.range(1, 5)))}", f"push {hx(jl(r.range(1, 3)))}", f"post {hx(jl(r.range(1, 5)))}",
                 f"script {sd.iso}", f"dir {sd.dir}", f"flags {r.choice([20, 0, 3])}", f"level {r.below(3)}"]
        if r.chance(2, 3):
            early.append("shape -")
        # … and in every second request the contexts are set SEVERAL times on the recycled buffer before the declared ones:
        # longer join-causing contexts first (the declared one, possibly empty, is the last call of its side)
        pre_ops, post_ops = ([f"pre {hx(p)}"] if p else []), ([f"post {hx(q_)}"] if q_ else [])
        if r.chance(1, 2):
            pre_ops = [f"pre {hx(jl(r.range(min(len(p) + 1, 5), 5)))}" for _ in range(r.range(1, 2))] + [f"pre {hx(p)}"]
            post_ops = [f"post {hx(jl(r.range(min(len(q_) + 1, 5), 5)))}" for _ in range(r.range(1, 2))] + [f"post {hx(q_)}"]
            if r.chance(1, 3):
                pre_ops, post_ops = post_ops[:1] + pre_ops, post_ops[1:]
        req = pre_ops + [f"push {hx(t)}"] + post_ops + [f"dir {d}"] + \
              ([f"script {sd.iso}"] if explicit else []) + ([f"lang {lang}"] if lang != "-" else []) + ["flags 20", "level 1"]
        rlines.append(f"lc #{fid[(sd.iso, var.name)]} ; " + " ; ".join(early + ["clear"] + req + ["shape -", "dump"]))
        oracle.append(f"arabic cls 0,0,0,0,0,0,0,0 {pre or '-'} {w} {post or '-'}")
        meta.append((sd, var, d, explicit, t, not any(c in sd.foreign for c in p + t + q_), lm))
    groups, gidx = [], []
    by = {}
    for i, m in enumerate(meta):
        by.setdefault((m[0].iso, m[1].name), []).append(i)
    for key, idx in by.items():
        for j in range(0, len(idx), 4000):
            part = idx[j:j + 4000]
            groups.append([fontlines[key]] + [lines[i] for i in part] + [rlines[i] for i in part])
            gidx.append(part)
    outs = [None] * len(lines)
    routs = [None] * len(lines)
    for g, part, o in zip(groups, gidx, vlib.run_groups(shim, groups)):
        if o[0] != "ok":
            ctx.violation(f"generated positional-forms font rejected: {o[0]}", {"stage": "search", "stream": "shape-e2e",
                          "font_line": g[0][:200]}, found_input=False)
            return
        for i, x in zip(part, o[1:1 + len(part)]):
            outs[i] = x
        for i, x in zip(part, o[1 + len(part):]):
            # reply of `lc`: the states after every call; the last one carries the `dump` of the glyph buffer
            routs[i] = x.rsplit(" dump=", 1)[1].replace("_", " ") if x.startswith("ok ") and " dump=" in x else x
    spec = q(model, oracle)
    bad = 0
    dist, per, nbad, modes, shown, pervar, nbadvar, unjudged = {}, {}, {}, {}, {}, {}, {}, {}
    def decode(o, d, k, nt):
        """(form per character in logical order, sorted letter indices) read off the glyph ids, or (None, None)"""
        f = o.split()
        if f and f[0] == "ok" and int(f[1]) == nt:
            gids = [int(x.split(":")[0]) for x in f[2:]]
            if d == "r":
                gids = gids[::-1]                                            # rtl output is in visual order
            # block 0 = unsubstituted -> 7 (none)
            return [((g - 1) // k - 1) % 8 if g >= 1 else -1 for g in gids], sorted(1 + (g - 1) % k for g in gids)
        return None, None
    wants = [None] * len(lines)
    for ci, (ln, orc, (sd, var, d, explicit, t, pure, lm), o, sp) in enumerate(zip(lines, oracle, meta, outs, spec)):
        k = len(sd.letters)
        per[sd.iso] = per.get(sd.iso, 0) + 1
        pervar[var.name] = pervar.get(var.name, 0) + 1
        mode = ("vertical" if d == "t" else "horizontal") + ("" if explicit else "+guessed-script") + \
               ({"match": "+language", "other": "+other-language", "absent": "+no-language"}[lm] if lm else "")
        modes[mode] = modes.get(mode, 0) + 1
        if var.chosen is None or e2e_exempt(sd, d, var.chosen):
            why = "no usable script record" if var.chosen is None else \
                  f"default shaper by design ({'vertical' if d in 'tb' else var.chosen + ' chosen'}, shaper of the script: {sd.shaper})"
            unjudged[why] = unjudged.get(why, 0) + 1
            continue
        if lm in ("absent", "other"):
            # the features sit under a language system the buffer language does not select, and the default language
            # system has none: no positional feature may be applied
            want = [7] * len(t)
        else:
            want = [int(x) for x in sp.split()[1:]]
            if sd.iso == "Mong":
                for i in range(1, len(want)):
                    if t[i] in FVS:
                        want[i] = want[i - 1]
        forms_want = want
        want = [var.lookup_of(w) for w in want]           # glyph block - 1 the letter must come out in
        wants[ci] = want
        got, got_letters = decode(o, d, k, len(t))
        for a in (got or []) if var.featmap is None else []:
            dist[a] = dist.get(a, 0) + 1
        ok = got == want and got_letters == sorted(1 + sd.letters.index(c) for c in t)
        if not ok:
            bad += 1
            nbad[sd.iso] = nbad.get(sd.iso, 0) + 1
            nbadvar[var.name] = nbadvar.get(var.name, 0) + 1
            # per script: the first failing input, and the first one without borrowed letters where a letter that should
            # take a positional form gets another form (at most 3 scripts are spelled out, the rest is counted)
            on_letter = pure and got is not None and any(w_ != 7 and g_ != w_ for g_, w_ in zip(got, want))
            kind = "letter" if on_letter else "any"
            seen = shown.setdefault(sd.iso, set())
            if (len(shown) <= 3 or seen) and kind not in seen and not (kind == "any" and "letter" in seen):
                seen.add(kind)
                layout = "; ".join(f"'{x['tag']}'" + ("" if x.get("default") and x["default"]["features"] else " (default language system without features)")
                                   + "".join(f" + language system '{l['tag']}'" for l in x["langs"]) for x in var.records)
                ctx.violation(f"shape() on the positional-forms font of script {sd.iso} (own OpenType tag {'/'.join(tag_str(x) for x in sd.ot)}; "
                              f"ScriptList of the font: {layout}; chosen script '{var.chosen}'; {mode}"
                              + ("" if var.featmap is None else "; features -> lookups "
                                 + " ".join(f"{FEATS[j]}:{var.featmap[j]}" for j in range(7))
                                 + "; lookup l puts a letter into glyph block l+1, listed below as l") +
                              f"): forms {got} differ from the "
                              f"{'expected (no feature selected) ' if lm in ('absent', 'other') else 'spec '}{want}"
                              + ("" if var.featmap is None else f" (= lookups of the spec's forms {[ACTION_NAMES[w] for w in forms_want]})")
                              + f" for {orc}",
                              {"stage": "search", "stream": "shape-e2e", "script": sd.iso, "mode": mode, "variant": var.name,
                               **({"feature_lookups": {FEATS[j]: var.featmap[j] for j in range(7)}} if var.featmap else {}),
                               "chosen_gsub_script": var.chosen, "font_line": fontlines[(sd.iso, var.name)], "request": ln,
                               "oracle": orc, "expected": want, "observed": o})
    # the recycled runs: same oracle (spec on the text and its DECLARED context), and the fresh-buffer answer beside it
    rbad, rjudged, rshown, rper = 0, 0, set(), {}
    for ci, (rl, orc, (sd, var, d, explicit, t, pure, lm), o, ro) in enumerate(zip(rlines, oracle, meta, outs, routs)):
        want = wants[ci]
        if want is None:
            continue
        rjudged += 1
        got, got_letters = decode(ro, d, len(sd.letters), len(t))
        if got == want and got_letters == sorted(1 + sd.letters.index(c) for c in t):
            continue
        rbad += 1
        rper[sd.iso] = rper.get(sd.iso, 0) + 1
        fresh_ok = decode(o, d, len(sd.letters), len(t))[0] == want
        key = (sd.iso, fresh_ok)
        if len(rshown) < 4 and key not in rshown and (fresh_ok or not any(x[1] for x in rshown)):
            rshown.add(key)
            ctx.violation(f"shape() through a RECYCLED buffer (earlier use with joining pre- and post-context, clear(), request "
                          f"filled with push_str and only its declared context) on the positional-forms font of script {sd.iso}: "
                          f"forms {got} differ from the spec {want} for {orc}"
                          + ("" if var.featmap is None else " (features -> lookups "
                             + " ".join(f"{FEATS[j]}:{var.featmap[j]}" for j in range(7)) + "; forms listed as lookup indices)")
                          + ("; the same request through a fresh buffer gives the spec's forms" if fresh_ok else ""),
                          {"stage": "search", "stream": "shape-e2e-recycled", "script": sd.iso, "variant": var.name,
                           **({"feature_lookups": {FEATS[j]: var.featmap[j] for j in range(7)}} if var.featmap else {}),
                           "font_line": fontlines[(sd.iso, var.name)], "request": rl, "fresh_request": lines[ci],
                           "oracle": orc, "expected": want, "observed": ro, "fresh_observed": o})
    ctx.note_search("shape-e2e-recycled", len(rlines), rjudged, mismatches=rbad, mismatches_per_script=rper,
                    rule="every request of shape-e2e once more through the public api on ONE buffer: an earlier use of the "
                         "same script with 1-5 join-causing letters as pre-context and as post-context (2/3 shaped and recycled "
                         "with GlyphBuffer::clear(), 1/3 only filled and cleared with UnicodeBuffer::clear()), then the request "
                         "filled with push_str; set_pre_context / set_post_context are called only for a non-empty declared "
                         "context; in every second request the contexts are first set to LONGER join-causing texts (1-2 "
                         "extra set_pre_context / set_post_context calls on the recycled buffer) and then to the declared ones, "
                         "an empty declared context being set explicitly.  Judged like shape-e2e: form decoded from the glyph id "
                         "== Lean spec on the text and its declared context")
    ctx.note_search("shape-e2e", len(lines), len(lines) - sum(unjudged.values()), mismatches=bad, mismatches_per_script=nbad,
                    mismatches_per_variant=nbadvar, per_script=per, per_variant=pervar, counted_not_judged=unjudged,
                    modes=modes, scripts=info, directed_special_cases=n_special,
                    forms={ACTION_NAMES[a] if 0 <= a < 8 else str(a): v for a, v in sorted(dist.items())},
                    rule="public shape(), for every script that owns a joining letter of the crate's table (scripts by the "
                         "Unicode Script property, letters sampled per class from the table, plus SPACE/ZWNJ/ZWJ/TATWEEL/LRM/CGJ), on "
                         "generated fonts per script with 7 single-substitution positional features, one font per ScriptList layout: "
                         "the script's OpenType tag(s) by the crate's own mapping (main layout; each tag alone where there are "
                         "several); only 'DFLT' / only 'dflt' / only 'latn'; 'DFLT'+'latn'+an unrelated script; own tag(s) next to "
                         "an empty 'DFLT'; the features only under a language system (own tag / 'DFLT') with the buffer language "
                         "selecting it, absent, or another; only an unrelated script; and, under the own tag(s), fonts whose positional features "
                         "SHARE lookups: every pair and every triple of the forms the script takes listing one lookup, two shared pairs, "
                         "a basic form sharing with a Syriac-only form, and `order` layouts (lookup indices permuted against the feature "
                         "order, every feature listing two lookups — its own and another feature's — in random order): a letter must "
                         "come out in the glyph block of the lowest lookup its form's feature lists.  All class words up to the per-layout length x "
                         "contexts of length 0/1 (explicit script, native horizontal direction) plus random words <= 30 with "
                         "contexts <= 5 (1/4 with guessed script, 1/5 vertical for the scripts not handled by the Arabic shaper). "
                         "CLASS of a character = its explicit entry in the table PARSED from the source and laid out by the table's own "
                         "offset constants (else the gc derivation), not what the compiled joining_type() hands out.  Every character "
                         "with an explicit non-transparent entry that is not a letter (ZWNJ, ZWJ, NNBSP, the bidi isolates, Arabic "
                         "number signs, MVS, script numbers ...: `specials` per script) is in the alphabet of its script (of every "
                         "script when it has none) and is shaped, directed, between two letters that could join: inside the text, as "
                         "nearest pre-context and as nearest post-context character, with and without transparent marks around it. "
                         "Judged: form decoded from the glyph id == Lean spec (+ FVS copy for Mongolian), resp. no form at all "
                         "when the language system with the features is not selected.  Counted, not judged (non-trivial = judged): "
                         "layouts where the default shaper is due by design — 'DFLT' chosen for a script other than Arabic, 'latn' "
                         "chosen for a script of the Universal shaper — and fonts without a usable script record")


def replay(ctx, rp):
    shim = vlib.build_harness()
    model = vlib.build_model()
    rc = 0
    if rp.get("stream") == "shape-e2e":
        o = vlib.run_groups(shim, [[rp["font_line"], rp["request"]]], nproc=1)[0]
        print("impl    :", o[1]); print("observed:", rp["observed"]); print("expected forms:", rp["expected"])
        return 0 if o[1] != rp["observed"] else 1
    if rp.get("stream") == "shape-e2e-recycled":
        o = vlib.run_groups(shim, [[rp["font_line"], rp["request"], rp["fresh_request"]]], nproc=1)[0]
        rec = o[1].rsplit(" dump=", 1)[1].replace("_", " ") if " dump=" in o[1] else o[1]
        print("recycled request:", rp["request"]); print("recycled buffer :", rec); print("fresh buffer    :", o[2])
        print("spec forms      :", rp["expected"], "for", rp["oracle"])
        return 0 if rec != rp["observed"] else 1
    if rp.get("stream") == "context-history":
        a, b, c = q(shim, [rp["request"], rp["fresh_request"], rp["nul_request"]], nproc=1)
        if rp.get("calls", "-") != "-":
            print("context calls on one buffer:", rp["calls"], "->", q(shim, [rp["calls"]], nproc=1)[0])
        print("raw arrays + lengths :", rp["request"], "->", a)
        print("NUL behind the length:", rp["nul_request"], "->", c)
        print("fresh buffer, last context only:", rp["fresh_request"], "->", b)
        return 0 if a == b == c else 1
    if rp.get("stream") == "joining-dispatch":
        a = q(shim, [rp["request"]], nproc=1)[0]
        raw, res, gc = (int(x) for x in a.split(":"))
        got = raw if rp.get("what_field") == "raw" else res
        print(rp["request"], "->", a, f"({rp.get('what_field')} = {got}, expected {rp['expected']})")
        return 0 if got == rp["expected"] else 1
    if rp.get("stream") == "masks-oracle":
        a = strip_flags(q(shim, [rp["request"]], nproc=1)[0])
        print("impl    :", a); print("expected:", rp["expected"])
        return 0 if a == rp["expected"] else 1
    for key in ("request", "as_text", "with_T"):
        if key in rp:
            a = q(shim, [rp[key]], nproc=1)[0]
            b = q(model, [rp[key]], nproc=1)[0]
            if rp[key].startswith("arabic masks"):
                a, b = strip_flags(a), strip_flags(b)
            print(f"{key}: {rp[key]}\n  impl : {a}\n  model: {b}")
            if a != b and not rp[key].startswith("arabic jt"):
                rc = 1
    if rp.get("stream") == "known-chars":
        a = q(shim, [rp["request"]], nproc=1)[0]
        rc = 0 if int(a.split(":")[1]) == rp["expected"] else 1
    if rp.get("stream") == "metamorphic":
        a = q(shim, [rp["request"]], nproc=1)[0].split()[1:]
        rc = 0 if a == rp["expected"] or "with_T" in rp else 1
        if "with_T" in rp:
            c = q(shim, [rp["with_T"]], nproc=1)[0].split()[1:]
            rc = 0 if c == rp["expected"] else 1
    return rc
